// Command instrument generates a `go build -overlay` description that injects the verification
// hooks into the CURRENT WORKING TREE of the repository without touching it:
//
//   - engine/GruleEngine.go: the operand of every `range <x>.RuleEntries` is wrapped in
//     verifhook.Order(...), so the harness controls the rule iteration order;
//   - a virtual package <module>/verifhook (source: /verif/hooksrc/verifhook);
//   - with -points: verifhook.Point("<pkg>.<recv>.<func>") as first statement of every method /
//     function of the listed packages (yield points for the cooperative scheduler, C09).
//
// usage: instrument -repo /repo -out /verif/.build/x [-points]
package main

import (
	"bytes"
	"encoding/json"
	"flag"
	"fmt"
	"go/ast"
	"go/format"
	"go/parser"
	"go/token"
	"os"
	"path/filepath"
	"strings"
)

const hookImport = "github.com/hyperjumptech/grule-rule-engine/verifhook"

type report struct {
	OrderSites int      `json:"order_sites"`
	PointSites int      `json:"point_sites"`
	KeySites   int      `json:"key_sites"`
	Files      []string `json:"files"`
}

func main() {
	repo := flag.String("repo", "/repo", "repository root")
	out := flag.String("out", "", "output dir")
	points := flag.Bool("points", false, "insert yield points (C09)")
	hooksrc := flag.String("hooksrc", "/verif/hooksrc/verifhook", "hook package source dir")
	flag.Parse()
	if *out == "" {
		fmt.Fprintln(os.Stderr, "need -out")
		os.Exit(2)
	}
	must(os.MkdirAll(filepath.Join(*out, "src"), 0o755))
	replace := map[string]string{}
	rep := report{}

	// virtual hook package
	ents, err := os.ReadDir(*hooksrc)
	must(err)
	for _, e := range ents {
		if strings.HasSuffix(e.Name(), ".go.txt") {
			b, err := os.ReadFile(filepath.Join(*hooksrc, e.Name()))
			must(err)
			dst := filepath.Join(*out, "src", "verifhook_"+strings.TrimSuffix(e.Name(), ".txt"))
			must(os.WriteFile(dst, b, 0o644))
			replace[filepath.Join(*repo, "verifhook", strings.TrimSuffix(e.Name(), ".txt"))] = dst
		}
	}

	// order hook: every non-test file of package engine
	engFile := filepath.Join(*repo, "engine", "GruleEngine.go")
	done := map[string]bool{}
	engFiles, _ := filepath.Glob(filepath.Join(*repo, "engine", "*.go"))
	for _, ef := range engFiles {
		if strings.HasSuffix(ef, "_test.go") {
			continue
		}
		if n, src := instrumentFile(ef, true, false, "engine"); n > 0 {
			dst := filepath.Join(*out, "src", "engine_"+filepath.Base(ef))
			must(os.WriteFile(dst, src, 0o644))
			replace[ef] = dst
			rep.OrderSites += n
			rep.Files = append(rep.Files, ef)
			done[ef] = true
		}
	}
	_ = engFile

	kbFile := filepath.Join(*repo, "ast", "KnowledgeBase.go")
	// all forms here too: the name walks of RetractRule / IsRuleRetracted / Reset see the entries in sorted key order
	// (tombstones "Deleted_<name>" first), not in the runtime's random one
	if n, src := instrumentFile(kbFile, true, false, "ast"); n > 0 && !*points {
		dst := filepath.Join(*out, "src", "ast_KnowledgeBase.go")
		must(os.WriteFile(dst, src, 0o644))
		replace[kbFile] = dst
		rep.KeySites = n
		rep.Files = append(rep.Files, kbFile)
		done[kbFile] = true
	}

	if *points {
		for _, pkgDir := range []string{"ast", "engine", "pkg"} {
			files, _ := filepath.Glob(filepath.Join(*repo, pkgDir, "*.go"))
			for _, f := range files {
				if strings.HasSuffix(f, "_test.go") {
					continue
				}
				base := filepath.Base(f)
				if pkgDir == "pkg" && base != "CloneTool.go" {
					continue
				}
				if pkgDir == "ast" && (base == "Serializer.go" || base == "Ast.go") {
					continue
				}
				n, src := instrumentFile(f, pkgDir == "engine", true, pkgDir)
				if n > 0 {
					dst := filepath.Join(*out, "src", pkgDir+"_"+base)
					must(os.WriteFile(dst, src, 0o644))
					replace[f] = dst
					rep.PointSites += n
					if !done[f] {
						rep.Files = append(rep.Files, f)
					}
				}
			}
		}
	}

	ov, _ := json.MarshalIndent(map[string]interface{}{"Replace": replace}, "", " ")
	must(os.WriteFile(filepath.Join(*out, "overlay.json"), ov, 0o644))
	rj, _ := json.MarshalIndent(rep, "", " ")
	must(os.WriteFile(filepath.Join(*out, "instrument.json"), rj, 0o644))
	fmt.Printf("instrument: order_sites=%d key_sites=%d point_sites=%d files=%d\n", rep.OrderSites, rep.KeySites, rep.PointSites, len(rep.Files))
}

// instrumentFile returns the number of sites rewritten and the new source.
func instrumentFile(path string, order, points bool, pkg string) (int, []byte) {
	keyed := points || strings.HasSuffix(path, "ast/KnowledgeBase.go")
	fset := token.NewFileSet()
	f, err := parser.ParseFile(fset, path, nil, parser.ParseComments)
	if err != nil {
		fmt.Fprintf(os.Stderr, "instrument: cannot parse %s: %v (left as is)\n", path, err)
		return 0, nil
	}
	n := 0
	// every `range <x>.RuleEntries` inside a function: the harness, not the Go runtime, decides the order.
	//   for _, v := range M      ->  for _, v := range verifhook.Order(site, M)
	//   for range M              ->  for range verifhook.Order(site, M)
	//   for k := range M         ->  for _, k := range verifhook.Keys(site, M)
	//   for k, v := range M      ->  for _, k := range verifhook.Keys(site, M) { v := M[k]; ... }
	// order: all forms (package engine); keyed: only the two-variable form (KnowledgeBase.Clone, and every file of the C09 build)
	for _, d := range f.Decls {
		fd, ok := d.(*ast.FuncDecl)
		if !ok || fd.Body == nil {
			continue
		}
		site := pkg + "." + funcName(fd)
		ast.Inspect(fd.Body, func(nd ast.Node) bool {
			rs, ok := nd.(*ast.RangeStmt)
			if !ok {
				return true
			}
			sel, ok := rs.X.(*ast.SelectorExpr)
			if !ok || sel.Sel.Name != "RuleEntries" {
				return true
			}
			siteLit := &ast.BasicLit{Kind: token.STRING, Value: fmt.Sprintf("%q", site)}
			used := func(e ast.Expr) bool {
				if e == nil {
					return false
				}
				id, ok := e.(*ast.Ident)
				return !ok || id.Name != "_"
			}
			keyUsed, valUsed := used(rs.Key), used(rs.Value)
			orig := rs.X
			switch {
			case !keyUsed && order:
				rs.X = &ast.CallExpr{Fun: &ast.SelectorExpr{X: ast.NewIdent("verifhook"), Sel: ast.NewIdent("Order")}, Args: []ast.Expr{siteLit, orig}}
				n++
			case keyUsed && !valUsed && (order || keyed) && rs.Tok == token.DEFINE:
				k, ok := rs.Key.(*ast.Ident)
				if !ok {
					return true
				}
				rs.X = &ast.CallExpr{Fun: &ast.SelectorExpr{X: ast.NewIdent("verifhook"), Sel: ast.NewIdent("Keys")}, Args: []ast.Expr{siteLit, orig}}
				rs.Key = ast.NewIdent("_")
				rs.Value = ast.NewIdent(k.Name)
				n++
			case keyUsed && valUsed && (order || keyed) && rs.Tok == token.DEFINE:
				k, ok1 := rs.Key.(*ast.Ident)
				v, ok2 := rs.Value.(*ast.Ident)
				if !ok1 || !ok2 {
					return true
				}
				rs.X = &ast.CallExpr{Fun: &ast.SelectorExpr{X: ast.NewIdent("verifhook"), Sel: ast.NewIdent("Keys")}, Args: []ast.Expr{siteLit, orig}}
				rs.Value = ast.NewIdent(k.Name)
				rs.Key = ast.NewIdent("_")
				assign := &ast.AssignStmt{Lhs: []ast.Expr{ast.NewIdent(v.Name)}, Tok: token.DEFINE, Rhs: []ast.Expr{&ast.IndexExpr{X: orig, Index: ast.NewIdent(k.Name)}}}
				rs.Body.List = append([]ast.Stmt{assign}, rs.Body.List...)
				n++
			}
			return true
		})
	}
	if points {
		// `<x>.lock.Lock()` / `.RLock()` on a field whose name says lock or mutex -> verifhook.Lock(&<x>.lock): waiting
		// for a mutex becomes visible to the cooperative scheduler
		ast.Inspect(f, func(nd ast.Node) bool {
			ce, ok := nd.(*ast.CallExpr)
			if !ok || len(ce.Args) != 0 {
				return true
			}
			sel, ok := ce.Fun.(*ast.SelectorExpr)
			if !ok || (sel.Sel.Name != "Lock" && sel.Sel.Name != "RLock") {
				return true
			}
			recv, ok := sel.X.(*ast.SelectorExpr)
			if !ok {
				return true
			}
			ln := strings.ToLower(recv.Sel.Name)
			if !strings.Contains(ln, "lock") && !strings.Contains(ln, "mu") {
				return true
			}
			ce.Fun = &ast.SelectorExpr{X: ast.NewIdent("verifhook"), Sel: ast.NewIdent(sel.Sel.Name)}
			ce.Args = []ast.Expr{&ast.UnaryExpr{Op: token.AND, X: recv}}
			n++
			return true
		})
		for _, d := range f.Decls {
			fd, ok := d.(*ast.FuncDecl)
			if !ok || fd.Body == nil {
				continue
			}
			name := fd.Name.Name
			if fd.Recv != nil && len(fd.Recv.List) == 1 {
				t := fd.Recv.List[0].Type
				if st, ok := t.(*ast.StarExpr); ok {
					t = st.X
				}
				if id, ok := t.(*ast.Ident); ok {
					name = id.Name + "." + name
				}
			}
			if !wantPoint(pkg, name) {
				continue
			}
			call := &ast.ExprStmt{X: &ast.CallExpr{
				Fun:  &ast.SelectorExpr{X: ast.NewIdent("verifhook"), Sel: ast.NewIdent("Point")},
				Args: []ast.Expr{&ast.BasicLit{Kind: token.STRING, Value: fmt.Sprintf("%q", pkg+"."+name)}},
			}}
			fd.Body.List = append([]ast.Stmt{call}, fd.Body.List...)
			n++
		}
	}
	if n == 0 {
		return 0, nil
	}
	// add import
	imp := &ast.ImportSpec{Path: &ast.BasicLit{Kind: token.STRING, Value: fmt.Sprintf("%q", hookImport)}}
	added := false
	for _, d := range f.Decls {
		if gd, ok := d.(*ast.GenDecl); ok && gd.Tok == token.IMPORT {
			gd.Specs = append(gd.Specs, imp)
			if !gd.Lparen.IsValid() {
				gd.Lparen = gd.Pos()
				gd.Rparen = gd.End()
			}
			added = true
			break
		}
	}
	if !added {
		gd := &ast.GenDecl{Tok: token.IMPORT, Specs: []ast.Spec{imp}}
		f.Decls = append([]ast.Decl{gd}, f.Decls...)
	}
	var buf bytes.Buffer
	if err := format.Node(&buf, fset, f); err != nil {
		fmt.Fprintf(os.Stderr, "instrument: cannot print %s: %v (left as is)\n", path, err)
		return 0, nil
	}
	return n, buf.Bytes()
}

// funcName renders "Recv.Name" / "Name".
func funcName(fd *ast.FuncDecl) string {
	name := fd.Name.Name
	if fd.Recv != nil && len(fd.Recv.List) == 1 {
		t := fd.Recv.List[0].Type
		if st, ok := t.(*ast.StarExpr); ok {
			t = st.X
		}
		if id, ok := t.(*ast.Ident); ok {
			name = id.Name + "." + name
		}
	}
	return name
}

// wantPoint selects the functions that become yield points: everything that reads or writes
// state shared between blueprint/instances or memo/flags of an instance.
func wantPoint(pkg, name string) bool {
	for _, s := range []string{"GetSnapshot", "GetAstID", "GetGrlText", "SetGrlText", "MakeCatalog", "Accept", "Receive", "DebugContent", "String", "SetLogger", "New"} {
		if strings.Contains(name, s) {
			return false
		}
	}
	return true
}

func must(err error) {
	if err != nil {
		fmt.Fprintln(os.Stderr, "instrument:", err)
		os.Exit(2)
	}
}
