// Command vcheck runs one property check: vcheck <ID> quick|thorough [--replay file]
package main

import (
	"encoding/json"
	"fmt"
	"os"
	"runtime/debug"
	"runtime/pprof"

	"verif/internal/checks"
	"verif/internal/ev"
)

type checkFn func(rep *ev.Reporter, tier string)

var table = map[string]struct {
	level string
	fn    checkFn
}{
	"C01": {"model_checking", checks.C01},
	"C02": {"model_checking", checks.C02},
	"C03": {"model_checking", checks.C03},
	"C04": {"model_checking", checks.C04},
	"C05": {"model_checking", checks.C05},
	"C06": {"model_checking", checks.C06},
	"C07": {"model_checking", checks.C07},
	"C08": {"model_checking", checks.C08},
	"C09": {"model_checking", checks.C09},
	"C10": {"model_checking", checks.C10},
	"C12": {"fault_enumeration", checks.C12},
	"C13": {"model_checking", checks.C13},
	"C14": {"fault_enumeration", checks.C14},
	"C15": {"fault_enumeration", checks.C15},
	"C16": {"model_checking", checks.C16},
	"C17": {"model_checking", checks.C17},
	"C18": {"model_checking", checks.C18},
	"C19": {"model_checking", checks.C19},
	"C20": {"fault_enumeration", checks.C20},
	"C11": {"model_checking", checks.C11},
}

func main() {
	if len(os.Args) < 3 {
		fmt.Fprintln(os.Stderr, "usage: vcheck <ID> quick|thorough [--replay file]")
		os.Exit(2)
	}
	id, tier := os.Args[1], os.Args[2]
	if (id == "C09-worker" || id == "C09-corpus") && os.Getenv("GOGC") == "" {
		debug.SetGCPercent(800)
	}
	if id == "C09-worker" {
		checks.C09Worker(os.Args[3:])
		return
	}
	if id == "C09-corpus" {
		checks.C09Corpus(os.Args[3:])
		return
	}
	if id == "C09-race" {
		checks.C09Race(os.Args[3:])
		return
	}
	if id == "C16-worker" {
		checks.C16Worker()
		return
	}
	if id == "C20-worker" {
		checks.C20Worker()
		return
	}
	// the checks allocate fast on a small live heap: with the default GC target the collector cycles constantly
	// and its stop-the-world hand-shakes dominate (measured: C01 quick 110 s -> 22 s). Worker modes above keep
	// the default (C20 measures allocation under an address-space limit).
	if os.Getenv("GOGC") == "" {
		debug.SetGCPercent(800)
	}
	ent, ok := table[id]
	if !ok {
		fmt.Fprintln(os.Stderr, "unknown check", id)
		os.Exit(2)
	}
	rep := ev.NewReporter(id, tier, ent.level)
	if len(os.Args) >= 5 && os.Args[3] == "--replay" {
		b, err := os.ReadFile(os.Args[4])
		if err != nil {
			fmt.Fprintln(os.Stderr, err)
			os.Exit(2)
		}
		var m map[string]interface{}
		if err := json.Unmarshal(b, &m); err != nil {
			fmt.Fprintln(os.Stderr, err)
			os.Exit(2)
		}
		c, _ := m["case"].(string)
		if c == "" {
			fmt.Fprintln(os.Stderr, "replay file has no case id")
			os.Exit(2)
		}
		rep.ReplayFilter = c
		if t, ok := m["tier"].(string); ok && t != "" {
			tier = t
			rep.Tier = t
		}
		fmt.Println("replaying case", c)
	}
	if pf := os.Getenv("VERIF_CPUPROFILE"); pf != "" {
		if f, err := os.Create(pf); err == nil {
			pprof.StartCPUProfile(f)
			defer pprof.StopCPUProfile()
		}
	}
	ent.fn(rep, tier)
	rc := rep.Finish()
	pprof.StopCPUProfile()
	os.Exit(rc)
}
