package main

import (
	"fmt"
	"os"
	"runtime/debug"

	"github.com/hyperjumptech/grule-rule-engine/ast"
	"github.com/hyperjumptech/grule-rule-engine/builder"
	"github.com/hyperjumptech/grule-rule-engine/pkg"
)

func main() {
	defer func() {
		if r := recover(); r != nil {
			fmt.Println("PANIC", r)
			debug.PrintStack()
		}
	}()
	lib := ast.NewKnowledgeLibrary()
	err := builder.NewRuleBuilder(lib).BuildRuleFromResource("A", "1", pkg.NewBytesResource([]byte(os.Args[1])))
	fmt.Println(err)
}
