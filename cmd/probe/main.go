package main

import (
	"fmt"
	"github.com/hyperjumptech/grule-rule-engine/ast"
	"github.com/hyperjumptech/grule-rule-engine/builder"
	"github.com/hyperjumptech/grule-rule-engine/engine"
	"github.com/hyperjumptech/grule-rule-engine/pkg"
)

type F struct{ I int64 }

func main() {
	lib := ast.NewKnowledgeLibrary()
	rb := builder.NewRuleBuilder(lib)
	err := rb.BuildRuleFromResource("A", "1", pkg.NewBytesResource([]byte(`rule r1 salience 1 { when F.I < 3 then F.I = F.I + 1; }`)))
	fmt.Println(err)
	kb, err := lib.NewKnowledgeBaseInstance("A", "1")
	fmt.Println(err)
	dc := ast.NewDataContext()
	f := &F{}
	dc.Add("F", f)
	e := engine.NewGruleEngine()
	fmt.Println(e.Execute(dc, kb), f.I)
}
