package main

import (
	"fmt"
	"os"
	"runtime/debug"

	"github.com/hyperjumptech/grule-rule-engine/ast"
	"github.com/hyperjumptech/grule-rule-engine/builder"
	"github.com/hyperjumptech/grule-rule-engine/pkg"
)

func main() {
	defer func() {
		if r := recover(); r != nil {
			fmt.Println("PANIC", r)
			debug.PrintStack()
		}
	}()
	lib := ast.NewKnowledgeLibrary()
	for _, t := range os.Args[1:] {
		err := builder.NewRuleBuilder(lib).BuildRuleFromResource("A", "1", pkg.NewBytesResource([]byte(t)))
		fmt.Println("build:", err)
	}
	for k, e := range lib.GetKnowledgeBase("A", "1").RuleEntries {
		fmt.Printf("entry %q name=%q when=%v then=%v\n", k, e.RuleName, e.WhenScope != nil, e.ThenScope != nil)
	}
	_, err := lib.NewKnowledgeBaseInstance("A", "1")
	fmt.Println("instance:", err)
}
