package main

import (
	"fmt"

	"github.com/hyperjumptech/grule-rule-engine/ast"
	"github.com/hyperjumptech/grule-rule-engine/builder"
	"github.com/hyperjumptech/grule-rule-engine/pkg"
)

func main() {
	lib := ast.NewKnowledgeLibrary()
	rb := builder.NewRuleBuilder(lib)
	err := rb.BuildRuleFromResource("A", "1", pkg.NewBytesResource([]byte(`rule ra { when K.B then K.S = F.Cat("a", "b"); }
rule rb { when K.B then G.S = F.Cat("a\"))),E(EA(C(string->\"b"); }`)))
	fmt.Println(err)
	kb := lib.GetKnowledgeBase("A", "1")
	for _, r := range kb.RuleEntries {
		fmt.Println(r.ThenScope.GetSnapshot())
	}
}
