#!/bin/bash
# Builds the framework from files on disk only (offline) and warms the Go build cache.
set -e
cd /verif
export GOFLAGS=-mod=mod GOPROXY=off TZ=UTC
cp /repo/go.sum /verif/go.sum
mkdir -p .build/setup evidence replays
go run ./cmd/instrument -repo /repo -out .build/setup
go build -overlay .build/setup/overlay.json -tags verif -o .build/setup/vcheck ./cmd/vcheck
# warm the caches of the C09 builds (yield points; race detector)
go run ./cmd/instrument -repo /repo -out .build/setup-points -points
go build -overlay .build/setup-points/overlay.json -tags verif,verifpoints -o .build/setup-points/vcheck ./cmd/vcheck
go build -race -overlay .build/setup/overlay.json -tags verif -o .build/setup/vcheck-race ./cmd/vcheck
echo "setup ok"
