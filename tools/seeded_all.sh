#!/bin/bash
# Re-runs every kept seeded change (seeded/*/patch.diff) against the checks recorded in its meta.json.
# usage: tools/seeded_all.sh            (honours VERIF_REPO / VERIF_DIR; prints one line per change and check)
cd "$(dirname "$0")/.."
export VERIF_DIR="$(pwd)"
for d in seeded/*/; do
  n=$(basename "$d")
  python3 tools/seeded_check.py "$n" 2>&1 | cut -c1-220
done
