#!/usr/bin/env python3
"""selftest: applies each deliberate property-breaking edit (mutants/*.json) to /repo's working
tree, runs the property's quick check, requires a VIOLATION, and restores the tree.
usage: tools/selftest.py [--tests] [--runs N] [id-or-property ...]
  --tests  also run the repository's own tests of the touched package(s) under the edit
"""
import json, glob, os, subprocess, sys, time

REPO = os.environ.get("VERIF_REPO", "/repo")
ROOT = os.path.dirname(os.path.dirname(os.path.abspath(__file__)))
ENV = dict(os.environ, GOFLAGS="-mod=mod", GOPROXY="off", TZ="UTC")

def sh(cmd, cwd=None, timeout=3600):
    p = subprocess.run(cmd, shell=True, cwd=cwd, env=ENV, stdout=subprocess.PIPE, stderr=subprocess.STDOUT, text=True, timeout=timeout)
    return p.returncode, p.stdout

def clean():
    rc, out = sh("git status --porcelain", REPO)
    return out.strip() == ""

def main():
    args = sys.argv[1:]
    tests = "--tests" in args
    runs = 1
    if "--runs" in args:
        runs = int(args[args.index("--runs") + 1])
        args.remove(args[args.index("--runs") + 1]); args.remove("--runs")
    args = [a for a in args if not a.startswith("--")]
    if not clean():
        print("refusing: /repo working tree is not clean"); sys.exit(2)
    muts = []
    for f in sorted(glob.glob(ROOT + "/mutants/*.json")):
        for m in json.load(open(f)):
            if not args or m["id"] in args or m["property"] in args:
                muts.append(m)
    results = []
    # the evidence files must describe the UNCHANGED tree: keep them aside while edited trees are checked
    import shutil, tempfile, atexit
    evbak = tempfile.mkdtemp(prefix="evbak")
    shutil.copytree(ROOT + "/evidence", evbak + "/evidence")
    def restore():
        shutil.rmtree(ROOT + "/evidence", ignore_errors=True)
        shutil.copytree(evbak + "/evidence", ROOT + "/evidence")
        shutil.rmtree(evbak, ignore_errors=True)
    atexit.register(restore)
    for m in muts:
        t0 = time.time()
        try:
            for e in m["edits"]:
                p = os.path.join(REPO, e["file"])
                s = open(p).read()
                if s.count(e["old"]) != 1:
                    raise RuntimeError("edit does not apply uniquely (%d matches) in %s" % (s.count(e["old"]), e["file"]))
                open(p, "w").write(s.replace(e["old"], e["new"]))
            rc, out = sh("go build ./...", REPO)
            if rc != 0:
                raise RuntimeError("DOES-NOT-COMPILE " + out[-400:])
            tst = ""
            if tests:
                pk = " ".join(sorted(set("./" + os.path.dirname(e["file"]) + "/..." for e in m["edits"]) | set(m.get("test_pkgs", []))))
                rc, out = sh("go test -vet=off -count=1 %s 2>&1 | tail -15" % pk, REPO)
                tst = "tests:" + ("PASS" if "FAIL" not in out else "FAIL")
            caught = 0
            last = ""
            for i in range(runs):
                rc, out = sh("./check %s quick" % m["property"], ROOT)
                last = out
                if rc == 1 and "VIOLATION property=%s" % m["property"] in out:
                    caught += 1
            sigs = sorted(set(l.strip() for l in last.splitlines() if l.strip().startswith("signature:")))[:3]
            results.append((m, "CAUGHT %d/%d %s" % (caught, runs, tst) if caught == runs else "MISSED (%d/%d) %s" % (caught, runs, tst), "; ".join(sigs) if caught else last[-600:]))
        except Exception as ex:
            results.append((m, "ERROR", str(ex)))
        finally:
            sh("git checkout -- .", REPO)
        print("%-28s %-4s %-28s %5.0fs  %s" % (m["id"], m["property"], results[-1][1], time.time() - t0, results[-1][2][:300].replace("\n", " | ")), flush=True)
    bad = [r for r in results if not r[1].startswith("CAUGHT")]
    print("selftest: %d mutants, %d caught, %d not" % (len(results), len(results) - len(bad), len(bad)))
    sys.exit(1 if bad else 0)

main()
