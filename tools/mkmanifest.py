#!/usr/bin/env python3
"""Generates /verif/MANIFEST.json from the table below (kept in one place so it is always valid)."""
import json, os

ALL = ["C%02d" % i for i in range(1, 21)]

CHECKS = {
 "C01": dict(level="model_checking", design="§5 C01",
   technique="explicit-state exploration of the real engine (all rule orders per cycle, state-pruned) in lockstep with a reference evaluator",
   text="Bounded-exhaustive: every program of the dependency matrix (writer rule x reader rule over every pair of syntactic paths to one location x assignment forms x read shapes) and of the general 2-rule alphabet, every initial world, every rule-iteration order at every cycle; at every ExecuteRuleEntry the reference evaluator, run from scratch on the live facts, must say the fired rule is active and its condition true.",
   note="Trusted: the reference evaluator (stdlib reflection, documented semantics), the overlay order hook, listener callbacks as observation points. Pointer aliasing between different syntactic paths excluded; bounds: <=3 rules, MaxCycle 4/6."),
 "C02": dict(level="model_checking", design="§5 C02",
   technique="explicit-state exploration of the real engine (all rule orders per cycle, state-pruned) in lockstep with a reference evaluator",
   text="Same exploration as C01; at every cycle start every model-active rule whose condition is true per the reference evaluator must be evaluated and reported as candidate, and a nil return without Complete implies no satisfied active rule on the final facts.",
   note="As C01."),
 "C03": dict(level="model_checking", design="§5 C03",
   technique="explicit-state exploration of the real engine over all salience assignments and all rule orders per cycle, lockstep conflict-set oracle",
   text="Every rule set of 2 and 3 rules over 5 rule kinds x every salience assignment from a boundary set (incl. int32 limits, omitted, hex/octal/negative spellings), every initial world, every rule order at every cycle: at most one firing per cycle, of a candidate with maximal model salience; the model's post-state equals the real facts before the next cycle begins.",
   note="Model salience comes from the generator, not from the engine's parse. Bounds: k<=3 (k=4 in thorough), MaxCycle 6/8."),
 "C06": dict(level="model_checking", design="§5 C06",
   technique="explicit-state exploration of the real engine over rule sets x MaxCycle x listener counts x rule orders, engine-model trace validation",
   text="Rule sets {never, fires n times, loops, Complete at firing n, action error at firing n, retract chain, failing condition} x MaxCycle 0..5/8 x 1..4 listeners (+ listener-free differential) x every rule order per cycle: the engine model followed along the trace decides per cycle whether the run must continue, fire, return nil, the limit error (exactly when one more firing would be needed) or an action error; per-listener protocol automaton; termination horizon counted in callbacks.",
   note="Candidate flags that disagree with the reference evaluator are C01/C02's and counted as foreign. MaxCycle bounded by 8."),
 "C10": dict(level="model_checking", design="§5 C10",
   technique="explicit-state exploration of the real engine over all Retract/Complete action-list placements and rule orders, lockstep retract-set/complete-flag model",
   text="Every rule set of 2 and 3 rules whose action lists place assignment / Retract(self|other|second other|unknown) / Complete() at every position (length <=2, thorough <=3), equal and dominant saliences, every rule order at every cycle: a retracted rule is never evaluated or fired again in the run, all other rules are evaluated every cycle with their fresh status, unknown names change nothing, remaining actions after Retract/Complete run, no cycle follows Complete, Execute returns nil.",
   note="Bounds: k<=3, action lists <=3, MaxCycle 8."),
}

def entry(pid, c):
    return {
        "property_id": pid,
        "quick_cmd": "./check %s quick" % pid,
        "thorough_cmd": "./check %s thorough" % pid,
        "evidence_file": "/verif/evidence/%s.json" % pid,
        "replay_cmd_template": "./check %s quick --replay {path}" % pid,
        "engine": "vcheck",
        "level_claimed": {"category": c["level"], "text": c["text"], "design_ref": c["design"]},
        "level_note": c["note"],
        "technique": c["technique"],
    }

m = {
 "version": 1,
 "setup_cmd": "./setup.sh",
 "hooks": {
   "guard": "verif",
   "enable": "no hook lives in the repository: ./check runs cmd/instrument, which rewrites the CURRENT working tree's engine/GruleEngine.go (range over RuleEntries -> verifhook.Order) and adds the virtual package verifhook (//go:build verif) through `go build -overlay <generated>.json -tags verif`; C09 additionally gets verifhook.Point yield points at method entries",
   "baseline_off_cmd": "cd /repo && GOFLAGS=-mod=mod GOPROXY=off go test -vet=off -count=1 -timeout 25m ./...",
   "source_commits": [],
   "add_only": True,
 },
 "engines": [
   {"name": "vcheck", "path": "/verif/cmd/vcheck", "serves_properties": sorted(CHECKS.keys()),
    "kind_free_text": "hand-written Go explorer: bounded-exhaustive program/world/order/fault enumeration on the real engine with explicit state-key pruning, lockstep reference model; cooperative scheduler for C09"},
 ],
 "checks": [entry(p, CHECKS[p]) for p in ALL if p in CHECKS],
 "not_applicable": [{"property_id": p, "reason": "check not built yet in this revision of /verif (the technique applies; see DESIGN.md §5)"} for p in ALL if p not in CHECKS],
 "notes": "All checks rebuild the harness against /repo's current working tree on every invocation (./check). Known findings: /verif/known_findings.json.",
}
json.dump(m, open(os.path.join(os.path.dirname(__file__), "..", "MANIFEST.json"), "w"), indent=1)
print("MANIFEST.json: %d checks, %d not_applicable" % (len(m["checks"]), len(m["not_applicable"])))
