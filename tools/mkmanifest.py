#!/usr/bin/env python3
"""Generates /verif/MANIFEST.json from the table below (kept in one place so it is always valid)."""
import json, os

ALL = ["C%02d" % i for i in range(1, 21)]

CHECKS = {
 "C01": dict(level="model_checking", design="§5 C01",
   technique="explicit-state exploration of the real engine (all rule orders per cycle, state-pruned) in lockstep with a reference evaluator",
   text="Bounded-exhaustive: every program of the dependency matrix (writer rule x reader rule over every pair of syntactic paths to one location x assignment forms x read shapes) and of the general 2-rule alphabet, every initial world, every rule-iteration order at every cycle; at every ExecuteRuleEntry the reference evaluator, run from scratch on the live facts, must say the fired rule is active and its condition true.",
   note="Trusted: the reference evaluator (stdlib reflection, documented semantics), the overlay order hook, listener callbacks as observation points. Pointer aliasing between different syntactic paths excluded; bounds: <=3 rules, MaxCycle 4/6."),
 "C02": dict(level="model_checking", design="§5 C02",
   technique="explicit-state exploration of the real engine (all rule orders per cycle, state-pruned) in lockstep with a reference evaluator",
   text="Same exploration as C01; at every cycle start every model-active rule whose condition is true per the reference evaluator must be evaluated and reported as candidate, and a nil return without Complete implies no satisfied active rule on the final facts.",
   note="As C01."),
 "C03": dict(level="model_checking", design="§5 C03",
   technique="explicit-state exploration of the real engine over all salience assignments and all rule orders per cycle, lockstep conflict-set oracle",
   text="Every rule set of 2 and 3 rules over 5 rule kinds x every salience assignment from a boundary set (incl. int32 limits, omitted, hex/octal/negative spellings), every initial world, every rule order at every cycle: at most one firing per cycle, of a candidate with maximal model salience; the model's post-state equals the real facts before the next cycle begins.",
   note="Model salience comes from the generator, not from the engine's parse. Bounds: k<=3 (k=4 in thorough), MaxCycle 6/8."),
 "C06": dict(level="model_checking", design="§5 C06",
   technique="explicit-state exploration of the real engine over rule sets x MaxCycle x listener counts x rule orders, engine-model trace validation",
   text="Rule sets {never, fires n times, loops, Complete at firing n, action error at firing n, retract chain, failing condition} x MaxCycle 0..5/8 x 1..4 listeners (+ listener-free differential) x every rule order per cycle: the engine model followed along the trace decides per cycle whether the run must continue, fire, return nil, the limit error (exactly when one more firing would be needed) or an action error; per-listener protocol automaton; termination horizon counted in callbacks.",
   note="Candidate flags that disagree with the reference evaluator are C01/C02's and counted as foreign. MaxCycle bounded by 8."),
 "C10": dict(level="model_checking", design="§5 C10",
   technique="explicit-state exploration of the real engine over all Retract/Complete action-list placements and rule orders, lockstep retract-set/complete-flag model",
   text="Every rule set of 2 and 3 rules whose action lists place assignment / Retract(self|other|second other|unknown) / Complete() at every position (length <=2, thorough <=3), equal and dominant saliences, every rule order at every cycle: a retracted rule is never evaluated or fired again in the run, all other rules are evaluated every cycle with their fresh status, unknown names change nothing, remaining actions after Retract/Complete run, no cycle follows Complete, Execute returns nil.",
   note="Bounds: k<=3, action lists <=3, MaxCycle 8."),
 "C04": dict(level="model_checking", design="§5 C04",
   technique="bounded-exhaustive enumeration of assignment programs on the real engine, post-state compared with a reference model (stdlib reflection on an independent deep copy)",
   text="Single-assignment matrix (5 operators x 33 destinations x 43 sources restricted to well-typed in-range pairs) and every ordered pair (thorough: triple) of 31 assignments, on Go-struct, slice, map, JSON and top-level backends: the caller's own objects / JSON fact / data-context entries after Execute equal the model's post-state, every other field included.",
   note="Float->int of non-integral values, float32 rounding, negative->unsigned, out-of-range values and pointer-typed sources are outside the quantifier and skipped by the generator; the Go width of top-level variables is not judged."),
 "C08": dict(level="model_checking", design="§5 C08",
   technique="exhaustive enumeration of call histories on one instance, differential against a fresh instance (traces, return values, final facts)",
   text="Every call history of length 2..3 (thorough 4) over the call alphabet of 3 rule sets (Execute ending normally, by Complete, by action error, at the cycle limit, by cancellation at poll p, after self/other Retract; FetchMatchingRules; each with its own facts) under 3 static rule orders: the n-th call on the reused instance must be observationally equal to the same call on a new instance.",
   note="Differential oracle, no expected values; static orders only (per-cycle order exploration is C01-C03's)."),
 "C11": dict(level="model_checking", design="§5 C11",
   technique="exhaustive enumeration of rule sets x removal sets x flag x ALL k! rule orders on the real FetchMatchingRules, reference conflict set",
   text="Every 2-rule set over 8 conditions (true/false/state/shared/nil pointer/missing fact/kind mismatch/index) x 6 salience pairs x removal sets (library and instance level) x flag, 3-rule sets over 5 (thorough 8) conditions, thorough 4-rule sets; 2 fact states; every iteration order: returned names == satisfied non-removed rules (each once), saliences non-increasing, facts untouched, no action probe ran, error iff flag and a failing condition.",
   note="k<=4; conditions from the stated alphabet."),
 "C13": dict(level="model_checking", design="§5 C13",
   technique="explicit-state exploration of the real engine (all rule orders per cycle) with a counted fact method; invalidation epochs derived from the validated trace",
   text="Programs with the counted pure call F.Heavy(F.I) in 1..3 rules in 8 surroundings together with 0..2 of 6 writer rules (invalidating and deliberately non-invalidating ones), every rule order at every cycle: between two invalidation events the call counter advances by at most 1.",
   note="Total rules <=3 (thorough 4). The counted-accessor variant of the design (countingValueNode) is not built; field reads are covered through the method's argument only."),
 "C14": dict(level="fault_enumeration", design="§5 C14",
   technique="fault-point enumeration: every probe invocation index of the fault-free run x 4 failure kinds x flag x rule orders on the real engine, plus data-driven failure sites",
   text="2-rule programs (14 condition shapes x 7 action lists x companions; thorough adds 3-rule programs): the fault-free run, then one run per probe invocation index x {panic(string), panic(error), nil dereference, index out of range}: no panic escapes, the failing rule is a non-candidate (or named in the returned error with the flag), healthy rules keep their fresh status, failed nodes are retried, an action failure returns an error naming the rule, keeps the completed prefix of actions and fires nothing further.",
   note="Single fault per run; rule attribution of a probe from the listener sequence."),
 "C15": dict(level="fault_enumeration", design="§5 C15",
   technique="cancellation-point enumeration: every context poll index and every observable event of the fault-free run as flip point, on the real engine under every static rule order",
   text="35 programs x flag x every static order: flip at EVERY poll index 1..P+1 (Canceled, DeadlineExceeded), at EVERY observable event (inside condition probes, inside action probes, in each listener callback) and before the call: no ExecuteRuleEntry / foreign action probe after the flip, zero firings on an already-cancelled context, context error returned unless Complete was called or no rule is satisfied on the final facts.",
   note="A flip after the engine's last look at the context is accepted when nothing is left to do."),
}

def entry(pid, c):
    return {
        "property_id": pid,
        "quick_cmd": "./check %s quick" % pid,
        "thorough_cmd": "./check %s thorough" % pid,
        "evidence_file": "/verif/evidence/%s.json" % pid,
        "replay_cmd_template": "./check %s quick --replay {path}" % pid,
        "engine": "vcheck",
        "level_claimed": {"category": c["level"], "text": c["text"], "design_ref": c["design"]},
        "level_note": c["note"],
        "technique": c["technique"],
    }

m = {
 "version": 1,
 "setup_cmd": "./setup.sh",
 "hooks": {
   "guard": "verif",
   "enable": "no hook lives in the repository: ./check runs cmd/instrument, which rewrites the CURRENT working tree's engine/GruleEngine.go (range over RuleEntries -> verifhook.Order) and adds the virtual package verifhook (//go:build verif) through `go build -overlay <generated>.json -tags verif`; C09 additionally gets verifhook.Point yield points at method entries",
   "baseline_off_cmd": "cd /repo && GOFLAGS=-mod=mod GOPROXY=off go test -vet=off -count=1 -timeout 25m ./...",
   "source_commits": [],
   "add_only": True,
 },
 "engines": [
   {"name": "vcheck", "path": "/verif/cmd/vcheck", "serves_properties": sorted(CHECKS.keys()),
    "kind_free_text": "hand-written Go explorer: bounded-exhaustive program/world/order/fault enumeration on the real engine with explicit state-key pruning, lockstep reference model; cooperative scheduler for C09"},
 ],
 "checks": [entry(p, CHECKS[p]) for p in ALL if p in CHECKS],
 "not_applicable": [{"property_id": p, "reason": "check not built yet in this revision of /verif (the technique applies; see DESIGN.md §5)"} for p in ALL if p not in CHECKS],
 "notes": "All checks rebuild the harness against /repo's current working tree on every invocation (./check). Known findings: /verif/known_findings.json.",
}
json.dump(m, open(os.path.join(os.path.dirname(__file__), "..", "MANIFEST.json"), "w"), indent=1)
print("MANIFEST.json: %d checks, %d not_applicable" % (len(m["checks"]), len(m["not_applicable"])))
