#!/usr/bin/env python3
"""Generates /verif/MANIFEST.json from the table below (kept in one place so it is always valid)."""
import json, os

ALL = ["C%02d" % i for i in range(1, 21)]

CHECKS = {
 "C01": dict(level="model_checking", design="§5 C01",
   technique="explicit-state exploration of the real engine (all rule orders per cycle, state-pruned) in lockstep with a reference evaluator",
   text="Bounded-exhaustive: every program of the dependency matrix (writer rule x reader rule over every pair of syntactic paths to one location x assignment forms x read shapes) and of the general 2-rule alphabet, every initial world, every rule-iteration order at every cycle; at every ExecuteRuleEntry the reference evaluator, run from scratch on the live facts, must say the fired rule is active and its condition true.",
   note="Trusted: the reference evaluator (stdlib reflection, documented semantics), the overlay order hook, listener callbacks as observation points. Pointer aliasing between different syntactic paths excluded; bounds: <=3 rules, MaxCycle 4/6."),
 "C02": dict(level="model_checking", design="§5 C02",
   technique="explicit-state exploration of the real engine (all rule orders per cycle, state-pruned) in lockstep with a reference evaluator",
   text="Same exploration as C01; at every cycle start every model-active rule whose condition is true per the reference evaluator must be evaluated and reported as candidate, and a nil return without Complete implies no satisfied active rule on the final facts.",
   note="As C01."),
 "C03": dict(level="model_checking", design="§5 C03",
   technique="explicit-state exploration of the real engine over all salience assignments and all rule orders per cycle, lockstep conflict-set oracle",
   text="Every rule set of 2 and 3 rules over 5 rule kinds x every salience assignment from a boundary set (incl. int32 limits, omitted, hex/octal/negative spellings), every initial world, every rule order at every cycle: at most one firing per cycle, of a candidate with maximal model salience; the model's post-state equals the real facts before the next cycle begins.",
   note="Model salience comes from the generator, not from the engine's parse. Bounds: k<=3 (k=4 in thorough), MaxCycle 6/8."),
}

def entry(pid, c):
    return {
        "property_id": pid,
        "quick_cmd": "./check %s quick" % pid,
        "thorough_cmd": "./check %s thorough" % pid,
        "evidence_file": "/verif/evidence/%s.json" % pid,
        "replay_cmd_template": "./check %s quick --replay {path}" % pid,
        "engine": "vcheck",
        "level_claimed": {"category": c["level"], "text": c["text"], "design_ref": c["design"]},
        "level_note": c["note"],
        "technique": c["technique"],
    }

m = {
 "version": 1,
 "setup_cmd": "./setup.sh",
 "hooks": {
   "guard": "verif",
   "enable": "no hook lives in the repository: ./check runs cmd/instrument, which rewrites the CURRENT working tree's engine/GruleEngine.go (range over RuleEntries -> verifhook.Order) and adds the virtual package verifhook (//go:build verif) through `go build -overlay <generated>.json -tags verif`; C09 additionally gets verifhook.Point yield points at method entries",
   "baseline_off_cmd": "cd /repo && GOFLAGS=-mod=mod GOPROXY=off go test -vet=off -count=1 -timeout 25m ./...",
   "source_commits": [],
   "add_only": True,
 },
 "engines": [
   {"name": "vcheck", "path": "/verif/cmd/vcheck", "serves_properties": sorted(CHECKS.keys()),
    "kind_free_text": "hand-written Go explorer: bounded-exhaustive program/world/order/fault enumeration on the real engine with explicit state-key pruning, lockstep reference model; cooperative scheduler for C09"},
 ],
 "checks": [entry(p, CHECKS[p]) for p in ALL if p in CHECKS],
 "not_applicable": [{"property_id": p, "reason": "check not built yet in this revision of /verif (the technique applies; see DESIGN.md §5)"} for p in ALL if p not in CHECKS],
 "notes": "All checks rebuild the harness against /repo's current working tree on every invocation (./check). Known findings: /verif/known_findings.json.",
}
json.dump(m, open(os.path.join(os.path.dirname(__file__), "..", "MANIFEST.json"), "w"), indent=1)
print("MANIFEST.json: %d checks, %d not_applicable" % (len(m["checks"]), len(m["not_applicable"])))
