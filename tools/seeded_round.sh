#!/bin/bash
# usage: tools/seeded_round.sh <agent-worktree> <name> <property> [<check>...]: intake, then run the listed checks
# (default: the property's own) against the kept change; everything is logged to /tmp/round_<name>.log
cd "$(dirname "$0")/.."
wt="$1"; name="$2"; prop="$3"; shift 3
{
  tools/seeded_intake.sh "$wt" "$name" "$prop" || exit 1
  if grep -q '"kept": true' "seeded/$name/meta.json"; then
    flock /tmp/seeded_check.lock python3 tools/seeded_check.py "$name" ${@:-$prop}
  fi
} > "/tmp/round_$name.log" 2>&1
