#!/usr/bin/env python3
"""Re-derives the commit hash of every 'fixed' entry of known_findings.json from the subject line of
its fix commit (hashes change when /repo history is tidied)."""
import json, subprocess
SUBJECT = {
 "toplevel": "assignment to a top-level data-context variable",
 "aliased-selector": "element and entry writes invalidate",
 "C08:fetch-differs": "FetchMatchingRules un-retracts",
 "C15:": "Execute re-checks the context",
 "C19:trichotomy:time": "time comparisons use the instant",
 "C07:": "constant snapshots keep every digit",
 "not(<nested>": "JSON 'not' negates a nested operand",
 "numeric-constant-breaks": "JSON numeric constants beyond",
 "malformed-rule-panics": "JSON resource returns an error for empty input",
 "translator-rejects-valid-rule": "JSON and/or accept constant operands",
 "malformed-rule-accepted": "JSON binary operators with a single operand",
 "description-differs": "rule descriptions resolve string escapes",
 "truncated-stream-loads": "a knowledge-base stream that ends early",
 "load-of-complete-stream-fails": "constant values are read completely",
 "rejected-build": "a rejected resource no longer leaves orphan nodes",
 "storeload+library-removal": "a rule removed from the library stays removed",
 "C20:process-abort:grb": "the binary loader allocates by the data present",
 "C20:over-allocation:grb": "the binary loader allocates by the data present",
 "Salience-value-out-of-range": "an out-of-range salience is a build error",
 "C17:rejected-text-damages": "an incomplete rule is not added",
}
log = subprocess.run("git -C /repo log --format='%h %s'", shell=True, capture_output=True, text=True).stdout.splitlines()
def find(subj):
    for l in log:
        if subj in l:
            return l.split()[0]
    raise SystemExit("no commit with subject containing: " + subj)
p = "/verif/known_findings.json"
k = json.load(open(p))
for e in k:
    if e["status"] != "fixed":
        continue
    for key, subj in SUBJECT.items():
        if key in e["signature"] and subj:
            e["commit"] = find(subj)
            break
    else:
        if "commit_subject" in e:
            e["commit"] = find(e["commit_subject"])
json.dump(k, open(p, "w"), indent=1)
print("refreshed", sum(1 for e in k if e["status"] == "fixed"), "fixed entries;", sum(1 for e in k if e["status"] == "known"), "known")
