#!/bin/bash
# usage: tools/seeded_intake.sh <agent-worktree> <name> <property> : verifies a sub-agent's change in a fresh worktree,
# files it under seeded/<name>/ and removes the agent's worktree when it was kept or rejected.
cd "$(dirname "$0")/.."
wt="$1"; name="$2"; prop="$3"
python3 tools/seeded_verify.py "$wt" "$name" "$prop" || exit 1
git -C /repo worktree remove --force "$wt"
