#!/usr/bin/env python3
"""Runs checks against a kept seeded change the official way: git -C /repo apply, ./check ..., git checkout.
usage: tools/seeded_check.py <name> <check-id>[:tier] [<check-id>[:tier] ...]   (default tier quick)
Appends the outcome to seeded/<name>/meta.json ("checks")."""
import json, os, subprocess, sys, time
def sh(cmd, cwd=None, timeout=3600):
    p = subprocess.run(cmd, shell=True, cwd=cwd, stdout=subprocess.PIPE, stderr=subprocess.STDOUT, text=True, timeout=timeout)
    return p.returncode, p.stdout
REPO = os.environ.get("VERIF_REPO", "/repo")
name = sys.argv[1]
d = os.environ.get("VERIF_DIR", "/verif") + "/seeded/" + name
meta = json.load(open(d + "/meta.json"))
rc, out = sh("git -C %s status --porcelain" % REPO)
if out.strip():
    print("refusing: /repo not clean"); sys.exit(2)
rc, out = sh("git -C %s apply %s/patch.diff" % (REPO, d))
if rc != 0:
    print("patch does not apply:", out); sys.exit(2)
import shutil, tempfile
VD = os.environ.get("VERIF_DIR", "/verif")
evbak = tempfile.mkdtemp(prefix="evbak")
shutil.copytree(VD + "/evidence", evbak + "/evidence")
try:
    specs = sys.argv[2:] or [k.replace(" ", ":") for k in meta.get("checks", {})]
    for spec in specs:
        cid, _, tier = spec.partition(":")
        tier = tier or "quick"
        t0 = time.time()
        rc, out = sh("./check %s %s" % (cid, tier), os.environ.get("VERIF_DIR", "/verif"))
        sigs = sorted(set(l.strip()[len("signature: "):] for l in out.splitlines() if l.strip().startswith("signature:")))
        verdict = "CAUGHT" if (rc == 1 and "VIOLATION property=%s" % cid in out) else ("MISSED" if rc == 0 else "ERROR rc=%d" % rc)
        meta.setdefault("checks", {})["%s %s" % (cid, tier)] = {"verdict": verdict, "signatures": sigs[:4], "n_signatures": len(sigs), "wall_s": round(time.time() - t0, 1)}
        print(name, cid, tier, verdict, sigs[:2])
finally:
    shutil.rmtree(VD + "/evidence", ignore_errors=True)
    shutil.copytree(evbak + "/evidence", VD + "/evidence")
    shutil.rmtree(evbak, ignore_errors=True)
    sh("git -C %s checkout -- ." % REPO)
    rc, out = sh("git -C %s status --porcelain" % REPO)
    assert not out.strip(), out
json.dump(meta, open(d + "/meta.json", "w"), indent=1)
