#!/usr/bin/env python3
"""Verifies a sub-agent's seeded change in a FRESH scratch worktree and files it under /verif/seeded/<name>/.
usage: tools/seeded_verify.py <agent-worktree> <name> <property-id>
Steps: patch = tracked diff of the agent's worktree (seeded_demo/ excluded); fresh worktree of /repo HEAD;
demo must PASS without the patch; patch must apply and build; demo must FAIL with it; the existing suite
(network tests skipped) must pass with it. Writes patch.diff, demo/, SEEDED.md, meta.json."""
import json, os, shutil, subprocess, sys, time

ENV = dict(os.environ, GOFLAGS="-mod=mod", GOPROXY="off")

def sh(cmd, cwd=None, timeout=1800):
    p = subprocess.run(cmd, shell=True, cwd=cwd, env=ENV, stdout=subprocess.PIPE, stderr=subprocess.STDOUT, text=True, timeout=timeout)
    return p.returncode, p.stdout

def main():
    wt, name, prop = sys.argv[1], sys.argv[2], sys.argv[3]
    out = "/verif/seeded/" + name
    os.makedirs(out + "/demo", exist_ok=True)
    rc, patch = sh("git diff -- . ':!seeded_demo'", wt)
    if not patch.strip():
        print("no source change in", wt); sys.exit(1)
    open(out + "/patch.diff", "w").write(patch)
    for f in os.listdir(wt + "/seeded_demo"):
        shutil.copy(os.path.join(wt, "seeded_demo", f), out + "/demo/" + f)
    if os.path.exists(wt + "/SEEDED.md"):
        shutil.copy(wt + "/SEEDED.md", out + "/SEEDED.md")
    sv = "/tmp/sv/" + name
    sh("git -C /repo worktree remove --force %s" % sv)
    os.makedirs("/tmp/sv", exist_ok=True)
    rc, o = sh("git -C /repo worktree add -q --detach %s HEAD" % sv)
    assert rc == 0, o
    meta = {"property": prop, "name": name, "repo_commit": sh("git -C /repo rev-parse --short HEAD")[1].strip(), "verified_at": time.strftime("%Y-%m-%dT%H:%M:%SZ", time.gmtime())}
    try:
        shutil.copytree(out + "/demo", sv + "/seeded_demo")
        rc, o = sh("go test -vet=off -count=1 ./seeded_demo/", sv)
        meta["demo_without_change"] = "PASS" if rc == 0 else "FAIL"
        rc, o = sh("git apply %s/patch.diff" % out, sv)
        meta["patch_applies"] = rc == 0
        rc, o = sh("go build ./...", sv)
        meta["builds"] = rc == 0
        rc, o = sh("go test -vet=off -count=1 ./seeded_demo/", sv)
        meta["demo_with_change"] = "PASS" if rc == 0 else "FAIL"
        meta["demo_failure_excerpt"] = "\n".join(l for l in o.splitlines() if "---" in l or "Error" in l or "demo_test.go" in l)[:1200]
        rc, o = sh("go test -vet=off -count=1 -skip 'TestGitResource|TestNewURLResource' $(go list ./... | grep -v seeded_demo) 2>&1 | grep -E '^(ok|FAIL|---|panic)'", sv, timeout=2400)
        meta["existing_suite_with_change"] = "PASS" if ("FAIL" not in o and "panic" not in o and o.count("ok") >= 9) else "FAIL"
        meta["existing_suite_output"] = o[-800:]
    finally:
        sh("git -C /repo worktree remove --force %s" % sv)
    meta["kept"] = bool(meta.get("demo_without_change") == "PASS" and meta.get("demo_with_change") == "FAIL" and meta.get("existing_suite_with_change") == "PASS" and meta.get("builds"))
    json.dump(meta, open(out + "/meta.json", "w"), indent=1)
    print(name, "kept" if meta["kept"] else "REJECTED", {k: meta[k] for k in ("demo_without_change", "demo_with_change", "existing_suite_with_change")})

main()
