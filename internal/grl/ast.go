// Package grl is the harness' own small typed model of the documented GRL core: an expression /
// rule AST, a printer to GRL text with selectable style, and a tiny parser used only to write
// alphabets readably (it groups by the PUBLISHED precedence table; alphabets that are about
// precedence build trees directly and never go through it).
package grl

import (
	"fmt"
	"strconv"
	"strings"
)

type Kind int

const (
	KInt Kind = iota
	KFloat
	KString
	KBool
	KNil
)

type Expr interface{ isExpr() }

// Lit is a literal. Text, when non-empty, is the exact spelling to print.
type Lit struct {
	K    Kind
	I    int64
	F    float64
	S    string
	B    bool
	Text string
}

// Step is one step of a variable path: .Field or [Sel].
type Step struct {
	Field string
	Sel   Expr
}

// Ref is a variable: Root(.Field|[Sel])*
type Ref struct {
	Root  string
	Steps []Step
}

type Bin struct {
	Op   string
	L, R Expr
}

// Not is `!X`; X is printed as an atom if it is one, else parenthesised.
type Not struct{ X Expr }

type Paren struct{ X Expr }

// Call is a function call. Recv == nil: built-in function `Name(args)`; else method call.
type Call struct {
	Recv Expr
	Name string
	Args []Expr
}

// Member is `.Field` applied to a non-variable atom (e.g. a call result).
type Member struct {
	Recv  Expr
	Field string
}

// Index is `[Sel]` applied to a non-variable atom.
type Index struct {
	Recv Expr
	Sel  Expr
}

func (*Lit) isExpr()    {}
func (*Ref) isExpr()    {}
func (*Bin) isExpr()    {}
func (*Not) isExpr()    {}
func (*Paren) isExpr()  {}
func (*Call) isExpr()   {}
func (*Member) isExpr() {}
func (*Index) isExpr()  {}

// Action is one then-expression.
type Action struct {
	Target *Ref   // nil for a call action
	Op     string // = += -= *= /=
	RHS    Expr
	Call   Expr // call action (Call node)
}

type Rule struct {
	Name    string
	Desc    string // raw text between the quotes; "" => omitted
	HasSal  bool
	Sal     int64
	SalText string // spelling override
	When    Expr
	Then    []Action
}

func I(v int64) *Lit    { return &Lit{K: KInt, I: v} }
func Fl(v float64) *Lit { return &Lit{K: KFloat, F: v} }
func S(v string) *Lit   { return &Lit{K: KString, S: v} }
func Bo(v bool) *Lit    { return &Lit{K: KBool, B: v} }

// Prec returns the published precedence of a binary operator (docs/en/GRL_en.md).
// It can be overridden (C05 reads the table from the working tree's docs).
var Prec = map[string]int{
	"*": 5, "/": 5, "%": 5, "&": 5,
	"+": 4, "-": 4, "|": 4,
	"==": 3, "!=": 3, "<": 3, "<=": 3, ">": 3, ">=": 3,
	"&&": 2,
	"||": 1,
}

// Style controls printing.
type Style struct {
	FullParen bool   // parenthesise every binary sub-expression
	Double    bool   // redundant double parentheses around every parenthesised group
	Sp        string // separator between tokens ("" => single space where needed)
	Upper     int    // keyword case: 0 lower, 1 UPPER, 2 MiXed
	Tight     bool   // no separator around binary operators and after commas
	PrecTab   map[string]int // precedence table used to decide parentheses (nil: Prec)
}

func isAtom(e Expr) bool {
	switch x := e.(type) {
	case *Lit:
		if x.K == KInt && (x.I < 0 || strings.HasPrefix(x.Text, "-")) {
			return true // -1 is a literal atom in the grammar
		}
		return true
	case *Ref, *Call, *Member, *Index:
		return true
	case *Not:
		return isAtom(x.X) // !atom is an atom
	}
	return false
}

// LitText renders a literal in canonical spelling.
func LitText(l *Lit) string {
	if l.Text != "" {
		return l.Text
	}
	switch l.K {
	case KInt:
		return strconv.FormatInt(l.I, 10)
	case KFloat:
		s := strconv.FormatFloat(l.F, 'f', -1, 64)
		if !strings.ContainsAny(s, ".") {
			s += ".0"
		}
		return s
	case KString:
		return strconv.Quote(l.S)
	case KBool:
		if l.B {
			return "true"
		}
		return "false"
	case KNil:
		return "nil"
	}
	return "?"
}

// Print renders e with minimal parentheses according to Prec (left-assoc) unless st says otherwise.
func Print(e Expr, st Style) string {
	var b strings.Builder
	printExpr(&b, e, 0, false, st)
	return b.String()
}

func sp(st Style) string {
	if st.Sp == "" {
		return " "
	}
	return st.Sp
}

// osp is the separator around operators.
func osp(st Style) string {
	if st.Tight {
		return ""
	}
	return sp(st)
}

func precOf(st Style, op string) int {
	if st.PrecTab != nil {
		return st.PrecTab[op]
	}
	return Prec[op]
}

func open(b *strings.Builder, st Style) {
	if st.Double {
		b.WriteString("((")
	} else {
		b.WriteString("(")
	}
}
func closeP(b *strings.Builder, st Style) {
	if st.Double {
		b.WriteString("))")
	} else {
		b.WriteString(")")
	}
}

// printExpr prints e in a context that requires precedence >= minPrec (strict: > when right operand).
func printExpr(b *strings.Builder, e Expr, minPrec int, right bool, st Style) {
	switch x := e.(type) {
	case *Lit:
		b.WriteString(LitText(x))
	case *Ref:
		b.WriteString(x.Root)
		for _, s := range x.Steps {
			if s.Sel != nil {
				b.WriteString("[")
				printExpr(b, s.Sel, 0, false, st)
				b.WriteString("]")
			} else {
				b.WriteString(".")
				b.WriteString(s.Field)
			}
		}
	case *Paren:
		open(b, st)
		printExpr(b, x.X, 0, false, st)
		closeP(b, st)
	case *Not:
		b.WriteString("!")
		if isAtom(x.X) {
			if l, ok := x.X.(*Lit); ok && (l.K == KInt || l.K == KFloat) {
				// "!-1" is not meaningful; keep as is
				_ = l
			}
			printExpr(b, x.X, 99, false, st)
		} else if p, ok := x.X.(*Paren); ok {
			printExpr(b, p, 0, false, st)
		} else {
			open(b, st)
			printExpr(b, x.X, 0, false, st)
			closeP(b, st)
		}
	case *Call:
		if x.Recv != nil {
			printAtomRecv(b, x.Recv, st)
			b.WriteString(".")
		}
		b.WriteString(x.Name)
		b.WriteString("(")
		for i, a := range x.Args {
			if i > 0 {
				b.WriteString(",")
				b.WriteString(osp(st))
			}
			printExpr(b, a, 0, false, st)
		}
		b.WriteString(")")
	case *Member:
		printAtomRecv(b, x.Recv, st)
		b.WriteString(".")
		b.WriteString(x.Field)
	case *Index:
		printAtomRecv(b, x.Recv, st)
		b.WriteString("[")
		printExpr(b, x.Sel, 0, false, st)
		b.WriteString("]")
	case *Bin:
		p := precOf(st, x.Op)
		need := p < minPrec || (right && p == minPrec)
		if st.FullParen && minPrec > 0 {
			need = true
		}
		if need {
			open(b, st)
		}
		printExpr(b, x.L, p, false, st)
		b.WriteString(osp(st))
		b.WriteString(x.Op)
		b.WriteString(osp(st))
		printExpr(b, x.R, p, true, st)
		if need {
			closeP(b, st)
		}
	default:
		panic(fmt.Sprintf("grl.Print: unknown node %T", e))
	}
}

func printAtomRecv(b *strings.Builder, e Expr, st Style) {
	// receivers must be atoms in the grammar (no parenthesised expression receivers)
	printExpr(b, e, 99, false, st)
}

func kw(s string, st Style) string {
	switch st.Upper {
	case 1:
		return strings.ToUpper(s)
	case 2:
		r := []rune(s)
		for i := range r {
			if i%2 == 0 {
				r[i] = []rune(strings.ToUpper(string(r[i])))[0]
			}
		}
		return string(r)
	}
	return s
}

// PrintAction renders one action (without the semicolon).
func PrintAction(a Action, st Style) string {
	if a.Target == nil {
		return Print(a.Call, st)
	}
	return Print(a.Target, st) + osp(st) + a.Op + osp(st) + Print(a.RHS, st)
}

// PrintRule renders a rule.
func PrintRule(r *Rule, st Style) string {
	var b strings.Builder
	s := sp(st)
	b.WriteString(kw("rule", st))
	b.WriteString(s)
	b.WriteString(r.Name)
	if r.Desc != "" {
		b.WriteString(s)
		b.WriteString("\"" + r.Desc + "\"")
	}
	if r.HasSal {
		b.WriteString(s)
		b.WriteString(kw("salience", st))
		b.WriteString(s)
		if r.SalText != "" {
			b.WriteString(r.SalText)
		} else {
			b.WriteString(strconv.FormatInt(r.Sal, 10))
		}
	}
	b.WriteString(s + "{" + s)
	b.WriteString(kw("when", st))
	b.WriteString(s)
	b.WriteString(Print(r.When, st))
	b.WriteString(s)
	b.WriteString(kw("then", st))
	b.WriteString(s)
	for _, a := range r.Then {
		b.WriteString(PrintAction(a, st))
		b.WriteString(";" + s)
	}
	b.WriteString("}")
	return b.String()
}

// PrintRules renders a rule set as one GRL document.
func PrintRules(rs []*Rule, st Style) string {
	var parts []string
	for _, r := range rs {
		parts = append(parts, PrintRule(r, st))
	}
	return strings.Join(parts, "\n")
}

// Walk visits every sub-expression of e (pre-order).
func Walk(e Expr, f func(Expr)) {
	if e == nil {
		return
	}
	f(e)
	switch x := e.(type) {
	case *Ref:
		for _, s := range x.Steps {
			if s.Sel != nil {
				Walk(s.Sel, f)
			}
		}
	case *Bin:
		Walk(x.L, f)
		Walk(x.R, f)
	case *Not:
		Walk(x.X, f)
	case *Paren:
		Walk(x.X, f)
	case *Call:
		if x.Recv != nil {
			Walk(x.Recv, f)
		}
		for _, a := range x.Args {
			Walk(a, f)
		}
	case *Member:
		Walk(x.Recv, f)
	case *Index:
		Walk(x.Recv, f)
		Walk(x.Sel, f)
	}
}
