package grl

import (
	"fmt"
	"strconv"
	"strings"
	"unicode"
)

// The harness parser. It exists only so that alphabets can be written as text. It groups binary
// operators by the published table (a private copy, so that C05's override of Prec cannot
// change what an alphabet means) and left-associatively.
var parsePrec = map[string]int{
	"*": 5, "/": 5, "%": 5, "&": 5,
	"+": 4, "-": 4, "|": 4,
	"==": 3, "!=": 3, "<": 3, "<=": 3, ">": 3, ">=": 3,
	"&&": 2,
	"||": 1,
}

type tok struct {
	k string // name num str op
	s string
}

func lex(src string) ([]tok, error) {
	var out []tok
	rs := []rune(src)
	for i := 0; i < len(rs); {
		c := rs[i]
		switch {
		case unicode.IsSpace(c):
			i++
		case unicode.IsLetter(c) || c == '_':
			j := i
			for j < len(rs) && (unicode.IsLetter(rs[j]) || unicode.IsDigit(rs[j]) || rs[j] == '_') {
				j++
			}
			out = append(out, tok{"name", string(rs[i:j])})
			i = j
		case unicode.IsDigit(c) || (c == '.' && i+1 < len(rs) && unicode.IsDigit(rs[i+1])):
			j := i
			for j < len(rs) && (unicode.IsDigit(rs[j]) || unicode.IsLetter(rs[j]) || rs[j] == '.' || rs[j] == '_' ||
				((rs[j] == '+' || rs[j] == '-') && j > i && (rs[j-1] == 'e' || rs[j-1] == 'E' || rs[j-1] == 'p' || rs[j-1] == 'P') && !strings.HasPrefix(strings.ToLower(string(rs[i:j])), "0x") == (rs[j-1] == 'e' || rs[j-1] == 'E'))) {
				j++
			}
			out = append(out, tok{"num", string(rs[i:j])})
			i = j
		case c == '"' || c == '\'':
			j := i + 1
			for j < len(rs) && rs[j] != c {
				if rs[j] == '\\' {
					j++
				}
				j++
			}
			if j >= len(rs) {
				return nil, fmt.Errorf("unterminated string in %q", src)
			}
			out = append(out, tok{"str", string(rs[i : j+1])})
			i = j + 1
		default:
			two := ""
			if i+1 < len(rs) {
				two = string(rs[i : i+2])
			}
			switch two {
			case "&&", "||", "==", "!=", "<=", ">=", "+=", "-=", "*=", "/=":
				out = append(out, tok{"op", two})
				i += 2
				continue
			}
			out = append(out, tok{"op", string(c)})
			i++
		}
	}
	return out, nil
}

type parser struct {
	t   []tok
	pos int
	src string
	tab map[string]int // nil: parsePrec
}

func (p *parser) peek() tok {
	if p.pos < len(p.t) {
		return p.t[p.pos]
	}
	return tok{"eof", ""}
}
func (p *parser) next() tok { t := p.peek(); p.pos++; return t }
func (p *parser) isOp(s string) bool {
	t := p.peek()
	return t.k == "op" && t.s == s
}
func (p *parser) expect(s string) {
	if !p.isOp(s) {
		panic(fmt.Sprintf("grl.Parse(%q): expected %q at token %d (%v)", p.src, s, p.pos, p.peek()))
	}
	p.pos++
}

func (p *parser) expr(min int) Expr {
	l := p.unary()
	for {
		t := p.peek()
		if t.k != "op" {
			return l
		}
		tab := p.tab
		if tab == nil {
			tab = parsePrec
		}
		pr, ok := tab[t.s]
		if !ok || pr < min {
			return l
		}
		p.pos++
		r := p.expr(pr + 1)
		l = &Bin{Op: t.s, L: l, R: r}
	}
}

func (p *parser) unary() Expr {
	if p.isOp("!") {
		p.pos++
		return &Not{X: p.unary()}
	}
	if p.isOp("-") && p.pos+1 < len(p.t) && p.t[p.pos+1].k == "num" {
		p.pos++
		l := p.number(p.next().s)
		if l.K == KInt {
			l.I = -l.I
		} else {
			l.F = -l.F
		}
		if l.Text != "" {
			l.Text = "-" + l.Text
		}
		return l
	}
	return p.postfix(p.primary())
}

func (p *parser) number(s string) *Lit {
	if i, err := strconv.ParseInt(s, 0, 64); err == nil {
		l := &Lit{K: KInt, I: i}
		if strconv.FormatInt(i, 10) != s {
			l.Text = s
		}
		return l
	}
	f, err := strconv.ParseFloat(s, 64)
	if err != nil {
		panic(fmt.Sprintf("grl.Parse(%q): bad number %q", p.src, s))
	}
	return &Lit{K: KFloat, F: f, Text: s}
}

func (p *parser) primary() Expr {
	t := p.next()
	switch t.k {
	case "num":
		return p.number(t.s)
	case "str":
		var s string
		if t.s[0] == '"' {
			u, err := strconv.Unquote(t.s)
			if err != nil {
				panic(fmt.Sprintf("grl.Parse(%q): bad string %s", p.src, t.s))
			}
			s = u
		} else {
			u, err := strconv.Unquote("\"" + strings.ReplaceAll(t.s[1:len(t.s)-1], "\"", "\\\"") + "\"")
			if err != nil {
				panic(fmt.Sprintf("grl.Parse(%q): bad string %s", p.src, t.s))
			}
			s = u
		}
		return &Lit{K: KString, S: s, Text: t.s}
	case "name":
		switch strings.ToLower(t.s) {
		case "true":
			return &Lit{K: KBool, B: true, Text: t.s}
		case "false":
			return &Lit{K: KBool, B: false, Text: t.s}
		case "nil":
			return &Lit{K: KNil, Text: t.s}
		}
		if p.isOp("(") {
			return &Call{Name: t.s, Args: p.args()}
		}
		return &Ref{Root: t.s}
	case "op":
		if t.s == "(" {
			e := p.expr(1)
			p.expect(")")
			return &Paren{X: e}
		}
	}
	panic(fmt.Sprintf("grl.Parse(%q): unexpected token %v at %d", p.src, t, p.pos-1))
}

func (p *parser) args() []Expr {
	p.expect("(")
	var as []Expr
	if p.isOp(")") {
		p.pos++
		return as
	}
	for {
		as = append(as, p.expr(1))
		if p.isOp(",") {
			p.pos++
			continue
		}
		p.expect(")")
		return as
	}
}

func (p *parser) postfix(e Expr) Expr {
	for {
		switch {
		case p.isOp("."):
			p.pos++
			n := p.next()
			if n.k != "name" {
				panic(fmt.Sprintf("grl.Parse(%q): name expected after '.'", p.src))
			}
			if p.isOp("(") {
				e = &Call{Recv: e, Name: n.s, Args: p.args()}
			} else if r, ok := e.(*Ref); ok {
				e = &Ref{Root: r.Root, Steps: append(append([]Step{}, r.Steps...), Step{Field: n.s})}
			} else {
				e = &Member{Recv: e, Field: n.s}
			}
		case p.isOp("["):
			p.pos++
			sel := p.expr(1)
			p.expect("]")
			if r, ok := e.(*Ref); ok {
				e = &Ref{Root: r.Root, Steps: append(append([]Step{}, r.Steps...), Step{Sel: sel})}
			} else {
				e = &Index{Recv: e, Sel: sel}
			}
		default:
			return e
		}
	}
}

// E parses an expression (panics on a harness typo).
func E(src string) Expr {
	ts, err := lex(src)
	if err != nil {
		panic(err)
	}
	p := &parser{t: ts, src: src}
	e := p.expr(1)
	if p.pos != len(ts) {
		panic(fmt.Sprintf("grl.E(%q): trailing tokens at %d", src, p.pos))
	}
	return e
}

// A parses one action: `<ref> (=|+=|-=|*=|/=) <expr>` or a call expression.
func A(src string) Action {
	ts, err := lex(src)
	if err != nil {
		panic(err)
	}
	p := &parser{t: ts, src: src}
	e := p.expr(1)
	t := p.peek()
	if t.k == "op" {
		switch t.s {
		case "=", "+=", "-=", "*=", "/=":
			r, ok := e.(*Ref)
			if !ok {
				panic(fmt.Sprintf("grl.A(%q): assignment target is not a variable", src))
			}
			p.pos++
			rhs := p.expr(1)
			if p.pos != len(ts) {
				panic(fmt.Sprintf("grl.A(%q): trailing tokens", src))
			}
			return Action{Target: r, Op: t.s, RHS: rhs}
		}
	}
	if p.pos != len(ts) {
		panic(fmt.Sprintf("grl.A(%q): trailing tokens at %d", src, p.pos))
	}
	return Action{Call: e}
}

// R builds a rule from text parts. sal == nil: salience omitted.
func R(name string, sal *int64, when string, then ...string) *Rule {
	r := &Rule{Name: name, When: E(when)}
	if sal != nil {
		r.HasSal = true
		r.Sal = *sal
	}
	for _, t := range then {
		r.Then = append(r.Then, A(t))
	}
	return r
}

// Sal is a helper returning a pointer to v.
func Sal(v int64) *int64 { return &v }

// EWith parses an expression with a caller-supplied precedence table (panics on errors).
func EWith(src string, tab map[string]int) Expr {
	ts, err := lex(src)
	if err != nil {
		panic(err)
	}
	p := &parser{t: ts, src: src, tab: tab}
	e := p.expr(1)
	if p.pos != len(ts) {
		panic(fmt.Sprintf("grl.EWith(%q): trailing tokens at %d", src, p.pos))
	}
	return e
}
