package grl

import "testing"

func TestRoundTrip(t *testing.T) {
	for _, s := range []string{
		`F.I == 1 && F.B`, `F.Arr[F.K] + 1 > 2`, `!(F.I == 1) || !F.B`, `F.Add(F.I, 1) == 2`,
		`F.M["a"] < 3`, `(1 + 2) * 3`, `1 + 2 * 3`, `1 - (2 - 3)`, `1 - 2 - 3`, `F.S.Len() > 0`, `-1 + F.I`,
		`F.P.Q.V == 0x10`, `Retract("r1")`, `F.F > 1.5e3`, `F.S == 'a"b'`,
	} {
		e := E(s)
		out := Print(e, Style{})
		e2 := E(out)
		if Print(e2, Style{}) != out {
			t.Fatalf("%s -> %s -> %s", s, out, Print(e2, Style{}))
		}
		t.Log(s, "=>", out, "| full:", Print(e, Style{FullParen: true}))
	}
	r := R("r1", Sal(-3), "F.I < 3", "F.I = F.I + 1", `Retract("r1")`, "F.Arr[0] += 2")
	t.Log(PrintRule(r, Style{}))
}
