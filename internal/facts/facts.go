// Package facts holds the Go fact types every run-time check feeds to the engine, a deep cloner
// and a canonical dump (used for equality and for state keys). All fields the engine may touch
// are exported; harness bookkeeping hides behind the unexported pointer h.
package facts

import (
	"fmt"
	"sort"
	"strings"
	"time"
)

type Sub struct {
	V int64
	S string
	Q *Sub
}

// Twice has a VALUE receiver, Avail a POINTER receiver (its name sorts before Twice in the method set of *Sub):
// the same struct type is reached by value (F.SV) and through pointers (F.P).
func (s Sub) Twice() int64  { return 2 * s.V }
func (s *Sub) Avail() int64 { return s.V - 1 }

// Hidden is harness-side state reachable from fact methods.
type Hidden struct {
	HeavyCalls int
	Log        []string // probe log: "chk:<id>", "act:<id>", "heavy:<x>", "bump"
	// Fault plan: the FaultAt-th probe invocation (Chk/Act, counted from 1) fails with FaultKind.
	FaultAt   int
	FaultKind int // 1 panic(string) 2 panic(error) 3 nil-deref 4 index 5 panic(int) 6 panic(struct value)
	Probes    int
	Faulted   []int // probe indexes at which a fault was injected
	OnProbe   func(kind string, id int64, n int)
	// OnHook is what F.Hook(id) does (the harness' stand-in for a fact method with effects outside the facts,
	// e.g. one that adds another fact to the running data context)
	OnHook func(id int64)
}

// Base is embedded in Fact: its field and method are promoted.
type Base struct {
	BI int64
}

// BasePlus is a promoted value-receiver method.
func (b Base) BasePlus(x int64) int64 { return b.BI + x }

type Fact struct {
	Base
	I, I2  int64
	I8     int8
	I16    int16
	I32    int32
	In     int
	U      uint64
	U8     uint8
	U16    uint16
	U32    uint32
	Un     uint
	F      float64
	F32    float32
	S      string
	B      bool
	T      time.Time
	PI     *int64
	P      *Sub
	Arr    []int64
	SArr   []string
	PArr   []*Sub
	M      map[string]int64
	MS     map[string]string
	MP     map[string]*Sub
	K      int64
	KS     string
	SelArr []int64
	Grid   [][]int64                   // two selector levels
	Book   map[string]map[string]int64 // two selector levels
	SV     Sub                         // a struct held by value (F.P holds the same type behind a pointer)
	MSV    map[string]Sub              // structs held BY VALUE in a map: their fields can be read but not assigned
	MK     map[int64]int64             // integer keys
	A3     [3]int64                    // a Go array (not a slice)
	// values behind a pointer / inside an interface (what decoded settings look like)
	PB *bool
	PS *string
	MI map[string]interface{} // scalar values only
	AI []interface{}          // scalar values only

	h *Hidden
}

func New() *Fact { return &Fact{h: &Hidden{}} }

func (f *Fact) H() *Hidden {
	if f.h == nil {
		f.h = &Hidden{}
	}
	return f.h
}

// ---- pure methods (re-implemented natively by the reference evaluator) ----

func (f *Fact) Add(a, b int64) int64 { return a + b }
func (f *Fact) IsPos(a int64) bool   { return a > 0 }

// GetI is a getter without arguments: its result changes when I changes, and only a Forget/Changed naming
// the CALL (or an assignment to the receiver) invalidates it.
func (f *Fact) GetI() int64 { return f.I }
func (f *Fact) Cat(ss ...string) string {
	return strings.Join(ss, "")
}
func (f *Fact) Pick(i int64, xs ...int64) int64 {
	if i < 0 || int(i) >= len(xs) {
		return -1
	}
	return xs[i]
}
func (f *Fact) GetSub() *Sub { return f.P }

// TagIs reads hidden receiver state (S): only a Forget/Changed naming the CALL invalidates its remembered result.
func (f *Fact) TagIs(s string) bool { return f.S == s }

// Hook calls the harness (no effect on any fact).
func (f *Fact) Hook(id int64) {
	if h := f.H(); h.OnHook != nil {
		h.OnHook(id)
	}
}

// Boom always panics (a user method that fails whenever it is called).
func (f *Fact) Boom() bool { panic("boom") }

// Two has two results (the engine cannot use it in an expression).
func (f *Fact) Two() (int64, int64) { return 1, 2 }

// HeavyOf is the pure function computed by Heavy.
func HeavyOf(x int64) int64 { return x*3 + 1 }

// Heavy is pure but counted.
func (f *Fact) Heavy(x int64) int64 {
	h := f.H()
	h.HeavyCalls++
	h.Log = append(h.Log, fmt.Sprintf("heavy:%d", x))
	if h.OnProbe != nil {
		h.OnProbe("heavy", x, 0)
	}
	return HeavyOf(x)
}

// Sheavy is a counted pure method DECLARED to return an interface value (it holds a *Sub): its members are read
// as F.Sheavy(x).V / F.Sheavy(x).S.
func (f *Fact) Sheavy(x int64) interface{} {
	h := f.H()
	h.HeavyCalls++
	h.Log = append(h.Log, fmt.Sprintf("heavy:%d", x))
	if h.OnProbe != nil {
		h.OnProbe("heavy", x, 0)
	}
	return &Sub{V: HeavyOf(x), S: "s"}
}

// Iheavy is a second counted pure method whose call text "F.Iheavy(...)" contains the text of the
// variable F.I without depending on it.
func (f *Fact) Iheavy(x int64) int64 {
	h := f.H()
	h.HeavyCalls++
	h.Log = append(h.Log, fmt.Sprintf("heavy:%d", x))
	if h.OnProbe != nil {
		h.OnProbe("heavy", x, 0)
	}
	return HeavyOf(x)
}

// ---- externally mutating methods (the engine cannot see these writes) ----

func (f *Fact) Bump()        { f.I++; f.H().Log = append(f.H().Log, "bump") }
func (f *Fact) SetI(v int64) { f.I = v }

// ---- probes ----

func (f *Fact) probe(kind string, id int64) {
	h := f.H()
	h.Probes++
	h.Log = append(h.Log, fmt.Sprintf("%s:%d", kind, id))
	if h.OnProbe != nil {
		h.OnProbe(kind, id, h.Probes)
	}
	if h.FaultAt != 0 && h.Probes == h.FaultAt {
		h.Faulted = append(h.Faulted, h.Probes)
		switch h.FaultKind {
		case 1:
			panic("injected panic (string)")
		case 2:
			panic(fmt.Errorf("injected panic (error)"))
		case 3:
			var p *Sub
			_ = p.V // runtime nil dereference
		case 4:
			var a []int
			i := 3
			_ = a[i] // runtime index out of range
		case 5:
			panic(404) // a payload that is neither an error nor a string
		case 6:
			panic(Sub{V: 7, S: "a struct value as panic payload"})
		}
	}
}

// Chk is a condition probe; it returns true unless a fault is planned for this invocation.
func (f *Fact) Chk(id int64) bool { f.probe("chk", id); return true }

// Act is an action probe.
func (f *Fact) Act(id int64) { f.probe("act", id) }

// ---- cloning and canonical dump ----

// cloneSubM copies s once per memo: records reachable along several paths stay ONE record in the copy.
func cloneSubM(s *Sub, memo map[*Sub]*Sub) *Sub {
	if s == nil {
		return nil
	}
	if c, ok := memo[s]; ok {
		return c
	}
	c := &Sub{V: s.V, S: s.S}
	memo[s] = c
	c.Q = cloneSubM(s.Q, memo)
	return c
}

// Clone deep-copies the engine-visible part of f (fresh Hidden); aliasing among its records is preserved.
func (f *Fact) Clone() *Fact { return f.CloneShared(map[*Sub]*Sub{}) }

// CloneShared is Clone with a memo shared by several facts (a record held by two facts stays shared).
func (f *Fact) CloneShared(memo map[*Sub]*Sub) *Fact {
	if f == nil {
		return nil
	}
	c := *f
	c.h = &Hidden{}
	if f.PI != nil {
		v := *f.PI
		c.PI = &v
	}
	c.P = cloneSubM(f.P, memo)
	if f.MSV != nil {
		c.MSV = map[string]Sub{}
		for k, v := range f.MSV {
			c.MSV[k] = v
		}
	}
	if f.MK != nil {
		c.MK = map[int64]int64{}
		for k, v := range f.MK {
			c.MK[k] = v
		}
	}
	if f.PB != nil {
		v := *f.PB
		c.PB = &v
	}
	if f.PS != nil {
		v := *f.PS
		c.PS = &v
	}
	if f.MI != nil {
		c.MI = map[string]interface{}{}
		for k, v := range f.MI {
			c.MI[k] = v
		}
	}
	if f.AI != nil {
		c.AI = append([]interface{}{}, f.AI...)
	}
	if f.Arr != nil {
		c.Arr = append([]int64{}, f.Arr...)
	}
	if f.SelArr != nil {
		c.SelArr = append([]int64{}, f.SelArr...)
	}
	if f.Grid != nil {
		c.Grid = make([][]int64, len(f.Grid))
		for i, r := range f.Grid {
			c.Grid[i] = append([]int64{}, r...)
		}
	}
	if f.Book != nil {
		c.Book = map[string]map[string]int64{}
		for k, m := range f.Book {
			c.Book[k] = map[string]int64{}
			for k2, v := range m {
				c.Book[k][k2] = v
			}
		}
	}
	if f.SArr != nil {
		c.SArr = append([]string{}, f.SArr...)
	}
	if f.PArr != nil {
		c.PArr = make([]*Sub, len(f.PArr))
		for i, p := range f.PArr {
			c.PArr[i] = cloneSubM(p, memo)
		}
	}
	if f.M != nil {
		c.M = map[string]int64{}
		for k, v := range f.M {
			c.M[k] = v
		}
	}
	if f.MS != nil {
		c.MS = map[string]string{}
		for k, v := range f.MS {
			c.MS[k] = v
		}
	}
	if f.MP != nil {
		c.MP = map[string]*Sub{}
		for k, v := range f.MP {
			c.MP[k] = cloneSubM(v, memo)
		}
	}
	return &c
}

func dumpSub(b *strings.Builder, s *Sub, depth int) {
	if s == nil {
		b.WriteString("nil")
		return
	}
	if depth > 8 {
		b.WriteString("...")
		return
	}
	fmt.Fprintf(b, "{V:%d S:%q Q:", s.V, s.S)
	dumpSub(b, s.Q, depth+1)
	b.WriteString("}")
}

// Dump renders the engine-visible part of f canonically.
func (f *Fact) Dump() string {
	if f == nil {
		return "nil"
	}
	var b strings.Builder
	fmt.Fprintf(&b, "I:%d I2:%d I8:%d I16:%d I32:%d In:%d U:%d U8:%d U16:%d U32:%d Un:%d F:%v F32:%v S:%q B:%v T:%s K:%d KS:%q",
		f.I, f.I2, f.I8, f.I16, f.I32, f.In, f.U, f.U8, f.U16, f.U32, f.Un, f.F, f.F32, f.S, f.B, f.T.UTC().Format(time.RFC3339Nano), f.K, f.KS)
	if f.PI != nil {
		fmt.Fprintf(&b, " PI:%d", *f.PI)
	} else {
		b.WriteString(" PI:nil")
	}
	b.WriteString(" P:")
	dumpSub(&b, f.P, 0)
	if f.Arr == nil {
		b.WriteString(" Arr:nil")
	} else {
		fmt.Fprintf(&b, " Arr:%v", f.Arr)
	}
	if f.SelArr != nil {
		fmt.Fprintf(&b, " SelArr:%v", f.SelArr)
	}
	if f.BI != 0 {
		fmt.Fprintf(&b, " BI:%d", f.BI)
	}
	if f.MSV != nil {
		ks := make([]string, 0, len(f.MSV))
		for k := range f.MSV {
			ks = append(ks, k)
		}
		sort.Strings(ks)
		b.WriteString(" MSV:{")
		for _, k := range ks {
			fmt.Fprintf(&b, "%q:{V:%d S:%q},", k, f.MSV[k].V, f.MSV[k].S)
		}
		b.WriteString("}")
	}
	if f.SV != (Sub{}) {
		fmt.Fprintf(&b, " SV:{V:%d S:%q}", f.SV.V, f.SV.S)
	}
	if f.MK != nil {
		fmt.Fprintf(&b, " MK:%v", f.MK) // fmt prints maps with sorted keys
	}
	if f.A3 != [3]int64{} {
		fmt.Fprintf(&b, " A3:%v", f.A3)
	}
	if f.PB != nil {
		fmt.Fprintf(&b, " PB:%v", *f.PB)
	}
	if f.PS != nil {
		fmt.Fprintf(&b, " PS:%q", *f.PS)
	}
	if f.MI != nil {
		fmt.Fprintf(&b, " MI:%#v", f.MI) // fmt prints maps with sorted keys
	}
	if f.AI != nil {
		fmt.Fprintf(&b, " AI:%#v", f.AI)
	}
	if f.Grid != nil {
		fmt.Fprintf(&b, " Grid:%v", f.Grid)
	}
	if f.Book != nil {
		fmt.Fprintf(&b, " Book:%v", f.Book) // fmt prints maps with sorted keys
	}
	if f.SArr == nil {
		b.WriteString(" SArr:nil")
	} else {
		fmt.Fprintf(&b, " SArr:%q", f.SArr)
	}
	b.WriteString(" PArr:[")
	for i, p := range f.PArr {
		if i > 0 {
			b.WriteString(",")
		}
		dumpSub(&b, p, 0)
	}
	b.WriteString("]")
	if f.M == nil {
		b.WriteString(" M:nil")
	} else {
		ks := make([]string, 0, len(f.M))
		for k := range f.M {
			ks = append(ks, k)
		}
		sort.Strings(ks)
		b.WriteString(" M:{")
		for _, k := range ks {
			fmt.Fprintf(&b, "%q:%d,", k, f.M[k])
		}
		b.WriteString("}")
	}
	if f.MS == nil {
		b.WriteString(" MS:nil")
	} else {
		ks := make([]string, 0, len(f.MS))
		for k := range f.MS {
			ks = append(ks, k)
		}
		sort.Strings(ks)
		b.WriteString(" MS:{")
		for _, k := range ks {
			fmt.Fprintf(&b, "%q:%q,", k, f.MS[k])
		}
		b.WriteString("}")
	}
	if f.MP == nil {
		b.WriteString(" MP:nil")
	} else {
		ks := make([]string, 0, len(f.MP))
		for k := range f.MP {
			ks = append(ks, k)
		}
		sort.Strings(ks)
		b.WriteString(" MP:{")
		for _, k := range ks {
			fmt.Fprintf(&b, "%q:", k)
			dumpSub(&b, f.MP[k], 0)
			b.WriteString(",")
		}
		b.WriteString("}")
	}
	return b.String()
}
