package recog

import (
	"math"
	"strconv"
	"unicode/utf8"
)

// RuleInfo is what an accepted document declares for one rule.
type RuleInfo struct {
	Name     string
	Desc     string // declared description ("No Description" when omitted)
	Salience int
}

// Verdict of the independent recogniser.
type Verdict struct {
	Accept bool
	Syntax bool   // false: lexical or grammatical rejection
	Reason string // lexical | syntax | literal | duplicate
	Rules  []RuleInfo
}

func unquote(lit string) (string, bool) {
	if len(lit) < 2 {
		return "", false
	}
	q := lit[0]
	body := lit[1 : len(lit)-1]
	var out []byte
	for len(body) > 0 {
		r, mb, rest, err := strconv.UnquoteChar(body, q)
		if err != nil {
			return "", false
		}
		body = rest
		if r < utf8.RuneSelf || !mb {
			out = append(out, byte(r))
		} else {
			out = utf8.AppendRune(out, r)
		}
	}
	return string(out), true
}

// Recognise decides a GRL document.
func Recognise(input string) Verdict {
	toks, ok := Lex(input, false)
	if !ok {
		return Verdict{Reason: "lexical"}
	}
	kinds := make([]string, len(toks))
	for i, t := range toks {
		kinds[i] = t.Kind
	}
	if !Parses(kinds) {
		return Verdict{Reason: "syntax"}
	}
	v := Verdict{Accept: true, Syntax: true}
	names := map[string]bool{}
	// literal validity and rule metadata: a linear scan suffices because the document is grammatical
	for i := 0; i < len(toks); i++ {
		t := toks[i]
		neg := i > 0 && toks[i-1].Kind == "MINUS" && (i < 2 || !endsOperand(toks[i-2].Kind))
		text := t.Text
		if neg {
			text = "-" + text
		}
		switch t.Kind {
		case "DEC_LIT", "HEX_LIT", "OCT_LIT":
			// a preceding MINUS belongs to the literal only where the grammar reads it so; being
			// conservative either way cannot change validity except at the int64 boundary
			iv, err := strconv.ParseInt(t.Text, 0, 64)
			if err != nil {
				// may still be valid as the magnitude of a negative literal (MinInt64)
				if _, err2 := strconv.ParseInt("-"+t.Text, 0, 64); err2 != nil || !neg {
					return Verdict{Syntax: true, Reason: "literal"}
				}
			}
			_ = iv
			if i > 0 && (toks[i-1].Kind == "SALIENCE" || (neg && i > 1 && toks[i-2].Kind == "SALIENCE")) {
				sv, err := strconv.ParseInt(text, 0, 64)
				if err != nil || sv < math.MinInt32 || sv > math.MaxInt32 {
					return Verdict{Syntax: true, Reason: "literal"}
				}
			}
		case "DECIMAL_FLOAT_LIT", "HEX_FLOAT_LIT":
			if _, err := strconv.ParseFloat(t.Text, 64); err != nil {
				return Verdict{Syntax: true, Reason: "literal"}
			}
		case "DQUOTA_STRING", "SQUOTA_STRING":
			isDesc := i >= 2 && toks[i-2].Kind == "RULE"
			if !isDesc {
				if _, ok := unquote(t.Text); !ok {
					return Verdict{Syntax: true, Reason: "literal"}
				}
			}
		case "RULE":
			ri := RuleInfo{Name: toks[i+1].Text, Desc: "No Description"}
			j := i + 2
			if toks[j].Kind == "DQUOTA_STRING" || toks[j].Kind == "SQUOTA_STRING" {
				ri.Desc = toks[j].Text[1 : len(toks[j].Text)-1]
				if u, ok := unquote(toks[j].Text); ok {
					ri.Desc = u
				}
				j++
			}
			if toks[j].Kind == "SALIENCE" {
				st := toks[j+1].Text
				if toks[j+1].Kind == "MINUS" {
					st = "-" + toks[j+2].Text
				}
				if sv, err := strconv.ParseInt(st, 0, 64); err == nil {
					ri.Salience = int(sv)
				}
			}
			if names[ri.Name] {
				return Verdict{Syntax: true, Reason: "duplicate"}
			}
			names[ri.Name] = true
			v.Rules = append(v.Rules, ri)
		}
	}
	return v
}

// endsOperand: token kinds after which a MINUS is a binary operator.
func endsOperand(k string) bool {
	switch k {
	case "SIMPLENAME", "RR_BRACKET", "RS_BRACKET", "DEC_LIT", "HEX_LIT", "OCT_LIT", "DECIMAL_FLOAT_LIT", "HEX_FLOAT_LIT", "DQUOTA_STRING", "SQUOTA_STRING", "TRUE", "FALSE", "NIL_LITERAL":
		return true
	}
	return false
}
