// Package recog is an independent recogniser for GRL documents: a maximal-munch lexer transcribed
// from the token rules of antlr/grulev3.g4 and an Earley recogniser over its parser rules,
// transcribed literally (left recursion included). It shares nothing with the ANTLR runtime or
// the generated parser.
package recog

import (
	"regexp"
	"strings"
)

// Token kinds are the grammar's token names.
type Token struct {
	Kind string
	Text string
	Pos  int // byte offset in the (rune-normalised) input
	End  int
}

type lexRule struct {
	name string
	re   *regexp.Regexp
	skip bool
}

const isc = `A-Za-z\x{C0}-\x{D6}\x{D8}-\x{F6}\x{F8}-\x{2FF}\x{370}-\x{37D}\x{37F}-\x{1FFF}\x{200C}-\x{200D}\x{2070}-\x{218F}\x{2C00}-\x{2FEF}\x{3001}-\x{D7FF}\x{F900}-\x{FDCF}\x{FDF0}-\x{FFFD}`
const ic = isc + `0-9_\x{B7}\x{300}-\x{36F}\x{203F}-\x{2040}`

const decLit = `(?:0|[1-9][0-9]*)`
const decExp = `(?:[eE][+-]?[0-9]+)`
const hexExp = `(?:[pP][+-]?[0-9]+)`
const hexMant = `(?:[0-9a-fA-F]+\.[0-9a-fA-F]*|[0-9a-fA-F]+|\.[0-9a-fA-F]+)`

// in grammar order: on equal length the first rule wins
var lexRules = func() []lexRule {
	mk := func(name, pat string, skip bool) lexRule {
		re := regexp.MustCompile(`^(?s:` + pat + `)`)
		re.Longest()
		return lexRule{name, re, skip}
	}
	lit := func(name, s string) lexRule { return mk(name, regexp.QuoteMeta(s), false) }
	kw := func(name, s string) lexRule { return mk(name, `(?i:`+s+`)`, false) }
	return []lexRule{
		lit("COMMA", ","), // implicit token of the literal ',' in argumentList (defined first)
		lit("PLUS", "+"), lit("MINUS", "-"), lit("DIV", "/"), lit("MUL", "*"), lit("MOD", "%"), lit("DOT", "."), lit("SEMICOLON", ";"),
		lit("LR_BRACE", "{"), lit("RR_BRACE", "}"), lit("LR_BRACKET", "("), lit("RR_BRACKET", ")"), lit("LS_BRACKET", "["), lit("RS_BRACKET", "]"),
		kw("RULE", "rule"), kw("WHEN", "when"), kw("THEN", "then"), lit("AND", "&&"), lit("OR", "||"), kw("TRUE", "true"), kw("FALSE", "false"), kw("NIL_LITERAL", "nil"),
		lit("NEGATION", "!"), kw("SALIENCE", "salience"),
		lit("EQUALS", "=="), lit("ASSIGN", "="), lit("PLUS_ASIGN", "+="), lit("MINUS_ASIGN", "-="), lit("DIV_ASIGN", "/="), lit("MUL_ASIGN", "*="),
		lit("GT", ">"), lit("LT", "<"), lit("GTE", ">="), lit("LTE", "<="), lit("NOTEQUALS", "!="), lit("BITAND", "&"), lit("BITOR", "|"),
		mk("SIMPLENAME", `[`+isc+`][`+ic+`]*`, false),
		mk("DQUOTA_STRING", `"(?:\\.|""|[^"\\])*"`, false),
		mk("SQUOTA_STRING", `'(?:\\.|''|[^'\\])*'`, false),
		mk("DECIMAL_FLOAT_LIT", decLit+`\.[0-9]+`+decExp+`?|`+decLit+decExp+`|\.[0-9]+`+decExp+`?`, false),
		mk("DECIMAL_EXPONENT", `[eE][+-]?[0-9]+`, false),
		mk("HEX_FLOAT_LIT", `0[xX]`+hexMant+hexExp, false),
		mk("HEX_EXPONENT", `[pP][+-]?[0-9]+`, false),
		mk("DEC_LIT", decLit, false),
		mk("HEX_LIT", `0[xX][0-9a-fA-F]+`, false),
		mk("OCT_LIT", `0[0-7]+`, false),
		mk("SPACE", `[ \t\r\n]+`, true),
		{name: "COMMENT", skip: true}, // handled by hand: '/*' .*? '*/' is non-greedy
		mk("LINE_COMMENT", `//[^\r\n]*`, true),
	}
}()

// Normalise converts the input the way the parser's input stream does: a sequence of runes
// (invalid UTF-8 bytes become U+FFFD).
func Normalise(s string) string { return string([]rune(s)) }

// Lex splits the input; ok=false when some character starts no token (token recognition error).
// Skipped tokens are dropped unless keepSkipped.
func Lex(input string, keepSkipped bool) (toks []Token, ok bool) {
	s := Normalise(input)
	ok = true
	for pos := 0; pos < len(s); {
		rest := s[pos:]
		bestLen, best := 0, -1
		for i, r := range lexRules {
			n := 0
			if r.re == nil { // COMMENT
				if strings.HasPrefix(rest, "/*") {
					if j := strings.Index(rest[2:], "*/"); j >= 0 {
						n = j + 4
					}
				}
			} else if loc := r.re.FindStringIndex(rest); loc != nil {
				n = loc[1]
			}
			if n > bestLen {
				bestLen, best = n, i
			}
		}
		if best < 0 {
			// no rule matches: the lexer reports an error and skips one character
			ok = false
			_, size := decodeRune(rest)
			pos += size
			continue
		}
		r := lexRules[best]
		if !r.skip || keepSkipped {
			toks = append(toks, Token{Kind: r.name, Text: rest[:bestLen], Pos: pos, End: pos + bestLen})
		}
		pos += bestLen
	}
	return toks, ok
}

func decodeRune(s string) (rune, int) {
	for i, r := range s {
		_ = i
		return r, len(string(r))
	}
	return 0, 1
}
