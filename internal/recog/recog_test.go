package recog

import "testing"

func TestBasics(t *testing.T) {
	good := []string{
		`rule r { when F.B then F.I = 1; }`,
		`RULE r "d" SALIENCE -5 { WHEN !(F.I > 1) && F.S.Len() == 0x10 || F.Arr[F.K] >= .5e3 THEN F.I += 1; Retract("r"); }`,
		`rule rules 'x' salience 017 { when true then F.Act(1, "a", nil); } // c
		/* c */ rule b { when F.X().Y[1].Z(1,2) then F.M["a"] = -1.5; F.P.Q.V /= 0x1p-2; }`,
		``,
		`rule a { when 1 - -1 == 2 then F.I = 1 -1; }`,
	}
	for _, g := range good {
		if v := Recognise(g); !v.Accept {
			t.Errorf("rejected (%s): %s", v.Reason, g)
		}
	}
	bad := []string{
		`rule { when F.B then F.I = 1; }`, `rule r { when F.B then F.I = 1 }`, `rule r { when then F.I = 1; }`, `rule r { when F.B then }`,
		`rule rule { when F.B then F.I = 1; }`, `rule r { when F.B then F.I = 1; } @`, `rule r { when F.B then F.I = 99999999999999999999; }`,
		`rule r salience 2147483648 { when F.B then F.I = 1; }`, `rule r { when F.B then F.I = 1; } rule r { when F.B then F.I = 2; }`,
		`rule r { when F.S == "a\qb" then F.I = 1; }`, `rule r { when (F.B then F.I = 1; }`, `rule r { when F.B then F.I = 08; }`,
	}
	for _, b := range bad {
		if v := Recognise(b); v.Accept {
			t.Errorf("accepted: %s", b)
		}
	}
}
