package recog

// Earley recogniser over the parser rules of grulev3.g4, transcribed literally.
// Upper-case symbols are tokens, lower-case symbols are rules. EBNF operators are expanded into
// helper rules mechanically (x? -> x_opt, x* -> x_star, (a b)+ -> group_plus).

type production struct {
	lhs string
	rhs []string
}

var grammar = func() []production {
	var ps []production
	add := func(lhs string, rhs ...string) { ps = append(ps, production{lhs, rhs}) }
	// grl : ruleEntry* EOF
	add("grl", "ruleEntry_star")
	add("ruleEntry_star")
	add("ruleEntry_star", "ruleEntry_star", "ruleEntry")
	// ruleEntry : RULE ruleName ruleDescription? salience? LR_BRACE whenScope thenScope RR_BRACE
	add("ruleEntry", "RULE", "ruleName", "ruleDescription_opt", "salience_opt", "LR_BRACE", "whenScope", "thenScope", "RR_BRACE")
	add("ruleDescription_opt")
	add("ruleDescription_opt", "ruleDescription")
	add("salience_opt")
	add("salience_opt", "salience")
	add("salience", "SALIENCE", "integerLiteral")
	add("ruleName", "SIMPLENAME")
	add("ruleDescription", "DQUOTA_STRING")
	add("ruleDescription", "SQUOTA_STRING")
	add("whenScope", "WHEN", "expression")
	add("thenScope", "THEN", "thenExpressionList")
	// thenExpressionList : (thenExpression SEMICOLON)+
	add("thenExpressionList", "thenExpression", "SEMICOLON")
	add("thenExpressionList", "thenExpressionList", "thenExpression", "SEMICOLON")
	add("thenExpression", "assignment")
	add("thenExpression", "expressionAtom")
	for _, op := range []string{"ASSIGN", "PLUS_ASIGN", "MINUS_ASIGN", "DIV_ASIGN", "MUL_ASIGN"} {
		add("assignment", "variable", op, "expression")
	}
	add("expression", "expression", "mulDivOperators", "expression")
	add("expression", "expression", "addMinusOperators", "expression")
	add("expression", "expression", "comparisonOperator", "expression")
	add("expression", "expression", "andLogicOperator", "expression")
	add("expression", "expression", "orLogicOperator", "expression")
	add("expression", "LR_BRACKET", "expression", "RR_BRACKET")
	add("expression", "NEGATION", "LR_BRACKET", "expression", "RR_BRACKET")
	add("expression", "expressionAtom")
	for _, t := range []string{"MUL", "DIV", "MOD"} {
		add("mulDivOperators", t)
	}
	for _, t := range []string{"PLUS", "MINUS", "BITAND", "BITOR"} {
		add("addMinusOperators", t)
	}
	for _, t := range []string{"GT", "LT", "GTE", "LTE", "EQUALS", "NOTEQUALS"} {
		add("comparisonOperator", t)
	}
	add("andLogicOperator", "AND")
	add("orLogicOperator", "OR")
	add("expressionAtom", "constant")
	add("expressionAtom", "variable")
	add("expressionAtom", "functionCall")
	add("expressionAtom", "expressionAtom", "methodCall")
	add("expressionAtom", "expressionAtom", "memberVariable")
	add("expressionAtom", "expressionAtom", "arrayMapSelector")
	add("expressionAtom", "NEGATION", "expressionAtom")
	add("constant", "stringLiteral")
	add("constant", "integerLiteral")
	add("constant", "floatLiteral")
	add("constant", "booleanLiteral")
	add("constant", "NIL_LITERAL")
	add("variable", "variable", "memberVariable")
	add("variable", "variable", "arrayMapSelector")
	add("variable", "SIMPLENAME")
	add("arrayMapSelector", "LS_BRACKET", "expression", "RS_BRACKET")
	add("memberVariable", "DOT", "SIMPLENAME")
	add("functionCall", "SIMPLENAME", "LR_BRACKET", "RR_BRACKET")
	add("functionCall", "SIMPLENAME", "LR_BRACKET", "argumentList", "RR_BRACKET")
	add("methodCall", "DOT", "functionCall")
	add("argumentList", "expression")
	add("argumentList", "argumentList", "COMMA", "expression")
	add("floatLiteral", "decimalFloatLiteral")
	add("floatLiteral", "hexadecimalFloatLiteral")
	add("decimalFloatLiteral", "DECIMAL_FLOAT_LIT")
	add("decimalFloatLiteral", "MINUS", "DECIMAL_FLOAT_LIT")
	add("hexadecimalFloatLiteral", "HEX_FLOAT_LIT")
	add("hexadecimalFloatLiteral", "MINUS", "HEX_FLOAT_LIT")
	add("integerLiteral", "decimalLiteral")
	add("integerLiteral", "hexadecimalLiteral")
	add("integerLiteral", "octalLiteral")
	add("decimalLiteral", "DEC_LIT")
	add("decimalLiteral", "MINUS", "DEC_LIT")
	add("hexadecimalLiteral", "HEX_LIT")
	add("hexadecimalLiteral", "MINUS", "HEX_LIT")
	add("octalLiteral", "OCT_LIT")
	add("octalLiteral", "MINUS", "OCT_LIT")
	add("stringLiteral", "DQUOTA_STRING")
	add("stringLiteral", "SQUOTA_STRING")
	add("booleanLiteral", "TRUE")
	add("booleanLiteral", "FALSE")
	return ps
}()

var byLHS = func() map[string][]int {
	m := map[string][]int{}
	for i, p := range grammar {
		m[p.lhs] = append(m[p.lhs], i)
	}
	return m
}()

var nullable = func() map[string]bool {
	n := map[string]bool{}
	for changed := true; changed; {
		changed = false
		for _, p := range grammar {
			if n[p.lhs] {
				continue
			}
			all := true
			for _, s := range p.rhs {
				if !n[s] {
					all = false
				}
			}
			if all {
				n[p.lhs] = true
				changed = true
			}
		}
	}
	return n
}()

type item struct {
	prod, dot, origin int
}

// Parses reports whether the token kinds form a sentence of the grammar (start symbol grl).
func Parses(kinds []string) bool {
	n := len(kinds)
	sets := make([][]item, n+1)
	seen := make([]map[item]bool, n+1)
	for i := range seen {
		seen[i] = map[item]bool{}
	}
	addItem := func(k int, it item) {
		if !seen[k][it] {
			seen[k][it] = true
			sets[k] = append(sets[k], it)
		}
	}
	for _, pi := range byLHS["grl"] {
		addItem(0, item{pi, 0, 0})
	}
	for k := 0; k <= n; k++ {
		for idx := 0; idx < len(sets[k]); idx++ {
			it := sets[k][idx]
			p := grammar[it.prod]
			if it.dot < len(p.rhs) {
				sym := p.rhs[it.dot]
				if prods, isRule := byLHS[sym]; isRule {
					for _, pi := range prods { // predict
						addItem(k, item{pi, 0, k})
					}
					if nullable[sym] { // Aycock-Horspool
						addItem(k, item{it.prod, it.dot + 1, it.origin})
					}
				} else if k < n && kinds[k] == sym { // scan
					addItem(k+1, item{it.prod, it.dot + 1, it.origin})
				}
			} else { // complete
				for _, parent := range sets[it.origin] {
					pp := grammar[parent.prod]
					if parent.dot < len(pp.rhs) && pp.rhs[parent.dot] == p.lhs {
						addItem(k, item{parent.prod, parent.dot + 1, parent.origin})
					}
				}
			}
		}
	}
	for _, it := range sets[n] {
		p := grammar[it.prod]
		if p.lhs == "grl" && it.dot == len(p.rhs) && it.origin == 0 {
			return true
		}
	}
	return false
}
