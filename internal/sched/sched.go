// Package sched is a cooperative scheduler with preemption-bounded depth-first exploration.
// Threads are goroutines of which exactly one runs at a time; every yield point hands control to
// the scheduler, which picks the next thread from the choice sequence being explored.
package sched

import (
	"fmt"
	"os"
)

var dbg = os.Getenv("SCHED_DEBUG") != ""
var dbgRing []string

func dlog(f string, a ...interface{}) {
	if dbg {
		dbgRing = append(dbgRing, fmt.Sprintf(f, a...))
		if len(dbgRing) > 60 {
			dbgRing = dbgRing[1:]
		}
	}
}

// DebugDump prints the last scheduler events (SCHED_DEBUG=1).
func DebugDump() {
	for _, l := range dbgRing {
		fmt.Fprintln(os.Stderr, l)
	}
}

// Point is one recorded choice point.
type Point struct {
	Enabled        []int // thread ids in canonical order: running thread first (if still enabled), then ascending
	Chosen         int   // index into Enabled
	RunningEnabled bool  // the thread that was running is still enabled (switching away is a preemption)
	Label          string
}

type thread struct {
	id      int
	wake    chan struct{}
	done    bool
	blocked bool // inside Block: not enabled at this choice
}

// Run is one controlled execution.
type Run struct {
	prefix    []int
	Points    []Point
	threads   []*thread
	cur       int
	fin       chan struct{}
	Failure   string // harness failure (out-of-range choice while replaying a prefix)
	active    bool
	MaxPoints int
}

// Yield is called by the running thread at a yield point.
func (r *Run) Yield(label string) {
	if !r.active {
		return
	}
	me := r.cur
	next := r.choose(me, true, label)
	dlog("yield me=%d next=%d %s", me, next, label)
	if next != me {
		r.cur = next
		r.threads[next].wake <- struct{}{}
		<-r.threads[me].wake
	}
}

// Block is called by the running thread when it cannot proceed (a lock is held by another thread): the thread is
// not enabled at this point, another one must run. With no other thread left it is a deadlock.
func (r *Run) Block(label string) {
	if !r.active {
		return
	}
	me := r.cur
	r.threads[me].blocked = true // only for this choice: once another thread ran, the lock may be free again
	if len(r.enabled(me, false)) == 0 {
		r.threads[me].blocked = false
		r.Failure = "deadlock: the only thread left waits for a lock (" + label + ")"
		panic("sched: deadlock at " + label)
	}
	next := r.choose(me, false, label)
	r.threads[me].blocked = false
	dlog("block me=%d next=%d %s", me, next, label)
	r.cur = next
	r.threads[next].wake <- struct{}{}
	<-r.threads[me].wake
}

func (r *Run) enabled(running int, runningEnabled bool) []int {
	var e []int
	if runningEnabled {
		e = append(e, running)
	}
	for _, t := range r.threads {
		if !t.done && !t.blocked && !(runningEnabled && t.id == running) {
			e = append(e, t.id)
		}
	}
	return e
}

func (r *Run) choose(running int, runningEnabled bool, label string) int {
	en := r.enabled(running, runningEnabled)
	if len(en) == 1 {
		return en[0] // no choice: not a choice point
	}
	c := 0
	i := len(r.Points)
	if i < len(r.prefix) {
		c = r.prefix[i]
		if c < 0 || c >= len(en) {
			r.Failure = fmt.Sprintf("choice %d out of range (%d enabled) at point %d while replaying a prefix", c, len(en), i)
			c = 0
		}
	}
	if r.MaxPoints > 0 && i >= r.MaxPoints {
		r.Failure = "horizon: too many choice points"
		c = 0
	}
	r.Points = append(r.Points, Point{Enabled: en, Chosen: c, RunningEnabled: runningEnabled, Label: label})
	return en[c]
}

// Execute runs the bodies under the given choice prefix (default choice 0 afterwards).
func Execute(prefix []int, bodies []func(r *Run)) *Run {
	r := &Run{prefix: prefix, fin: make(chan struct{}), MaxPoints: 200000}
	for i := range bodies {
		r.threads = append(r.threads, &thread{id: i, wake: make(chan struct{})})
	}
	remaining := len(bodies)
	for i, b := range bodies {
		i, b := i, b
		go func() {
			<-r.threads[i].wake
			b(r)
			r.threads[i].done = true
			remaining--
			if remaining == 0 {
				r.active = false
				close(r.fin)
				return
			}
			next := r.choose(i, false, "exit")
			dlog("exit i=%d next=%d", i, next)
			r.cur = next
			r.threads[next].wake <- struct{}{}
		}()
	}
	r.active = true
	r.cur = 0
	r.threads[0].wake <- struct{}{}
	<-r.fin
	return r
}

// Choices returns the choice sequence of the run.
func (r *Run) Choices() []int {
	c := make([]int, len(r.Points))
	for i, p := range r.Points {
		c[i] = p.Chosen
	}
	return c
}

// preemptionsBefore counts preemptions among the first n points.
func (r *Run) preemptionsBefore(n int) int {
	k := 0
	for i := 0; i < n && i < len(r.Points); i++ {
		if r.Points[i].RunningEnabled && r.Points[i].Chosen != 0 {
			k++
		}
	}
	return k
}

// Stats of an exploration.
type Stats struct {
	Executions int
	MaxPoints  int
	Truncated  bool
}

// Explore enumerates every schedule with at most bound preemptions, depth first.
// shard/nshards partitions the level-1 subtrees (first deviation position) over processes.
// visit returns false to stop.
func Explore(bodies func() []func(r *Run), bound int, shard, nshards int, maxExec int, st *Stats, visit func(r *Run) bool) {
	stop := false
	var rec func(prefix []int, depth int)
	rec = func(prefix []int, depth int) {
		if stop {
			return
		}
		if maxExec > 0 && st.Executions >= maxExec {
			st.Truncated = true
			return
		}
		r := Execute(prefix, bodies())
		st.Executions++
		if len(r.Points) > st.MaxPoints {
			st.MaxPoints = len(r.Points)
		}
		if !visit(r) {
			stop = true
			return
		}
		for i := len(prefix); i < len(r.Points); i++ {
			if depth == 0 && nshards > 1 && i%nshards != shard {
				continue
			}
			p := r.Points[i]
			cost := r.preemptionsBefore(i)
			if p.RunningEnabled {
				cost++
			}
			if cost > bound {
				continue
			}
			for alt := 1; alt < len(p.Enabled); alt++ {
				np := append(append([]int{}, r.Choices()[:i]...), alt)
				rec(np, depth+1)
			}
		}
	}
	if shard == 0 || nshards <= 1 {
		rec(nil, 0)
	} else {
		// the root execution belongs to shard 0; other shards replay it only to find their subtrees
		r := Execute(nil, bodies())
		for i := 0; i < len(r.Points); i++ {
			if i%nshards != shard {
				continue
			}
			p := r.Points[i]
			cost := 0
			if p.RunningEnabled {
				cost = 1
			}
			if cost > bound {
				continue
			}
			for alt := 1; alt < len(p.Enabled); alt++ {
				rec(append(append([]int{}, r.Choices()[:i]...), alt), 1)
			}
		}
	}
}
