package hx

import (
	"reflect"
	"sync"

	"github.com/hyperjumptech/grule-rule-engine/ast"
	"github.com/hyperjumptech/grule-rule-engine/model"
)

// AccessCounter counts leaf field reads per "parentPath->field".
type AccessCounter struct {
	mu     sync.Mutex
	Counts map[string]int
	OnRead func(key string)
}

func (c *AccessCounter) hit(key string) {
	c.mu.Lock()
	c.Counts[key]++
	f := c.OnRead
	c.mu.Unlock()
	if f != nil {
		f(key)
	}
}

// countingNode wraps a ValueNode: every method delegates (interface embedding); the methods that
// produce child nodes wrap the child so that the whole path is observed.
type countingNode struct {
	model.ValueNode
	path string
	c    *AccessCounter
}

func (n *countingNode) wrap(child model.ValueNode, path string) model.ValueNode {
	if child == nil {
		return nil
	}
	return &countingNode{ValueNode: child, path: path, c: n.c}
}

func (n *countingNode) GetChildNodeByField(field string) (model.ValueNode, error) {
	n.c.hit(n.path + "->" + field)
	ch, err := n.ValueNode.GetChildNodeByField(field)
	if err != nil {
		return nil, err
	}
	return n.wrap(ch, n.path+"."+field), nil
}

func (n *countingNode) GetChildNodeByIndex(i int) (model.ValueNode, error) {
	ch, err := n.ValueNode.GetChildNodeByIndex(i)
	if err != nil {
		return nil, err
	}
	return n.wrap(ch, n.path+"[]"), nil
}

func (n *countingNode) GetChildNodeBySelector(sel reflect.Value) (model.ValueNode, error) {
	ch, err := n.ValueNode.GetChildNodeBySelector(sel)
	if err != nil {
		return nil, err
	}
	return n.wrap(ch, n.path+"[]"), nil
}

func (n *countingNode) ContinueWithValue(v reflect.Value, identifiedAs string) model.ValueNode {
	return n.wrap(n.ValueNode.ContinueWithValue(v, identifiedAs), n.path+"()")
}

// countingDC wraps a data context so that Get hands out counting nodes.
type countingDC struct {
	ast.IDataContext
	c *AccessCounter
}

func (d *countingDC) Get(key string) model.ValueNode {
	vn := d.IDataContext.Get(key)
	if vn == nil {
		return nil
	}
	return &countingNode{ValueNode: vn, path: key, c: d.c}
}

// CountingDataContext wraps dc.
func CountingDataContext(dc ast.IDataContext) (ast.IDataContext, *AccessCounter) {
	c := &AccessCounter{Counts: map[string]int{}}
	return &countingDC{IDataContext: dc, c: c}, c
}
