//go:build !verif

package hx

const OrderControlled = false

func setChooser(m interface{}, c func(keys []string) []int)      {}
func setCloneChooser(m interface{}, c func(keys []string) []int) {}
func HookCalls() uint64                                     { return 0 }
func SetPointFn(f func(label string))                       {}
func SetBlockFn(f func(label string))                       {}
func KeyHookCalls() uint64                                  { return 0 }
