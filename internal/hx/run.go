package hx

import (
	"math"
	"context"
	"crypto/sha1"
	"encoding/hex"
	"encoding/json"
	"errors"
	"fmt"
	"sort"
	"strings"
	"time"

	"github.com/hyperjumptech/grule-rule-engine/ast"
	"github.com/hyperjumptech/grule-rule-engine/engine"

	"verif/internal/facts"
	"verif/internal/grl"
	"verif/internal/ref"
)

// ---------- permutations ----------

var permCache = map[int][][]int{}

// Perms returns all permutations of 0..n-1 in lexicographic order (index 0 = identity).
func Perms(n int) [][]int {
	if p, ok := permCache[n]; ok {
		return p
	}
	var out [][]int
	cur := make([]int, 0, n)
	used := make([]bool, n)
	var rec func()
	rec = func() {
		if len(cur) == n {
			out = append(out, append([]int{}, cur...))
			return
		}
		for i := 0; i < n; i++ {
			if !used[i] {
				used[i] = true
				cur = append(cur, i)
				rec()
				cur = cur[:len(cur)-1]
				used[i] = false
			}
		}
	}
	rec()
	permCache[n] = out
	return out
}

func init() {
	for i := 0; i <= 5; i++ {
		Perms(i)
	}
}

// MaxPermRules is the largest rule count whose orders are enumerated; larger knowledge bases
// run in sorted order only (NAlt = 1).
const MaxPermRules = 5

// NPerms returns the number of enumerable orders of k rules.
func NPerms(k int) int {
	if k > MaxPermRules || (!probing && !OrderLive()) {
		return 1
	}
	return len(Perms(k))
}

// permOf returns permutation ch of k elements (nil = identity).
func permOf(k, ch int) []int {
	if ch == 0 || k > MaxPermRules {
		return nil
	}
	return Perms(k)[ch]
}

// ---------- data context bridging ----------

// NewDataContext creates an engine data context over the world's own objects.
func NewDataContext(w *ref.World) (ast.IDataContext, error) {
	dc := ast.NewDataContext()
	for name, f := range w.Objs {
		if err := dc.Add(name, f); err != nil {
			return nil, err
		}
	}
	for name, v := range w.Vars {
		if err := dc.Add(name, v); err != nil {
			return nil, err
		}
	}
	for name, j := range w.JSON {
		b, err := json.Marshal(j)
		if err != nil {
			return nil, err
		}
		if err := dc.AddJSON(name, b); err != nil {
			return nil, err
		}
	}
	return dc, nil
}

// Live returns a view of the real state: the caller's own fact objects, and the current
// top-level variables / JSON documents read back from the data context.
func Live(w *ref.World, dc ast.IDataContext) *ref.World {
	l := &ref.World{Objs: w.Objs, Vars: map[string]interface{}{}, JSON: map[string]interface{}{}}
	for name := range w.Vars {
		if vn := dc.Get(name); vn != nil && vn.Value().IsValid() && vn.Value().CanInterface() {
			l.Vars[name] = vn.Value().Interface()
		}
	}
	for name := range w.JSON {
		if vn := dc.Get(name); vn != nil && vn.Value().IsValid() && vn.Value().CanInterface() {
			l.JSON[name] = vn.Value().Interface()
		}
	}
	return l
}

// ---------- trace ----------

type EvalEv struct {
	Rule    string
	Cand    bool
	RefCand bool
	RefErr  error // nil, *ref.ErrEval (engine must treat as failed) or ref.ErrUnsupported (not judged)
	Probes  []int // probe invocation indexes that happened during this rule's evaluation
	Faulted bool  // a fault was injected during this rule's evaluation
}

type CycleRec struct {
	N                uint64
	Key              string
	Order            []string
	NAlt             int
	Choice           int
	Evals            []EvalEv
	Exec             string // "" none
	NExec            int    // number of ExecuteRuleEntry callbacks in this cycle
	ExecRef          bool   // reference value of the fired rule's condition at that moment
	ExecRefE         error
	ExecActive       bool       // fired rule active in the model (not retracted, not removed)
	Pre              *ref.World // snapshot at ExecuteRuleEntry
	PostChecked      bool
	PostOK           bool
	PostDiff         string
	ModelErr         error // model says an action of the fired rule fails
	ModelUnsupported bool
	Effect           ref.Effect
	ActiveModel      []string          // model-active rules at cycle start (sorted)
	RefAt            map[string]RefRes // reference evaluation of every model-active rule on the state at cycle start
}

// RefRes is a reference evaluation result.
type RefRes struct {
	True bool
	Err  error
}

type Trace struct {
	Cycles         []*CycleRec
	Err            error
	Panic          interface{}
	Events         []string
	Protocol       []string // listener protocol violations (numbering, duplicates, ...)
	FinalDump      string
	FinalCands     []string // reference candidates among model-active rules on the final state
	FinalCandErr   int      // rules whose final reference evaluation is an error
	Completed      bool     // model saw Complete()
	Horizon        bool     // harness horizon hit (non-termination suspected)
	Choices        []int    // order choice per hook call
	NAlts          []int
	HookCalls      int
	RetractedModel map[string]bool
	ExtraLogs      [][]string // event logs of extra listeners
	MaxCycle       uint64
	Fired          int
}

// ---------- options ----------

type RunOpts struct {
	MaxCycle       uint64
	Choices        []int // order choices per hook call; default 0 afterwards
	ReturnErr      bool  // ReturnErrOnFailedRuleEvaluation
	Ctx            context.Context
	ExtraListeners int
	Removed        map[string]bool                     // rule names removed (model side)
	NoSnapshots    bool                                // skip Pre snapshots / post-state comparison
	OnEvent        func(ev string)                     // observer of the unified event log
	KB             *ast.KnowledgeBase                  // reuse this instance instead of creating one
	CloneOrd       int                                 // order in which NewKnowledgeBaseInstance clones the rules (see Built.InstanceOrd)
	DefaultChoice  int                                 // order choice used beyond Choices (clamped to the number of permutations)
	CountReads     string                              // when set ("F.P->V"): leaf reads of that accessor are logged as events "read:<key>"
	OrderFn        func(keys []string) []int           // fixed visiting order for programs too wide to enumerate orders (permutation of indexes; nil: by DefaultChoice / Choices)
	DataCtx        ast.IDataContext                    // use this data context (it must hold the world's own objects) instead of a new one
	Shared         *SharedEngine                       // run on this shared engine value (its MaxCycle / flag apply) instead of a private one
	OnHook         func(dc ast.IDataContext, id int64) // what F.Hook(id) does during this run (it gets the run's data context)
	OnProbe        func(kind string, id int64, n int)  // called at every probe invocation of the world's facts (after the event is logged)
}

type monitor struct {
	prog        *Program
	kb          *ast.KnowledgeBase
	dc          ast.IDataContext
	world       *ref.World
	tr          *Trace
	opts        *RunOpts
	cur         *CycleRec
	retracted   map[string]bool
	complete    bool
	cancel      context.CancelFunc
	probeMark   int
	seenInCycle map[string]bool
	memo        *MemoSet
}

type extraListener struct{ log *[]string }

func (l extraListener) BeginCycle(ctx context.Context, c uint64) {
	*l.log = append(*l.log, fmt.Sprintf("B%d", c))
}
func (l extraListener) EvaluateRuleEntry(ctx context.Context, c uint64, e *ast.RuleEntry, cand bool) {
	*l.log = append(*l.log, fmt.Sprintf("V%d:%s:%v", c, e.RuleName, cand))
}
func (l extraListener) ExecuteRuleEntry(ctx context.Context, c uint64, e *ast.RuleEntry) {
	*l.log = append(*l.log, fmt.Sprintf("X%d:%s", c, e.RuleName))
}

func (m *monitor) event(s string) {
	m.tr.Events = append(m.tr.Events, s)
	if m.opts.OnEvent != nil {
		m.opts.OnEvent(s)
	}
}

func (m *monitor) live() *ref.World { return Live(m.world, m.dc) }

func (m *monitor) active(name string) bool {
	if _, ok := m.prog.ByName[name]; !ok {
		return false
	}
	return !m.retracted[name] && !m.opts.Removed[name]
}

func (m *monitor) totalProbes() int {
	n := 0
	for _, f := range m.world.Objs {
		n += f.H().Probes
	}
	return n
}

func (m *monitor) totalFaulted() int {
	n := 0
	for _, f := range m.world.Objs {
		n += len(f.H().Faulted)
	}
	return n
}

// finishCycle compares the real post-state of the fired rule with the model's.
func (m *monitor) finishCycle() {
	c := m.cur
	if c == nil || c.Exec == "" || c.PostChecked {
		return
	}
	c.PostChecked = true
	r := m.prog.ByName[c.Exec]
	if r == nil {
		return
	}
	var eff ref.Effect
	var model *ref.World
	if c.Pre != nil {
		model = c.Pre.Clone() // Pre stays pristine for judges
	} else {
		model = m.live().Clone() // effects only (constants); fact writes land on a throw-away copy
	}
	ev := &ref.Evaluator{W: model}
	for _, a := range r.Then {
		err := ev.Apply(a, &eff)
		if err != nil {
			var ee *ref.ErrEval
			if errors.As(err, &ee) {
				c.ModelErr = err
			} else {
				c.ModelUnsupported = true
			}
			break
		}
	}
	c.Effect = eff
	for _, n := range eff.Retract {
		if _, ok := m.prog.ByName[n]; ok {
			m.retracted[n] = true
		}
	}
	if eff.Complete {
		m.complete = true
	}
	if c.Pre != nil && !c.ModelUnsupported {
		want := model.Dump()
		got := m.live().Dump()
		c.PostOK = want == got
		if !c.PostOK {
			c.PostDiff = "model:\n" + want + "real:\n" + got
		}
	} else {
		c.PostOK = true
	}
}

func hashKey(s string) string {
	h := sha1.Sum([]byte(s))
	return hex.EncodeToString(h[:10])
}

func (m *monitor) BeginCycle(ctx context.Context, n uint64) {
	m.finishCycle()
	m.event(fmt.Sprintf("B%d", n))
	want := uint64(len(m.tr.Cycles) + 1)
	if n != want {
		m.tr.Protocol = append(m.tr.Protocol, fmt.Sprintf("BeginCycle(%d) but %d expected", n, want))
	}
	if m.complete {
		m.tr.Protocol = append(m.tr.Protocol, fmt.Sprintf("BeginCycle(%d) after Complete()", n))
	}
	c := &CycleRec{N: n}
	key := m.live().Dump() + "\n" + m.memo.Dump() + fmt.Sprintf("\nfired=%d/%d", m.tr.Fired, m.opts.MaxCycle)
	c.Key = hashKey(key)
	c.RefAt = map[string]RefRes{}
	lv := m.live()
	for _, name := range m.prog.Names {
		if m.active(name) {
			c.ActiveModel = append(c.ActiveModel, name)
			ev := &ref.Evaluator{W: lv}
			ok, err := ev.EvalBool(m.prog.ByName[name].When)
			c.RefAt[name] = RefRes{True: ok, Err: err}
		}
	}
	m.cur = c
	m.tr.Cycles = append(m.tr.Cycles, c)
	m.seenInCycle = map[string]bool{}
	m.probeMark = m.totalProbes()
	horizon := m.opts.MaxCycle + 3
	if horizon < m.opts.MaxCycle {
		horizon = math.MaxUint64 - 3 // a budget at the end of the range: no horizon fits beyond it
	}
	if uint64(len(m.tr.Cycles)) > horizon {
		m.tr.Horizon = true
		if m.cancel != nil {
			m.cancel()
		}
		if uint64(len(m.tr.Cycles)) > horizon+3 {
			panic("hx: horizon exceeded, engine ignores cancellation")
		}
	}
}

func (m *monitor) EvaluateRuleEntry(ctx context.Context, n uint64, e *ast.RuleEntry, cand bool) {
	m.event(fmt.Sprintf("V%d:%s:%v", n, e.RuleName, cand))
	if m.cur == nil || m.cur.N != n {
		m.tr.Protocol = append(m.tr.Protocol, fmt.Sprintf("EvaluateRuleEntry(%d,%s) outside its cycle", n, e.RuleName))
		if m.cur == nil {
			return
		}
	}
	if m.cur.Exec != "" {
		m.tr.Protocol = append(m.tr.Protocol, fmt.Sprintf("EvaluateRuleEntry(%d,%s) after ExecuteRuleEntry of the same cycle", n, e.RuleName))
	}
	if m.seenInCycle[e.RuleName] {
		m.tr.Protocol = append(m.tr.Protocol, fmt.Sprintf("rule %s reported twice in cycle %d", e.RuleName, n))
	}
	m.seenInCycle[e.RuleName] = true
	ee := EvalEv{Rule: e.RuleName, Cand: cand}
	if r, ok := m.prog.ByName[e.RuleName]; ok {
		ev := &ref.Evaluator{W: m.live()}
		ee.RefCand, ee.RefErr = ev.EvalBool(r.When)
	} else {
		ee.RefErr = ref.ErrUnsupported
	}
	now := m.totalProbes()
	for i := m.probeMark + 1; i <= now; i++ {
		ee.Probes = append(ee.Probes, i)
	}
	m.probeMark = now
	m.cur.Evals = append(m.cur.Evals, ee)
}

func (m *monitor) ExecuteRuleEntry(ctx context.Context, n uint64, e *ast.RuleEntry) {
	m.event(fmt.Sprintf("X%d:%s", n, e.RuleName))
	if m.cur == nil {
		m.tr.Protocol = append(m.tr.Protocol, "ExecuteRuleEntry before any BeginCycle")
		return
	}
	if m.cur.N != n {
		m.tr.Protocol = append(m.tr.Protocol, fmt.Sprintf("ExecuteRuleEntry(%d,%s) numbered differently from its cycle %d", n, e.RuleName, m.cur.N))
	}
	m.cur.NExec++
	m.tr.Fired++
	if m.cur.NExec > 1 {
		return
	}
	m.cur.Exec = e.RuleName
	m.cur.ExecActive = m.active(e.RuleName)
	if r, ok := m.prog.ByName[e.RuleName]; ok {
		lv := m.live()
		ev := &ref.Evaluator{W: lv}
		m.cur.ExecRef, m.cur.ExecRefE = ev.EvalBool(r.When)
		if !m.opts.NoSnapshots {
			m.cur.Pre = lv.Clone()
		}
	} else {
		m.cur.ExecRefE = ref.ErrUnsupported
	}
}

// Run executes the program once on world w (whose objects are mutated in place).
func Run(b *Built, w *ref.World, opts RunOpts) *Trace {
	tr := &Trace{MaxCycle: opts.MaxCycle}
	kb := opts.KB
	if kb == nil {
		var err error
		kb, err = b.InstanceOrd(opts.CloneOrd)
		if err != nil {
			tr.Err = fmt.Errorf("instance: %w", err)
			tr.Protocol = append(tr.Protocol, "NewKnowledgeBaseInstance failed: "+err.Error())
			return tr
		}
	}
	return RunOn(b.Prog, kb, w, opts, tr)
}

// RunOn executes on a given knowledge-base instance.
func RunOn(prog *Program, kb *ast.KnowledgeBase, w *ref.World, opts RunOpts, tr *Trace) *Trace {
	if tr == nil {
		tr = &Trace{MaxCycle: opts.MaxCycle}
	}
	dc := opts.DataCtx
	if dc == nil {
		var err error
		dc, err = NewDataContext(w)
		if err != nil {
			tr.Err = err
			return tr
		}
	}
	if opts.Removed == nil {
		opts.Removed = map[string]bool{}
	}
	var counter *AccessCounter
	if opts.CountReads != "" {
		dc, counter = CountingDataContext(dc)
	}
	m := &monitor{prog: prog, kb: kb, dc: dc, world: w, tr: tr, opts: &opts, retracted: map[string]bool{}, memo: NewMemoSet(kb)}
	if counter != nil {
		want := opts.CountReads
		counter.OnRead = func(key string) {
			if key == want {
				m.event("read:" + key)
			}
		}
	}
	var eng *engine.GruleEngine
	if opts.Shared != nil {
		eng = opts.Shared.Eng
		tr.MaxCycle = eng.MaxCycle
		opts.MaxCycle = eng.MaxCycle
	} else {
		eng = &engine.GruleEngine{MaxCycle: opts.MaxCycle, ReturnErrOnFailedRuleEvaluation: opts.ReturnErr}
		eng.Listeners = append(eng.Listeners, m)
		tr.ExtraLogs = make([][]string, opts.ExtraListeners)
		for i := 0; i < opts.ExtraListeners; i++ {
			eng.Listeners = append(eng.Listeners, extraListener{log: &tr.ExtraLogs[i]})
		}
	}
	for _, f := range w.Objs {
		f := f
		if opts.OnHook != nil {
			f.H().OnHook = func(id int64) { opts.OnHook(dc, id) }
		}
		f.H().OnProbe = func(kind string, id int64, n int) {
			m.event(fmt.Sprintf("%s:%d", kind, id))
			if opts.OnProbe != nil {
				opts.OnProbe(kind, id, n)
			}
		}
	}
	if pc, ok := opts.Ctx.(*PollCtx); ok {
		pc.OnFlip = func() { m.event("FLIP") }
	}
	ctx := opts.Ctx
	if ctx == nil {
		var cancel context.CancelFunc
		ctx, cancel = context.WithCancel(context.Background())
		m.cancel = cancel
		defer cancel()
	}
	if opts.Shared != nil {
		var leave func()
		ctx, leave = opts.Shared.Enter(ctx, m)
		defer leave()
	}
	hook := 0
	setChooser(kb.RuleEntries, func(keys []string) []int {
		k := len(keys)
		if opts.OrderFn != nil {
			hook++
			tr.Choices = append(tr.Choices, 0)
			tr.NAlts = append(tr.NAlts, 1)
			perm := opts.OrderFn(keys)
			if m.cur != nil && m.cur.Order == nil {
				ord := make([]string, k)
				for i := range ord {
					ord[i] = keys[perm[i]]
				}
				m.cur.Order = ord
				m.cur.NAlt = 1
			}
			return perm
		}
		np := NPerms(k)
		ch := opts.DefaultChoice
		if ch >= np {
			ch = np - 1
		}
		if hook < len(opts.Choices) {
			ch = opts.Choices[hook]
			if ch < 0 || ch >= np {
				panic(fmt.Sprintf("hx: order choice %d out of range (%d permutations) while replaying a prefix", ch, np))
			}
		}
		hook++
		tr.Choices = append(tr.Choices, ch)
		tr.NAlts = append(tr.NAlts, np)
		perm := permOf(k, ch)
		if m.cur != nil && m.cur.Order == nil {
			m.cur.Choice = ch
			m.cur.NAlt = np
			ord := make([]string, k)
			for i := range ord {
				if perm == nil {
					ord[i] = keys[i]
				} else {
					ord[i] = keys[perm[i]]
				}
			}
			m.cur.Order = ord
		}
		return perm
	})
	defer setChooser(kb.RuleEntries, nil)
	func() {
		defer func() {
			if r := recover(); r != nil {
				tr.Panic = r
			}
		}()
		tr.Err = eng.ExecuteWithContext(ctx, dc, kb)
	}()
	tr.HookCalls = hook
	m.finishCycle()
	if tr.Err != nil {
		m.event("ret:" + firstLine(tr.Err.Error()))
	} else {
		m.event("ret:nil")
	}
	tr.Completed = m.complete
	tr.RetractedModel = m.retracted
	lv := m.live()
	tr.FinalDump = lv.Dump()
	for _, name := range prog.Names {
		if !m.active(name) {
			continue
		}
		ev := &ref.Evaluator{W: lv}
		ok, err := ev.EvalBool(prog.ByName[name].When)
		if err != nil {
			tr.FinalCandErr++
			continue
		}
		if ok {
			tr.FinalCands = append(tr.FinalCands, name)
		}
	}
	for _, f := range w.Objs {
		f.H().OnProbe = nil
	}
	return tr
}

func firstLine(s string) string {
	if i := strings.IndexByte(s, '\n'); i >= 0 {
		s = s[:i]
	}
	if len(s) > 90 {
		s = s[:90]
	}
	return s
}

// IsLimitErr recognises the cycle-limit error.
func IsLimitErr(err error) bool {
	return err != nil && strings.Contains(err.Error(), "successfully selected rule candidate for execution after")
}

// ---------- exploration ----------

// Stats accumulates exploration counts.
type Stats struct {
	Runs        int
	States      int
	Transitions int
	MaxDepth    int
	Capped      bool
}

// Explore enumerates the order choices of every cycle of prog from initial world mk(), pruning
// on visited state keys: a state (facts + flags + memo + budget at a cycle boundary) is expanded
// (all k! orders tried) exactly once. visit is called for every run.
func Explore(b *Built, mk func() *ref.World, base RunOpts, maxRuns int, st *Stats, visit func(tr *Trace, w *ref.World)) {
	seen := map[string]bool{}
	var rec func(prefix []int)
	rec = func(prefix []int) {
		if maxRuns > 0 && st.Runs >= maxRuns {
			st.Capped = true
			return
		}
		o := base
		o.Choices = prefix
		w := mk()
		tr := Run(b, w, o)
		st.Runs++
		st.Transitions += len(tr.Cycles) - min(len(prefix), len(tr.Cycles))
		if len(tr.Cycles) > st.MaxDepth {
			st.MaxDepth = len(tr.Cycles)
		}
		visit(tr, w)
		if !OrderControlled {
			return
		}
		for i := len(prefix); i < len(tr.Cycles); i++ {
			c := tr.Cycles[i]
			if seen[c.Key] {
				break
			}
			seen[c.Key] = true
			st.States++
			if i >= len(tr.NAlts) {
				break
			}
			for alt := 1; alt < tr.NAlts[i]; alt++ {
				np := append(append([]int{}, tr.Choices[:i]...), alt)
				rec(np)
			}
		}
	}
	rec(nil)
}

// ---------- helpers for alphabets ----------

// Sal returns saliences sorted descending unique (debug helper).
func SortedNames(m map[string]bool) []string {
	var s []string
	for k := range m {
		s = append(s, k)
	}
	sort.Strings(s)
	return s
}

var _ = facts.New
var _ = grl.I

// RunPlain executes without any listener (and without monitor) under the given order choices.
func RunPlain(b *Built, w *ref.World, opts RunOpts) (err error, final string, panicked interface{}) {
	kb, ierr := b.Instance()
	if ierr != nil {
		return ierr, "", nil
	}
	dc, derr := NewDataContext(w)
	if derr != nil {
		return derr, "", nil
	}
	eng := &engine.GruleEngine{MaxCycle: opts.MaxCycle, ReturnErrOnFailedRuleEvaluation: opts.ReturnErr}
	hook := 0
	setChooser(kb.RuleEntries, func(keys []string) []int {
		ch := 0
		if hook < len(opts.Choices) {
			ch = opts.Choices[hook]
		}
		hook++
		return permOf(len(keys), ch)
	})
	defer setChooser(kb.RuleEntries, nil)
	func() {
		defer func() {
			if r := recover(); r != nil {
				panicked = r
			}
		}()
		err = eng.Execute(dc, kb)
	}()
	return err, Live(w, dc).Dump(), panicked
}

// FetchResult is the outcome of one FetchMatchingRules call.
type FetchResult struct {
	Names  []string
	Sals   []int
	Err    error
	Panic  interface{}
	Choice int
	NAlt   int
}

// Fetch calls FetchMatchingRules on kb with the rule order given by choice.
func Fetch(kb *ast.KnowledgeBase, w *ref.World, returnErr bool, choice int) *FetchResult {
	res := &FetchResult{}
	dc, err := NewDataContext(w)
	if err != nil {
		res.Err = err
		return res
	}
	eng := &engine.GruleEngine{MaxCycle: 10, ReturnErrOnFailedRuleEvaluation: returnErr}
	setChooser(kb.RuleEntries, func(keys []string) []int {
		res.NAlt = NPerms(len(keys))
		if choice >= res.NAlt {
			panic("hx.Fetch: order choice out of range")
		}
		res.Choice = choice
		return permOf(len(keys), choice)
	})
	defer setChooser(kb.RuleEntries, nil)
	func() {
		defer func() {
			if r := recover(); r != nil {
				res.Panic = r
			}
		}()
		var rs []*ast.RuleEntry
		rs, res.Err = eng.FetchMatchingRules(dc, kb)
		for _, r := range rs {
			res.Names = append(res.Names, r.RuleName)
			res.Sals = append(res.Sals, r.Salience)
		}
	}()
	return res
}

// FetchOn calls FetchMatchingRules of the GIVEN engine value (several calls may share it) and returns the
// slice exactly as the engine returned it; onProbe is called at every probe invocation of the world's facts.
func FetchOn(eng *engine.GruleEngine, kb *ast.KnowledgeBase, w *ref.World, choice int, onProbe func(kind string, id int64, n int)) (rs []*ast.RuleEntry, err error, panicked interface{}) {
	dc, derr := NewDataContext(w)
	if derr != nil {
		return nil, derr, nil
	}
	for _, f := range w.Objs {
		f.H().OnProbe = onProbe
	}
	setChooser(kb.RuleEntries, func(keys []string) []int {
		np := NPerms(len(keys))
		ch := choice
		if ch >= np {
			ch = np - 1
		}
		return permOf(len(keys), ch)
	})
	defer setChooser(kb.RuleEntries, nil)
	func() {
		defer func() {
			if r := recover(); r != nil {
				panicked = r
			}
		}()
		rs, err = eng.FetchMatchingRules(dc, kb)
	}()
	return rs, err, panicked
}

// PollCtx is a context whose Err() counts polls and flips to Cause at poll FlipAt (1-based).
// FlipAt == 0: never flips by itself (use Cancel()).
type PollCtx struct {
	FlipAt  int
	Cause   error
	Polls   int
	flipped bool
	done    chan struct{}
	OnFlip  func()
	// DeadlineAt, if set, is what Deadline() reports (a context WITH a deadline that is cancelled
	// before the deadline arrives; the harness never waits for it)
	DeadlineAt time.Time
	// Inner, if set, is a standard-library context created with a custom CAUSE (context.WithCancelCause): the
	// PollCtx cancels it with that cause when it flips and answers Value() through it, so context.Cause(ctx)
	// yields the custom cause while Err() stays the context's error
	Inner       context.Context
	CancelInner context.CancelCauseFunc
}

// WithCustomCause attaches a standard cancel-cause context to c.
func (c *PollCtx) WithCustomCause() *PollCtx {
	c.Inner, c.CancelInner = context.WithCancelCause(context.Background())
	return c
}

func NewPollCtx(flipAt int, cause error) *PollCtx {
	if cause == nil {
		cause = context.Canceled
	}
	return &PollCtx{FlipAt: flipAt, Cause: cause, done: make(chan struct{})}
}

func (c *PollCtx) Deadline() (time.Time, bool) { return c.DeadlineAt, !c.DeadlineAt.IsZero() }
func (c *PollCtx) Done() <-chan struct{}       { return c.done }
func (c *PollCtx) Value(key interface{}) interface{} {
	if c.Inner != nil {
		return c.Inner.Value(key)
	}
	return nil
}
func (c *PollCtx) Flipped() bool { return c.flipped }

// Cancel flips the context now.
func (c *PollCtx) Cancel() {
	if !c.flipped {
		c.flipped = true
		if c.CancelInner != nil {
			c.CancelInner(errors.New("custom cause given to the cancel function"))
		}
		close(c.done)
		if c.OnFlip != nil {
			c.OnFlip()
		}
	}
}

func (c *PollCtx) Err() error {
	if !c.flipped {
		c.Polls++
		if c.FlipAt > 0 && c.Polls >= c.FlipAt {
			c.Cancel()
		}
	}
	if c.flipped {
		return c.Cause
	}
	return nil
}
