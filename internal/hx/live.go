package hx

import (
	"fmt"
	"sort"
	"strings"
	"sync"

	"verif/internal/facts"
	"verif/internal/grl"
	"verif/internal/ref"
)

var (
	liveOnce sync.Once
	live     bool
	probing  bool
)

// OrderLive reports whether the rule-order hook really decides the engine's evaluation order on THIS tree:
// a two-rule program is run under both order choices and must report its evaluations accordingly. When the
// engine no longer ranges over RuleEntries in a form the instrumenter recognises, the hook is dead: orders
// are then not enumerated (NPerms = 1), evidence says order_controlled=false, and differential comparisons
// use CanonEvents (evaluation order inside a cycle ignored) - never an alarm.
func OrderLive() bool {
	liveOnce.Do(func() {
		if !OrderControlled {
			return
		}
		probing = true
		defer func() { probing = false }()
		rules := []*grl.Rule{grl.R("pa", nil, "F.I < 0", "F.I = 1"), grl.R("pb", nil, "F.I < 0", "F.I = 1")}
		b, err := Build(NewProgram(rules, grl.Style{}))
		if err != nil {
			return
		}
		first := func(choice int) string {
			w := ref.NewWorld()
			w.Objs["F"] = facts.New()
			tr := Run(b, w, RunOpts{MaxCycle: 2, Choices: []int{choice}, NoSnapshots: true})
			for _, e := range tr.Events {
				if strings.HasPrefix(e, "V1:") {
					return e
				}
			}
			return ""
		}
		a, c := first(0), first(1)
		live = a != "" && c != "" && a != c && first(0) == a && first(1) == c
		if !live {
			fmt.Println("NOTE: the rule-order hook is not live on this tree (the engine does not iterate RuleEntries in a form the instrumenter recognises): rule orders are NOT enumerated, differential comparisons ignore the evaluation order inside a cycle; evidence records order_controlled=false")
		}
	})
	return live
}

// CanonEvents returns the event log as is while the order hook is live; otherwise the evaluation events of
// each cycle are sorted (their order is then the Go runtime's choice and carries no meaning).
func CanonEvents(events []string) []string {
	if OrderLive() {
		return events
	}
	out := append([]string{}, events...)
	// the evaluation phase of a cycle: everything after "B<n>" up to the next X / B / ret / FLIP event
	i := 0
	for i < len(out) {
		if len(out[i]) > 1 && out[i][0] == 'B' && out[i][1] >= '0' && out[i][1] <= '9' {
			j := i + 1
			for j < len(out) && !isPhaseEnd(out[j]) {
				j++
			}
			sort.Strings(out[i+1 : j])
			i = j
		} else {
			i++
		}
	}
	return out
}

func isPhaseEnd(e string) bool {
	if strings.HasPrefix(e, "ret:") || e == "FLIP" {
		return true
	}
	return len(e) > 1 && (e[0] == 'B' || e[0] == 'X') && e[1] >= '0' && e[1] <= '9'
}

// Evs renders an event log for differential comparison (see CanonEvents).
func Evs(events []string) string { return strings.Join(CanonEvents(events), " ") }
