// Package hx is the shared harness: it builds knowledge bases from mini-GRL rule sets, runs the
// real engine under a controlled rule order with a lockstep monitor that evaluates the reference
// model at every listener callback, and explores order choices with explicit state bookkeeping.
package hx

import (
	"bytes"
	"encoding/json"
	"fmt"
	"sort"
	"strings"
	"sync"

	"github.com/hyperjumptech/grule-rule-engine/ast"
	"github.com/hyperjumptech/grule-rule-engine/builder"
	"github.com/hyperjumptech/grule-rule-engine/pkg"

	"verif/internal/grl"
)

// Program is a rule set plus the text it was built from.
type Program struct {
	Rules  []*grl.Rule
	Text   string
	ByName map[string]*grl.Rule
	Names  []string // sorted
}

func NewProgram(rules []*grl.Rule, st grl.Style) *Program {
	p := &Program{Rules: rules, Text: grl.PrintRules(rules, st), ByName: map[string]*grl.Rule{}}
	for _, r := range rules {
		p.ByName[r.Name] = r
		p.Names = append(p.Names, r.Name)
	}
	sort.Strings(p.Names)
	return p
}

// Built is a library holding the program as knowledge base KB/1.
type Built struct {
	Lib     *ast.KnowledgeLibrary
	Prog    *Program
	cloneMu sync.Mutex
}

const KBName, KBVer = "KB", "1"

// BuildText builds GRL text into a fresh library (one resource).
func BuildText(text string) (*ast.KnowledgeLibrary, error) {
	lib := ast.NewKnowledgeLibrary()
	rb := builder.NewRuleBuilder(lib)
	var err error
	func() {
		defer func() {
			if r := recover(); r != nil {
				err = fmt.Errorf("builder panic: %v", r)
			}
		}()
		err = rb.BuildRuleFromResource(KBName, KBVer, pkg.NewBytesResource([]byte(text)))
	}()
	return lib, err
}

func Build(p *Program) (*Built, error) {
	lib, err := BuildText(p.Text)
	if err != nil {
		return nil, fmt.Errorf("build failed: %w\n%s", err, p.Text)
	}
	return &Built{Lib: lib, Prog: p}, nil
}

// BuildSplit builds the program one resource per rule (in declaration order, or reversed): nodes of
// later rules meet a working memory that already holds - and has indexed - the earlier rules' nodes.
func BuildSplit(p *Program, st grl.Style, reversed bool) (*Built, error) {
	lib := ast.NewKnowledgeLibrary()
	rb := builder.NewRuleBuilder(lib)
	rules := append([]*grl.Rule{}, p.Rules...)
	if reversed {
		for i, j := 0, len(rules)-1; i < j; i, j = i+1, j-1 {
			rules[i], rules[j] = rules[j], rules[i]
		}
	}
	for _, r := range rules {
		text := grl.PrintRules([]*grl.Rule{r}, st)
		var err error
		func() {
			defer func() {
				if rec := recover(); rec != nil {
					err = fmt.Errorf("builder panic: %v", rec)
				}
			}()
			err = rb.BuildRuleFromResource(KBName, KBVer, pkg.NewBytesResource([]byte(text)))
		}()
		if err != nil {
			return nil, fmt.Errorf("build (one resource per rule) failed at %s: %w", r.Name, err)
		}
	}
	return &Built{Lib: lib, Prog: p}, nil
}

// BuildJSON builds the program from its JSON form (one JSON rule set; conditions and actions as plain strings,
// name / description / salience as members): the rules reach the builder through the JSON translator.
func BuildJSON(p *Program, st grl.Style) (*Built, error) {
	var rs []map[string]interface{}
	for _, r := range p.Rules {
		m := map[string]interface{}{"name": r.Name, "when": grl.Print(r.When, st)}
		if r.Desc != "" {
			m["desc"] = r.Desc
		}
		if r.HasSal {
			m["salience"] = r.Sal
		}
		var then []interface{}
		for _, a := range r.Then {
			then = append(then, strings.TrimSuffix(strings.TrimSpace(grl.PrintAction(a, st)), ";"))
		}
		m["then"] = then
		rs = append(rs, m)
	}
	js, err := json.Marshal(rs)
	if err != nil {
		return nil, err
	}
	res, err := pkg.NewJSONResourceFromResource(pkg.NewBytesResource(js))
	if err != nil {
		return nil, err
	}
	lib := ast.NewKnowledgeLibrary()
	var berr error
	func() {
		defer func() {
			if rec := recover(); rec != nil {
				berr = fmt.Errorf("builder panic: %v", rec)
			}
		}()
		berr = builder.NewRuleBuilder(lib).BuildRuleFromResource(KBName, KBVer, res)
	}()
	if berr != nil {
		return nil, fmt.Errorf("build from the JSON form failed: %w\n%s", berr, js)
	}
	return &Built{Lib: lib, Prog: p}, nil
}

// Reloaded stores the knowledge base in binary form and loads it into a fresh library: the
// working-memory index maps are rebuilt by the loader, not by the builder.
func (b *Built) Reloaded() (*Built, error) {
	var buf bytes.Buffer
	if err := b.Lib.StoreKnowledgeBaseToWriter(&buf, KBName, KBVer); err != nil {
		return nil, fmt.Errorf("store: %w", err)
	}
	lib := ast.NewKnowledgeLibrary()
	if _, err := lib.LoadKnowledgeBaseFromReader(bytes.NewReader(buf.Bytes()), true); err != nil {
		return nil, fmt.Errorf("load: %w", err)
	}
	return &Built{Lib: lib, Prog: b.Prog}, nil
}

func (b *Built) Instance() (*ast.KnowledgeBase, error) {
	return b.Lib.NewKnowledgeBaseInstance(KBName, KBVer)
}

// CloneOrders is the number of orders in which NewKnowledgeBaseInstance can visit the rules of
// the blueprint (k! for k <= MaxPermRules rules, else 1 = sorted order only).
func (b *Built) CloneOrders() int {
	if !OrderControlled {
		return 1
	}
	bp := b.Lib.GetKnowledgeBase(KBName, KBVer)
	if n := len(bp.RuleEntries); n <= MaxPermRules {
		return NPerms(n)
	}
	return 1
}

// InstanceOrd creates an instance whose rules are cloned in the ord-th permutation of the sorted
// rule keys (0 = sorted; what the Go runtime's random map order decides in production).
func (b *Built) InstanceOrd(ord int) (*ast.KnowledgeBase, error) {
	if ord == 0 || !OrderControlled {
		return b.Instance()
	}
	bp := b.Lib.GetKnowledgeBase(KBName, KBVer)
	b.cloneMu.Lock()
	defer b.cloneMu.Unlock()
	setCloneChooser(bp.RuleEntries, func(keys []string) []int { return permOf(len(keys), ord) })
	defer setCloneChooser(bp.RuleEntries, nil)
	return b.Lib.NewKnowledgeBaseInstance(KBName, KBVer)
}
