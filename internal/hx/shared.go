package hx

import (
	"context"
	"sync"

	"github.com/hyperjumptech/grule-rule-engine/ast"
	"github.com/hyperjumptech/grule-rule-engine/engine"
)

// SharedEngine is ONE *engine.GruleEngine value used by several runs that overlap in time (a run started
// from inside a fact method of another run, or runs of several goroutines). The engine's single listener
// forwards every callback to the monitor of the run whose token travels in the context.
type SharedEngine struct {
	Eng  *engine.GruleEngine
	mu   sync.Mutex
	mons map[*int]engine.GruleEngineListener
}

type runTokenKey struct{}

func NewSharedEngine(maxCycle uint64, returnErr bool) *SharedEngine {
	s := &SharedEngine{mons: map[*int]engine.GruleEngineListener{}}
	s.Eng = &engine.GruleEngine{MaxCycle: maxCycle, ReturnErrOnFailedRuleEvaluation: returnErr}
	s.Eng.Listeners = []engine.GruleEngineListener{s}
	return s
}

// Enter registers l for a new run and returns the context that run must be executed with.
func (s *SharedEngine) Enter(ctx context.Context, l engine.GruleEngineListener) (context.Context, func()) {
	tok := new(int)
	s.mu.Lock()
	s.mons[tok] = l
	s.mu.Unlock()
	return context.WithValue(ctx, runTokenKey{}, tok), func() {
		s.mu.Lock()
		delete(s.mons, tok)
		s.mu.Unlock()
	}
}

func (s *SharedEngine) of(ctx context.Context) engine.GruleEngineListener {
	tok, _ := ctx.Value(runTokenKey{}).(*int)
	s.mu.Lock()
	defer s.mu.Unlock()
	return s.mons[tok]
}

func (s *SharedEngine) BeginCycle(ctx context.Context, c uint64) {
	if l := s.of(ctx); l != nil {
		l.BeginCycle(ctx, c)
	}
}
func (s *SharedEngine) EvaluateRuleEntry(ctx context.Context, c uint64, e *ast.RuleEntry, cand bool) {
	if l := s.of(ctx); l != nil {
		l.EvaluateRuleEntry(ctx, c, e, cand)
	}
}
func (s *SharedEngine) ExecuteRuleEntry(ctx context.Context, c uint64, e *ast.RuleEntry) {
	if l := s.of(ctx); l != nil {
		l.ExecuteRuleEntry(ctx, c, e)
	}
}
