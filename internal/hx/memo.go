package hx

import (
	"fmt"
	"reflect"
	"sort"
	"strings"

	"github.com/hyperjumptech/grule-rule-engine/ast"

	"verif/internal/ref"
)

// skipFields are fields the graph walk does not descend into (values and back references).
var skipFields = map[string]bool{"Value": true, "ValueNode": true, "DataContext": true, "WorkingMemory": true, "lock": true}

// Node is one AST node met by the walk.
type Node struct {
	Ptr  uintptr
	Val  reflect.Value // the struct (addressable through pointer)
	Type string
}

// WalkGraph visits every struct reachable from root through exported pointer/slice/map fields
// (deterministic order: struct field order, slice order, sorted map keys), each once.
func WalkGraph(root reflect.Value, visit func(n Node)) {
	seen := map[uintptr]bool{}
	var walk func(v reflect.Value)
	walk = func(v reflect.Value) {
		switch v.Kind() {
		case reflect.Ptr:
			if v.IsNil() {
				return
			}
			if v.Elem().Kind() != reflect.Struct {
				return
			}
			p := v.Pointer()
			if seen[p] {
				return
			}
			seen[p] = true
			visit(Node{Ptr: p, Val: v.Elem(), Type: v.Elem().Type().Name()})
			walk(v.Elem())
		case reflect.Interface:
			if !v.IsNil() {
				walk(v.Elem())
			}
		case reflect.Struct:
			t := v.Type()
			for i := 0; i < t.NumField(); i++ {
				f := t.Field(i)
				if !f.IsExported() || skipFields[f.Name] {
					continue
				}
				walk(v.Field(i))
			}
		case reflect.Slice, reflect.Array:
			for i := 0; i < v.Len(); i++ {
				walk(v.Index(i))
			}
		case reflect.Map:
			keys := v.MapKeys()
			if v.Type().Key().Kind() == reflect.String {
				sort.Slice(keys, func(i, j int) bool { return keys[i].String() < keys[j].String() })
			}
			for _, k := range keys {
				walk(v.MapIndex(k))
			}
		}
	}
	walk(root)
}

// SortedEntries returns the rule entries in a run-independent order (live rules by name, then
// tombstones by their GRL text; tombstone keys contain random uuids and are not used).
func SortedEntries(kb *ast.KnowledgeBase) []*ast.RuleEntry {
	es := make([]*ast.RuleEntry, 0, len(kb.RuleEntries))
	for _, e := range kb.RuleEntries {
		es = append(es, e)
	}
	key := func(e *ast.RuleEntry) string {
		if e.Deleted {
			return "1" + e.GrlText
		}
		return "0" + e.RuleName
	}
	sort.SliceStable(es, func(i, j int) bool { return key(es[i]) < key(es[j]) })
	return es
}

// MemoSet is the list of memo cells (Evaluated flag + remembered value) of one instance,
// collected once (the graph's shape does not change during a run) in deterministic order.
type MemoSet struct {
	kb   *ast.KnowledgeBase
	es   []*ast.RuleEntry
	evs  []*bool
	vals []*reflect.Value
}

func NewMemoSet(kb *ast.KnowledgeBase) *MemoSet {
	ms := &MemoSet{kb: kb, es: SortedEntries(kb)}
	WalkGraph(reflect.ValueOf(ms.es), func(n Node) {
		ev := n.Val.FieldByName("Evaluated")
		if !ev.IsValid() || ev.Kind() != reflect.Bool || !ev.CanAddr() {
			return
		}
		val := n.Val.FieldByName("Value")
		var vp *reflect.Value
		if val.IsValid() && val.CanAddr() {
			if p, ok := val.Addr().Interface().(*reflect.Value); ok {
				vp = p
			}
		}
		ms.evs = append(ms.evs, ev.Addr().Interface().(*bool))
		ms.vals = append(ms.vals, vp)
	})
	return ms
}

// Dump renders retract/delete flags and the memo state.
func (ms *MemoSet) Dump() string {
	var b strings.Builder
	for _, re := range ms.es {
		name := re.RuleName
		if re.Deleted {
			name = "<deleted>"
		}
		fmt.Fprintf(&b, "R[%s r=%v d=%v]", name, re.Retracted, re.Deleted)
	}
	b.WriteString("|")
	for i, ev := range ms.evs {
		if !*ev {
			b.WriteString("-")
			continue
		}
		s := "?"
		if ms.vals[i] != nil {
			s = ref.FromReflect(*ms.vals[i]).String()
		}
		fmt.Fprintf(&b, "[%d=%s]", i, s)
	}
	return b.String()
}

// NCells returns the number of memo cells.
func (ms *MemoSet) NCells() int { return len(ms.evs) }

// MemoDump is a one-shot MemoSet dump.
func MemoDump(kb *ast.KnowledgeBase) string { return NewMemoSet(kb).Dump() }
