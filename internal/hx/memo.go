package hx

import (
	"fmt"
	"reflect"
	"sort"
	"strings"

	"github.com/hyperjumptech/grule-rule-engine/ast"

	"verif/internal/ref"
)

// skipFields are fields the graph walk does not descend into (values and back references).
var skipFields = map[string]bool{"Value": true, "ValueNode": true, "DataContext": true, "WorkingMemory": true, "lock": true}

// Node is one AST node met by the walk.
type Node struct {
	Ptr  uintptr
	Val  reflect.Value // the struct (addressable through pointer)
	Type string
}

// WalkGraph visits every struct reachable from root through exported pointer/slice/map fields
// (deterministic order: struct field order, slice order, sorted map keys), each once.
func WalkGraph(root reflect.Value, visit func(n Node)) {
	seen := map[uintptr]bool{}
	var walk func(v reflect.Value)
	walk = func(v reflect.Value) {
		switch v.Kind() {
		case reflect.Ptr:
			if v.IsNil() {
				return
			}
			if v.Elem().Kind() != reflect.Struct {
				return
			}
			p := v.Pointer()
			if seen[p] {
				return
			}
			seen[p] = true
			visit(Node{Ptr: p, Val: v.Elem(), Type: v.Elem().Type().Name()})
			walk(v.Elem())
		case reflect.Interface:
			if !v.IsNil() {
				walk(v.Elem())
			}
		case reflect.Struct:
			t := v.Type()
			for i := 0; i < t.NumField(); i++ {
				f := t.Field(i)
				if !f.IsExported() || skipFields[f.Name] {
					continue
				}
				walk(v.Field(i))
			}
		case reflect.Slice, reflect.Array:
			for i := 0; i < v.Len(); i++ {
				walk(v.Index(i))
			}
		case reflect.Map:
			keys := v.MapKeys()
			if v.Type().Key().Kind() == reflect.String {
				sort.Slice(keys, func(i, j int) bool { return keys[i].String() < keys[j].String() })
			}
			for _, k := range keys {
				walk(v.MapIndex(k))
			}
		}
	}
	walk(root)
}

// SortedEntries returns the rule entries in a run-independent order (live rules by name, then
// tombstones by their GRL text; tombstone keys contain random uuids and are not used).
func SortedEntries(kb *ast.KnowledgeBase) []*ast.RuleEntry {
	es := make([]*ast.RuleEntry, 0, len(kb.RuleEntries))
	for _, e := range kb.RuleEntries {
		es = append(es, e)
	}
	key := func(e *ast.RuleEntry) string {
		if e.Deleted {
			return "1" + e.GrlText
		}
		return "0" + e.RuleName
	}
	sort.SliceStable(es, func(i, j int) bool { return key(es[i]) < key(es[j]) })
	return es
}

// MemoSet is the list of memo cells (Evaluated flag + remembered value) of one instance,
// collected once (the graph's shape does not change during a run) in deterministic order.
type MemoSet struct {
	kb   *ast.KnowledgeBase
	es   []*ast.RuleEntry
	evs  []*bool
	vals []*reflect.Value
}

func NewMemoSet(kb *ast.KnowledgeBase) *MemoSet {
	ms := &MemoSet{kb: kb, es: SortedEntries(kb)}
	WalkGraph(reflect.ValueOf(ms.es), func(n Node) {
		ev := n.Val.FieldByName("Evaluated")
		if !ev.IsValid() || ev.Kind() != reflect.Bool || !ev.CanAddr() {
			return
		}
		val := n.Val.FieldByName("Value")
		var vp *reflect.Value
		if val.IsValid() && val.CanAddr() {
			if p, ok := val.Addr().Interface().(*reflect.Value); ok {
				vp = p
			}
		}
		ms.evs = append(ms.evs, ev.Addr().Interface().(*bool))
		ms.vals = append(ms.vals, vp)
	})
	return ms
}

// Dump renders retract/delete flags and the memo state.
func (ms *MemoSet) Dump() string {
	var b strings.Builder
	for _, re := range ms.es {
		name := re.RuleName
		if re.Deleted {
			name = "<deleted>"
		}
		fmt.Fprintf(&b, "R[%s r=%v d=%v]", name, re.Retracted, re.Deleted)
	}
	b.WriteString("|")
	for i, ev := range ms.evs {
		if !*ev {
			b.WriteString("-")
			continue
		}
		s := "?"
		if ms.vals[i] != nil {
			s = ref.FromReflect(*ms.vals[i]).String()
		}
		fmt.Fprintf(&b, "[%d=%s]", i, s)
	}
	return b.String()
}

// NCells returns the number of memo cells.
func (ms *MemoSet) NCells() int { return len(ms.evs) }

// MemoDump is a one-shot MemoSet dump.
func MemoDump(kb *ast.KnowledgeBase) string { return NewMemoSet(kb).Dump() }

// ShapeSig renders the node graph of an instance up to isomorphism: nodes are numbered in the
// order of a deterministic walk from the rule entries (sorted by name), every reference is
// rendered as the number of its target (so sharing is visible), scalar fields by value (the
// random AstID and the memo cells excluded), and the working memory's registration maps by the
// numbers of the nodes they hold ("?" for a node no rule reaches). Two instances with the same
// signature have the same futures: the engine's behaviour is a function of this graph, the facts
// and the iteration orders the harness controls. Used to skip clone orders that produce an
// instance isomorphic to one already explored.
func ShapeSig(kb *ast.KnowledgeBase) string {
	ids := map[uintptr]int{}
	var b strings.Builder
	var walk func(v reflect.Value)
	walk = func(v reflect.Value) {
		switch v.Kind() {
		case reflect.Ptr:
			if v.IsNil() {
				b.WriteString("nil")
				return
			}
			if v.Elem().Kind() != reflect.Struct {
				b.WriteString("*")
				return
			}
			p := v.Pointer()
			if id, ok := ids[p]; ok {
				fmt.Fprintf(&b, "#%d", id)
				return
			}
			ids[p] = len(ids)
			fmt.Fprintf(&b, "%d:%s{", ids[p], v.Elem().Type().Name())
			walk(v.Elem())
			b.WriteString("}")
		case reflect.Interface:
			if v.IsNil() {
				b.WriteString("nil")
			} else {
				walk(v.Elem())
			}
		case reflect.Struct:
			t := v.Type()
			if t.PkgPath() == "reflect" || t.PkgPath() == "sync" || t.PkgPath() == "time" {
				return
			}
			for i := 0; i < t.NumField(); i++ {
				f := t.Field(i)
				if !f.IsExported() || skipFields[f.Name] || f.Name == "AstID" || f.Name == "Evaluated" {
					continue
				}
				b.WriteString(f.Name)
				b.WriteString("=")
				walk(v.Field(i))
				b.WriteString(";")
			}
		case reflect.Slice, reflect.Array:
			b.WriteString("[")
			for i := 0; i < v.Len(); i++ {
				walk(v.Index(i))
				b.WriteString(",")
			}
			b.WriteString("]")
		case reflect.Map:
			keys := v.MapKeys()
			if v.Type().Key().Kind() == reflect.String {
				sort.Slice(keys, func(i, j int) bool { return keys[i].String() < keys[j].String() })
			}
			b.WriteString("{")
			for _, k := range keys {
				fmt.Fprintf(&b, "%q:", k.String())
				walk(v.MapIndex(k))
				b.WriteString(",")
			}
			b.WriteString("}")
		case reflect.String:
			fmt.Fprintf(&b, "%q", v.String())
		case reflect.Bool:
			fmt.Fprintf(&b, "%v", v.Bool())
		case reflect.Int, reflect.Int8, reflect.Int16, reflect.Int32, reflect.Int64:
			fmt.Fprintf(&b, "%d", v.Int())
		case reflect.Uint, reflect.Uint8, reflect.Uint16, reflect.Uint32, reflect.Uint64:
			fmt.Fprintf(&b, "%d", v.Uint())
		case reflect.Float32, reflect.Float64:
			fmt.Fprintf(&b, "%v", v.Float())
		}
	}
	for _, e := range SortedEntries(kb) {
		name := e.RuleName
		if e.Deleted {
			name = "<deleted>"
		}
		fmt.Fprintf(&b, "RULE %s ", name)
		// the tombstone's random name is a scalar field of the entry: render entries field-wise without it
		ev := reflect.ValueOf(e)
		p := ev.Pointer()
		ids[p] = len(ids)
		t := ev.Elem().Type()
		for i := 0; i < t.NumField(); i++ {
			f := t.Field(i)
			// the entry's own text and description do not influence any run (the JSON translator spells them differently)
			if !f.IsExported() || skipFields[f.Name] || f.Name == "AstID" || f.Name == "RuleName" || f.Name == "GrlText" || f.Name == "RuleDescription" {
				continue
			}
			b.WriteString(f.Name)
			b.WriteString("=")
			walk(ev.Elem().Field(i))
			b.WriteString(";")
		}
		b.WriteString("\n")
	}
	// working-memory registration (unexported maps, read through reflection; pointer identity only)
	idOf := func(v reflect.Value) string {
		if v.Kind() != reflect.Ptr || v.IsNil() {
			return "nil"
		}
		if id, ok := ids[v.Pointer()]; ok {
			return fmt.Sprintf("#%d", id)
		}
		return "?"
	}
	if kb.WorkingMemory != nil {
		wm := reflect.ValueOf(kb.WorkingMemory).Elem()
		for _, mn := range []string{"expressionSnapshotMap", "expressionAtomSnapshotMap", "variableSnapshotMap"} {
			m := wm.FieldByName(mn)
			if !m.IsValid() || m.Kind() != reflect.Map {
				continue
			}
			keys := m.MapKeys()
			sort.Slice(keys, func(i, j int) bool { return keys[i].String() < keys[j].String() })
			fmt.Fprintf(&b, "WM.%s{", mn)
			for _, k := range keys {
				fmt.Fprintf(&b, "%q:%s,", k.String(), idOf(m.MapIndex(k)))
			}
			b.WriteString("}\n")
		}
		for _, mn := range []string{"expressionVariableMap", "expressionAtomVariableMap"} {
			m := wm.FieldByName(mn)
			if !m.IsValid() || m.Kind() != reflect.Map {
				continue
			}
			var rows []string
			for _, k := range m.MapKeys() {
				var deps []string
				sl := m.MapIndex(k)
				for i := 0; i < sl.Len(); i++ {
					deps = append(deps, idOf(sl.Index(i)))
				}
				sort.Strings(deps)
				rows = append(rows, idOf(k)+"->"+strings.Join(deps, " "))
			}
			sort.Strings(rows)
			fmt.Fprintf(&b, "WM.%s{%s}\n", mn, strings.Join(rows, "; "))
		}
	}
	return b.String()
}
