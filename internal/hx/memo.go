package hx

import (
	"fmt"
	"reflect"
	"sort"
	"strings"

	"github.com/hyperjumptech/grule-rule-engine/ast"

	"verif/internal/ref"
)

// skipFields are fields the graph walk does not descend into (values and back references).
var skipFields = map[string]bool{"Value": true, "ValueNode": true, "DataContext": true, "WorkingMemory": true, "lock": true}

// Node is one AST node met by the walk.
type Node struct {
	Ptr  uintptr
	Val  reflect.Value // the struct (addressable through pointer)
	Type string
}

// WalkGraph visits every struct reachable from root through exported pointer/slice/map fields
// (deterministic order: struct field order, slice order, sorted map keys), each once.
func WalkGraph(root reflect.Value, visit func(n Node)) {
	seen := map[uintptr]bool{}
	var walk func(v reflect.Value)
	walk = func(v reflect.Value) {
		switch v.Kind() {
		case reflect.Ptr:
			if v.IsNil() {
				return
			}
			if v.Elem().Kind() != reflect.Struct {
				return
			}
			p := v.Pointer()
			if seen[p] {
				return
			}
			seen[p] = true
			visit(Node{Ptr: p, Val: v.Elem(), Type: v.Elem().Type().Name()})
			walk(v.Elem())
		case reflect.Interface:
			if !v.IsNil() {
				walk(v.Elem())
			}
		case reflect.Struct:
			t := v.Type()
			for i := 0; i < t.NumField(); i++ {
				f := t.Field(i)
				if !f.IsExported() || skipFields[f.Name] {
					continue
				}
				walk(v.Field(i))
			}
		case reflect.Slice, reflect.Array:
			for i := 0; i < v.Len(); i++ {
				walk(v.Index(i))
			}
		case reflect.Map:
			keys := v.MapKeys()
			if v.Type().Key().Kind() == reflect.String {
				sort.Slice(keys, func(i, j int) bool { return keys[i].String() < keys[j].String() })
			}
			for _, k := range keys {
				walk(v.MapIndex(k))
			}
		}
	}
	walk(root)
}

// SortedEntries returns the rule entries in a run-independent order (live rules by name, then
// tombstones by their GRL text; tombstone keys contain random uuids and are not used).
func SortedEntries(kb *ast.KnowledgeBase) []*ast.RuleEntry {
	es := make([]*ast.RuleEntry, 0, len(kb.RuleEntries))
	for _, e := range kb.RuleEntries {
		es = append(es, e)
	}
	key := func(e *ast.RuleEntry) string {
		if e.Deleted {
			return "1" + e.GrlText
		}
		return "0" + e.RuleName
	}
	sort.SliceStable(es, func(i, j int) bool { return key(es[i]) < key(es[j]) })
	return es
}

// MemoDump renders retract/delete flags and the memo state (Evaluated + remembered value) of
// every Expression / ExpressionAtom reachable from the knowledge base's rule entries.
func MemoDump(kb *ast.KnowledgeBase) string {
	var b strings.Builder
	es := SortedEntries(kb)
	for _, re := range es {
		name := re.RuleName
		if re.Deleted {
			name = "<deleted>"
		}
		fmt.Fprintf(&b, "R[%s r=%v d=%v]", name, re.Retracted, re.Deleted)
	}
	b.WriteString("|")
	idx := 0
	WalkGraph(reflect.ValueOf(es), func(n Node) {
		ev := n.Val.FieldByName("Evaluated")
		if !ev.IsValid() || ev.Kind() != reflect.Bool {
			return
		}
		idx++
		if !ev.Bool() {
			b.WriteString("-")
			return
		}
		val := n.Val.FieldByName("Value")
		s := "?"
		if val.IsValid() {
			if rv, ok := val.Interface().(reflect.Value); ok {
				s = ref.FromReflect(rv).String()
			}
		}
		fmt.Fprintf(&b, "[%d=%s]", idx, s)
	})
	return b.String()
}
