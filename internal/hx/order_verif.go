//go:build verif

package hx

import (
	"strings"
	"sync/atomic"

	"github.com/hyperjumptech/grule-rule-engine/verifhook"
)

// OrderControlled reports whether the order hook is compiled in.
const OrderControlled = true

// setChooser: c decides the order of every range over the rule map m inside package engine (the
// evaluation loops of Execute and FetchMatchingRules); every other instrumented site sees sorted order.
func setChooser(m interface{}, c func(keys []string) []int) {
	if c == nil {
		verifhook.SetChooser(m, nil)
		return
	}
	verifhook.SetChooser(m, func(site string, keys []string) []int {
		if !strings.HasPrefix(site, "engine.") {
			return nil
		}
		return c(keys)
	})
}

// setCloneChooser: c decides the order in which KnowledgeBase.Clone visits the rules of blueprint map m.
func setCloneChooser(m interface{}, c func(keys []string) []int) {
	if c == nil {
		verifhook.SetChooser(m, nil)
		return
	}
	verifhook.SetChooser(m, func(site string, keys []string) []int {
		if !strings.HasPrefix(site, "ast.") {
			return nil
		}
		return c(keys)
	})
}

// HookCalls returns the number of Order invocations so far.
func HookCalls() uint64 { return verifhook.Calls }

// SetBlockFn installs the callback invoked while an instrumented lock cannot be taken (points build).
func SetBlockFn(f func(label string)) { verifhook.BlockFn = f }

// SetPointFn installs the yield-point callback (C09 build).
func SetPointFn(f func(label string)) { verifhook.PointFn = f }

// KeyHookCalls returns the number of Keys invocations (clone-order hook) so far.
func KeyHookCalls() uint64 { return atomic.LoadUint64(&verifhook.KeyCalls) }
