//go:build verif

package hx

import (
	"sync/atomic"

	"github.com/hyperjumptech/grule-rule-engine/verifhook"
)

// OrderControlled reports whether the order hook is compiled in.
const OrderControlled = true

func setChooser(m interface{}, c func(keys []string) []int) {
	if c == nil {
		verifhook.SetChooser(m, nil)
		return
	}
	verifhook.SetChooser(m, verifhook.Chooser(c))
}

// HookCalls returns the number of Order invocations so far.
func HookCalls() uint64 { return verifhook.Calls }

// SetPointFn installs the yield-point callback (C09 build).
func SetPointFn(f func(label string)) { verifhook.PointFn = f }

// KeyHookCalls returns the number of Keys invocations (clone-order hook) so far.
func KeyHookCalls() uint64 { return atomic.LoadUint64(&verifhook.KeyCalls) }
