package checks

import (
	"fmt"
	"strings"
	"time"

	"verif/internal/ev"
	"verif/internal/facts"
	"verif/internal/grl"
	"verif/internal/hx"
	"verif/internal/ref"
)

var c13Surround = []struct {
	name, cond string
	act        string // extra action ("" none)
}{
	{"alone", "F.Heavy(F.I) == %c", ""},
	{"and-left", "F.Heavy(F.I) == %c && F.B", ""},
	{"and-right", "F.B && F.Heavy(F.I) == %c", ""},
	{"or-right", "!F.B || F.Heavy(F.I) == %c", ""},
	{"arith", "F.Heavy(F.I) + 1 > %c", ""},
	{"method-arg", "F.Add(F.Heavy(F.I), 1) == %c + 1", ""},
	{"negated", "!(F.Heavy(F.I) != %c)", ""},
	{"action-rhs", "F.B", "F.In = F.Heavy(F.I)"},
	{"action-statement", "F.B", "F.Heavy(F.I)"},
}

var c13Inval = []struct {
	name  string
	rule  func() *grl.Rule
	inval bool
}{
	{"assign-arg", func() *grl.Rule { return grl.R("vAssign", grl.Sal(2), "F.I < 2", "F.I = F.I + 1") }, true},
	{"assign-similar-name", func() *grl.Rule { return grl.R("vOther", grl.Sal(2), "F.I2 < 2", "F.I2 = F.I2 + 1") }, false},
	{"bump+forget-var", func() *grl.Rule {
		return grl.R("vForget", grl.Sal(1), "G.I < 1", "F.Bump()", `Forget("F.I")`, "G.I = 1")
	}, true},
	{"forget-call-text", func() *grl.Rule {
		return grl.R("vForgetCall", grl.Sal(1), "G.I2 < 1", `Forget("F.Heavy(F.I)")`, "G.I2 = 1")
	}, true},
	{"changed-var", func() *grl.Rule { return grl.R("vChanged", nil, "G.K < 1", `Changed("F.I")`, "G.K = 1") }, true},
	{"assign-other-object", func() *grl.Rule { return grl.R("vG", nil, "G.I8 < 2", "G.I8 = G.I8 + 1") }, false},
	// element writes into containers of the SAME fact: the assigned variable (F.Arr[0], F.M["a"]) does not
	// occur in the call's receiver or arguments
	{"assign-slice-element-of-receiver-fact", func() *grl.Rule { return grl.R("vElem", grl.Sal(2), "F.Arr[0] < 2", "F.Arr[0] = F.Arr[0] + 1") }, false},
	{"assign-map-entry-of-receiver-fact", func() *grl.Rule { return grl.R("vEntry", grl.Sal(2), `F.M["a"] < 2`, `F.M["a"] = F.M["a"] + 1`) }, false},
	// assignments of pointer-, slice- and map-valued fields of ANOTHER fact (copied by reference: the target becomes an
	// alias of the source); no variable of the call is concerned
	{"assign-pointer-on-other-object", func() *grl.Rule { return grl.R("vPtr", grl.Sal(1), "G.I32 < 1", `G.P = G.MP["a"]`, "G.I32 = 1") }, false},
	{"assign-slice-on-other-object", func() *grl.Rule { return grl.R("vSlice", grl.Sal(1), "G.U8 < 1", "G.Arr = G.SelArr", "G.U8 = 1") }, false},
	{"assign-map-on-other-object", func() *grl.Rule { return grl.R("vMap", nil, "G.U16 < 1", "G.M = G.M", "G.U16 = 1") }, false},
	// rules whose condition FAILS in every cycle (a panicking user method, a nil pointer, an index out of
	// range): they are simply not candidates and concern no remembered value
	{"failing-condition-panicking-method", func() *grl.Rule { return grl.R("vBoom", grl.Sal(3), "G.Boom()", "G.I16 = 1") }, false},
	{"failing-condition-nil-pointer", func() *grl.Rule { return grl.R("vNil", grl.Sal(3), "G.P.V == 1", "G.I16 = 1") }, false},
	{"failing-condition-index", func() *grl.Rule { return grl.R("vIdx", nil, "G.Arr[9] == 1", "G.I16 = 1") }, false},
}

func judgeC13(c *Case, tr *hx.Trace, w *ref.World) []Verdict {
	var out []Verdict
	v := Verdict{}
	if tr.Panic != nil {
		return []Verdict{{Sig: "C13:panic", What: fmt.Sprintf("engine panicked: %v", tr.Panic)}}
	}
	inval := map[string]bool{}
	for _, n := range strings.Split(c.Meta["inval"], ",") {
		inval[n] = true
	}
	count := 0
	reads := 0
	epoch := 0
	for i, e := range tr.Events {
		switch {
		case strings.HasPrefix(e, "heavy:") || strings.HasPrefix(e, "read:"):
			count++
			if count > 1 {
				out = append(out, Verdict{Sig: "C13:re-evaluated-without-invalidation:" + c.Meta["shape"], What: fmt.Sprintf("F.Heavy was called %d times in invalidation epoch %d (event %d of %v)", count, epoch, i, tr.Events)})
				out = append(out, v)
				return out
			}
		case e[0] == 'V':
			p := strings.Split(e, ":")
			if len(p) == 3 && strings.HasPrefix(p[1], "u") {
				reads++
				if reads >= 2 && count == 1 {
					v.Nontrivial = true
				}
			}
		case e[0] == 'X':
			p := strings.Split(e, ":")
			if len(p) == 2 && inval[p[1]] {
				count = 0
				reads = 0
				epoch++
			}
		}
	}
	// a divergence of flags from the reference is C01/C02's
	for _, cy := range tr.Cycles {
		for _, e := range cy.Evals {
			if rr := cy.RefAt[e.Rule]; rr.Err == nil && rr.True != e.Cand {
				v.Foreign++
			}
		}
	}
	out = append(out, v)
	return out
}

// second counted call: its text contains "F.I" but it depends on F.I2 only
var c13InvalB = []struct {
	name  string
	rule  func() *grl.Rule
	inval bool
}{
	{"changed-prefix-named-variable", func() *grl.Rule { return grl.R("vChangedI", grl.Sal(1), "G.K < 1", `Changed("F.I")`, "G.K = 1") }, false},
	{"forget-prefix-named-variable", func() *grl.Rule { return grl.R("vForgetI", grl.Sal(1), "G.I < 1", `Forget("F.I")`, "G.I = 1") }, false},
	{"assign-prefix-named-variable", func() *grl.Rule { return grl.R("vAssignI", grl.Sal(2), "F.I < 2", "F.I = F.I + 1") }, false},
	{"assign-arg", func() *grl.Rule { return grl.R("vAssignI2", grl.Sal(2), "F.I2 < 2", "F.I2 = F.I2 + 1") }, true},
	{"forget-arg", func() *grl.Rule { return grl.R("vForgetI2", nil, "G.I2 < 1", `Forget("F.I2")`, "G.I2 = 1") }, true},
	{"changed-object-name", func() *grl.Rule { return grl.R("vChangedG", nil, "G.I8 < 1", `Changed("G.K")`, "G.I8 = 1") }, false},
}

func C13(rep *ev.Reporter, tier string) {
	bud := NewBudget(150 * time.Second)
	maxCycle := uint64(8)
	n3 := 40
	maxRules := 3
	if tier == "thorough" {
		bud = NewBudget(9 * time.Minute)
		n3 = 120
		maxRules = 4
	}
	mkWorld := func(b bool) func() *ref.World {
		return func() *ref.World {
			w := ref.NewWorld()
			f := facts.New()
			f.B = b
			f.Arr = []int64{0, 7}
			f.M = map[string]int64{"a": 0}
			w.Objs["F"] = f
			g := facts.New()
			g.MP = map[string]*facts.Sub{"a": {V: 3}}
			g.Arr = []int64{1, 2}
			g.SelArr = []int64{5, 6, 7}
			g.M = map[string]int64{"k": 1}
			w.Objs["G"] = g
			return w
		}
	}
	user := func(i int, si int, c int64) *grl.Rule {
		s := c13Surround[si]
		name := fmt.Sprintf("u%d", i)
		r := &grl.Rule{Name: name, When: grl.E(strings.ReplaceAll(s.cond, "%c", fmt.Sprint(c)))}
		if s.act != "" {
			r.Then = append(r.Then, grl.A(s.act))
		}
		r.Then = append(r.Then, grl.A(fmt.Sprintf("F.Act(%d)", i)), grl.A(fmt.Sprintf(`Retract("%s")`, name)))
		return r
	}
	// user-rule selections: all singles, all unordered pairs, first n3 triples
	var sels [][]int
	n := len(c13Surround)
	for a := 0; a < n; a++ {
		sels = append(sels, []int{a})
	}
	for a := 0; a < n; a++ {
		for b := a; b < n; b++ {
			sels = append(sels, []int{a, b})
		}
	}
	cnt := 0
	for a := 0; a < n && cnt < n3; a++ {
		for b := a; b < n && cnt < n3; b++ {
			for d := b; d < n && cnt < n3; d++ {
				sels = append(sels, []int{a, b, d})
				cnt++
			}
		}
	}
	// invalidator subsets of size 0..2
	var invs [][]int
	invs = append(invs, nil)
	for a := range c13Inval {
		invs = append(invs, []int{a})
		for b := a + 1; b < len(c13Inval); b++ {
			invs = append(invs, []int{a, b})
		}
	}
	gen := func(emit func(Case)) {
		for si, sel := range sels {
			for ii, inv := range invs {
				if len(sel)+len(inv) > maxRules {
					continue
				}
				for _, c := range []int64{facts.HeavyOf(0), facts.HeavyOf(1)} {
					var rules []*grl.Rule
					var shapes []string
					for i, s := range sel {
						rules = append(rules, user(i+1, s, c))
						shapes = append(shapes, c13Surround[s].name)
					}
					var invNames []string
					var invKinds []string
					for _, v := range inv {
						r := c13Inval[v].rule()
						rules = append(rules, r)
						invKinds = append(invKinds, c13Inval[v].name)
						if c13Inval[v].inval {
							invNames = append(invNames, r.Name)
						}
					}
					mr := 1500
					if len(rules) >= 4 {
						mr = 300
					}
					_ = mr
					emit(Case{ID: fmt.Sprintf("c13/u%d/i%d/c%d", si, ii, c), Rules: rules, Worlds: []func() *ref.World{mkWorld(true), mkWorld(false)}, WorldNames: []string{"Bt", "Bf"},
						Opts: hx.RunOpts{MaxCycle: maxCycle, NoSnapshots: true},
						Meta: map[string]string{"inval": strings.Join(invNames, ","), "shape": strings.Join(shapes, "+") + "/" + strings.Join(invKinds, "+")}})
				}
			}
		}
	}
	genB := func(emit func(Case)) {
		userB := func(i int, si int, c int64) *grl.Rule {
			sp := c13Surround[si]
			name := fmt.Sprintf("u%d", i)
			cond := strings.ReplaceAll(strings.ReplaceAll(sp.cond, "F.Heavy(F.I)", "F.Iheavy(F.I2)"), "%c", fmt.Sprint(c))
			r := &grl.Rule{Name: name, When: grl.E(cond)}
			if sp.act != "" {
				r.Then = append(r.Then, grl.A(strings.ReplaceAll(sp.act, "F.Heavy(F.I)", "F.Iheavy(F.I2)")))
			}
			// F.I is a variable the program knows (Forget/Changed of an UNKNOWN name falls back to a
			// documented textual snippet match, which is not what this family is about)
			r.Then = append(r.Then, grl.A("F.I16 = F.I"), grl.A(fmt.Sprintf("F.Act(%d)", i)), grl.A(fmt.Sprintf(`Retract("%s")`, name)))
			return r
		}
		var invsB [][]int
		for a := range c13InvalB {
			invsB = append(invsB, []int{a})
			for b := a + 1; b < len(c13InvalB); b++ {
				invsB = append(invsB, []int{a, b})
			}
		}
		for si, sel := range sels {
			if len(sel) > 2 {
				continue
			}
			for ii, inv := range invsB {
				if len(sel)+len(inv) > maxRules {
					continue
				}
				c := facts.HeavyOf(0)
				var rules []*grl.Rule
				var shapes, invNames, invKinds []string
				for i, sx := range sel {
					rules = append(rules, userB(i+1, sx, c))
					shapes = append(shapes, c13Surround[sx].name)
				}
				for _, v := range inv {
					r := c13InvalB[v].rule()
					rules = append(rules, r)
					invKinds = append(invKinds, c13InvalB[v].name)
					if c13InvalB[v].inval {
						invNames = append(invNames, r.Name)
					}
				}
				emit(Case{ID: fmt.Sprintf("c13b/u%d/i%d", si, ii), Rules: rules, Worlds: []func() *ref.World{mkWorld(true)}, WorldNames: []string{"Bt"},
					Opts: hx.RunOpts{MaxCycle: maxCycle, NoSnapshots: true},
					Meta: map[string]string{"inval": strings.Join(invNames, ","), "shape": "textual-prefix:" + strings.Join(shapes, "+") + "/" + strings.Join(invKinds, "+")}})
			}
		}
	}
	// family D: a counted method DECLARED to return an interface value, its call text shared by DIFFERENT enclosing
	// atoms (member reads .V and .S of the result, in conditions and in an action)
	genD := func(emit func(Case)) {
		users := []func(i int) *grl.Rule{
			func(i int) *grl.Rule {
				n := fmt.Sprintf("u%d", i)
				return grl.R(n, nil, fmt.Sprintf("F.Sheavy(F.I).V == %d", facts.HeavyOf(0)), fmt.Sprintf("F.Act(%d)", i), fmt.Sprintf(`Retract("%s")`, n))
			},
			func(i int) *grl.Rule {
				n := fmt.Sprintf("u%d", i)
				return grl.R(n, nil, `F.Sheavy(F.I).S == "s" && F.B`, fmt.Sprintf("F.Act(%d)", i), fmt.Sprintf(`Retract("%s")`, n))
			},
			func(i int) *grl.Rule {
				n := fmt.Sprintf("u%d", i)
				return grl.R(n, nil, "F.B", "F.In = F.Sheavy(F.I).V", fmt.Sprintf("F.Act(%d)", i), fmt.Sprintf(`Retract("%s")`, n))
			},
			func(i int) *grl.Rule {
				n := fmt.Sprintf("u%d", i)
				return grl.R(n, nil, fmt.Sprintf("F.Sheavy(F.I).V + 1 > %d", facts.HeavyOf(0)), fmt.Sprintf("F.Act(%d)", i), fmt.Sprintf(`Retract("%s")`, n))
			},
		}
		for a := range users {
			for b := range users {
				if a == b {
					continue
				}
				for ii, inv := range append([][]int{nil}, [][]int{{0}, {1}, {4}}...) {
					rules := []*grl.Rule{users[a](1), users[b](2)}
					var invNames, invKinds []string
					for _, v := range inv {
						r := c13Inval[v].rule()
						rules = append(rules, r)
						invKinds = append(invKinds, c13Inval[v].name)
						if c13Inval[v].inval {
							invNames = append(invNames, r.Name)
						}
					}
					emit(Case{ID: fmt.Sprintf("c13d/%d.%d/i%d", a, b, ii), Rules: rules, Worlds: []func() *ref.World{mkWorld(true)}, WorldNames: []string{"Bt"},
						Opts: hx.RunOpts{MaxCycle: maxCycle, NoSnapshots: true},
						Meta: map[string]string{"inval": strings.Join(invNames, ","), "shape": fmt.Sprintf("interface-result:%d+%d/%s", a, b, strings.Join(invKinds, "+"))}})
				}
			}
		}
	}
	// family C: a counted ACCESSOR (leaf field read F.P.V observed through a counting value node)
	genC := func(emit func(Case)) {
		invC := []struct {
			name  string
			rule  func() *grl.Rule
			inval bool
		}{
			{"assign-leaf", func() *grl.Rule { return grl.R("vLeaf", grl.Sal(2), "G.I < 2", "F.P.V = G.I + 5", "G.I = G.I + 1") }, true},
			{"assign-sibling-field", func() *grl.Rule { return grl.R("vSib", grl.Sal(2), "G.I2 < 2", `F.P.S = "x"`, "G.I2 = G.I2 + 1") }, false},
			{"forget-leaf", func() *grl.Rule { return grl.R("vForget", grl.Sal(1), "G.K < 1", `Forget("F.P.V")`, "G.K = 1") }, true},
			{"changed-leaf", func() *grl.Rule { return grl.R("vChanged", nil, "G.I8 < 1", `Changed("F.P.V")`, "G.I8 = 1") }, true},
			{"assign-other-field", func() *grl.Rule { return grl.R("vOther", nil, "F.I < 2", "F.I = F.I + 1") }, false},
			{"swap-parent-pointer", func() *grl.Rule { return grl.R("vSwap", nil, "G.I16 < 1", "F.P = F.P.Q", "G.I16 = 1") }, true},
		}
		var invs [][]int
		invs = append(invs, nil)
		for a := range invC {
			invs = append(invs, []int{a})
			for b := a + 1; b < len(invC); b++ {
				invs = append(invs, []int{a, b})
			}
		}
		world := func() *ref.World {
			w := ref.NewWorld()
			f := facts.New()
			f.B = true
			f.P = &facts.Sub{V: 1, Q: &facts.Sub{V: 1}}
			w.Objs["F"] = f
			w.Objs["G"] = facts.New()
			return w
		}
		for si, sel := range sels {
			if len(sel) > 2 {
				continue
			}
			for ii, inv := range invs {
				if len(sel)+len(inv) > maxRules {
					continue
				}
				var rules []*grl.Rule
				var shapes, invNames, invKinds []string
				for i, sx := range sel {
					sp := c13Surround[sx]
					if sp.name == "method-arg" {
						continue
					}
					name := fmt.Sprintf("u%d", i+1)
					cond := strings.ReplaceAll(strings.ReplaceAll(sp.cond, "F.Heavy(F.I)", "F.P.V"), "%c", "1")
					r := &grl.Rule{Name: name, When: grl.E(cond)}
					if sp.act != "" {
						r.Then = append(r.Then, grl.A(strings.ReplaceAll(sp.act, "F.Heavy(F.I)", "F.P.V")))
					}
					r.Then = append(r.Then, grl.A(fmt.Sprintf("F.Act(%d)", i+1)), grl.A(fmt.Sprintf(`Retract("%s")`, name)))
					rules = append(rules, r)
					shapes = append(shapes, sp.name)
				}
				if len(rules) == 0 {
					continue
				}
				for _, v := range inv {
					r := invC[v].rule()
					rules = append(rules, r)
					invKinds = append(invKinds, invC[v].name)
					if invC[v].inval {
						invNames = append(invNames, r.Name)
					}
				}
				emit(Case{ID: fmt.Sprintf("c13c/u%d/i%d", si, ii), Rules: rules, Worlds: []func() *ref.World{world}, WorldNames: []string{"w"},
					Opts: hx.RunOpts{MaxCycle: maxCycle, NoSnapshots: true, CountReads: "F.P->V"},
					Meta: map[string]string{"inval": strings.Join(invNames, ","), "shape": "accessor:" + strings.Join(shapes, "+") + "/" + strings.Join(invKinds, "+")}})
			}
		}
	}
	withHist := func(emit func(Case)) func(Case) {
		return func(c Case) {
			c.Histories = c.Opts.CountReads == "" // the accessor family counts through a wrapped data context
			emit(c)
		}
	}
	RunFamily(rep, func(emit func(Case)) { gen(withHist(emit)); genB(withHist(emit)); genC(emit); genD(withHist(emit)) }, 1500, bud, judgeC13)
	rep.Coverage["rule"] = "programs in which the counted pure method F.Heavy(F.I) occurs in k=1..3 rules in each of 9 surroundings (alone, left/right of &&, right of ||, inside arithmetic, as a method argument, under negation, in an action right-hand side, as a bare call statement of an action list) together with 0..2 of 6 writer rules (assignment to the argument variable, assignment to a prefix-similar variable, external change + Forget(variable), Forget(call text), Changed(variable), assignment on another object), 2 constants, 2 fact states, every rule order at every cycle; a second family uses the counted call F.Iheavy(F.I2), whose TEXT contains the variable name F.I without depending on it, with writers Changed(F.I) / Forget(F.I) / assignment to F.I (none of which concerns the call) and assignment / Forget of F.I2 (which do); a third family counts a field ACCESSOR instead of a method: leaf reads of F.P.V observed through a counting data context / value node wrapper, with writers assigning the leaf, a sibling field, another field, swapping the parent pointer, Forget/Changed naming the leaf. Oracle: between two invalidation events derived from the validated trace (firing of a rule that assigns F.I or calls Forget/Changed naming F.I or the call) the call counter advances by at most 1. Non-trivial: an epoch in which the call was read >=2 times and evaluated once."
	rep.Assumptions = append(rep.Assumptions, "invalidating rules contain no counted call themselves, so the epoch boundary (their ExecuteRuleEntry) is unambiguous", "the run cap per (program, world) bounds 4-rule programs; capped explorations are reported", "accessor family: invalidating rules do not read the counted leaf themselves; the leaf is never the target of a compound assignment")
}
