package checks

import (
	"fmt"
	"strings"
	"sync/atomic"
	"time"

	"verif/internal/ev"
	"verif/internal/facts"
	"verif/internal/grl"
	"verif/internal/hx"
	"verif/internal/ref"
)

func c04World() *ref.World {
	w := ref.NewWorld()
	f := facts.New()
	f.I, f.I2, f.I8, f.I16, f.I32, f.In = 10, 20, 10, 10, 10, 10
	f.U, f.U8, f.U16, f.U32, f.Un = 10, 10, 10, 10, 10
	f.F, f.F32 = 10.5, 10.5
	f.S, f.B = "s", false
	f.T = time.Date(2020, 1, 2, 3, 4, 5, 0, time.UTC)
	pi := int64(10)
	f.PI = &pi
	f.P = &facts.Sub{V: 10, S: "p", Q: &facts.Sub{V: 11, S: "q"}}
	f.Arr = []int64{10, 11, 12}
	f.SArr = []string{"s0", "s1"}
	f.PArr = []*facts.Sub{{V: 10}, {V: 11}}
	f.M = map[string]int64{"a": 10, "b": 11}
	f.MS = map[string]string{"a": "ma"}
	f.MP = map[string]*facts.Sub{"a": {V: 10}}
	f.K, f.KS = 0, "a"
	f.MK = map[int64]int64{1: 10, 2: 11}
	f.A3 = [3]int64{10, 11, 12}
	f.Grid = [][]int64{{10, 11, 12}, {20, 21, 22}}
	f.Book = map[string]map[string]int64{"a": {"x": 10, "y": 11}, "b": {"x": 20}}
	w.Objs["F"] = f
	g := facts.New()
	g.I, g.I8, g.I16, g.I32, g.In = 3, 4, 300, 70000, 6
	g.U, g.U8, g.U16, g.U32, g.Un = 5, 200, 60000, 4000000000, 7
	g.F, g.F32 = 1.5, 2.5
	g.S, g.B = "gs", true
	g.T = time.Date(2021, 5, 6, 7, 8, 9, 0, time.UTC)
	gpi := int64(9)
	g.PI = &gpi
	g.P = &facts.Sub{V: 31, S: "gp"}
	g.Arr = []int64{20, 21}
	g.SArr = []string{"g0"}
	g.M = map[string]int64{"a": 41}
	g.MS = map[string]string{"a": "gm"}
	w.Objs["G"] = g
	w.Objs["H"] = facts.New()
	big := facts.New() // numbers beyond the int64 range: an unsigned value above MaxInt64, a real of 1e19
	big.U, big.F = 1<<63+1024, 1.0e19
	w.Objs["Big"] = big
	w.Vars["N"] = int64(10)
	w.Vars["Name"] = "nm"
	w.JSON["J"] = map[string]interface{}{"n": 10.0, "s": "js", "b": true, "o": map[string]interface{}{"n": 11.0}, "a": []interface{}{10.0, 11.0},
		"a.b": 12.0, "k[0]": 13.0, "aa": []interface{}{[]interface{}{1.0, 2.0}, []interface{}{3.0}}, "jb": true, "i": 5.0}
	return w
}

var c04Dests = []string{
	"F.I", "F.I8", "F.I16", "F.I32", "F.In", "F.U", "F.U8", "F.U16", "F.U32", "F.Un", "F.F", "F.F32", "F.S", "F.B", "F.T", "F.PI",
	"F.P.V", "F.P.S", "F.P.Q.V", "F.PArr[0].V", "F.Arr[1]", "F.Arr[F.K]", "F.SArr[0]", `F.M["a"]`, "F.M[F.KS]", `F.MS["a"]`, `F.MP["a"].V`,
	"F.BI", "F.MK[1]", "F.MK[F.K + 2]", "F.A3[1]", "F.A3[F.K]", `J["n"]`, `J.o["n"]`,
	`J["a.b"]`, `J["k[0]"]`, "J.aa[1][0]", "J.aa[0][F.K]", "J.jb",
	"J.n", "J.o.n", "J.a[0]", "J.s", "N", "Name", "F.Grid[0][1]", "F.Grid[F.K][2]", `F.Book["a"]["x"]`, `F.Book[F.KS]["y"]`,
}

var c04Sources = []string{
	"Big.U", "Big.F", "Big.U / 2", "Big.F * 1.5",
	"0", "1", "7", "-3", "100", "127", "255", "2.0", "2.5", "-1.5", `"x"`, `""`, `"a\"b"`, "true", "false",
	"G.I", "G.I8", "G.I16", "G.I32", "G.In", "G.U", "G.U8", "G.U16", "G.U32", "G.Un", "G.F", "G.F32", "G.S", "G.B", "G.T",
	"G.Add(2, 3)", `G.Cat("a", "b")`, "G.IsPos(1)", "G.Arr[1]", "G.P.V", `G.M["a"]`, "G.SArr[0]", `G.MS["a"]`, "G.P.S",
	"F.I + 1", "F.I2 * 2 - 1", "F.I / 4", "G.I + G.F",
}

var c04Seq = []string{
	"Complete()", // not an assignment: the actions after it are applied like the ones before it
	"F.I = 1", "F.I = F.I2", "F.I2 = F.I", "F.I += F.I2", "F.I8 = F.I", "F.F = F.I / 4", `F.S = F.S + "x"`, "F.S += F.I",
	"F.Arr[0] = F.Arr[1]", "F.Arr[1] = F.Arr[0]", "F.Arr[F.K] = 5", "F.K = 1", `F.M["a"] = F.M["b"]`, `F.M["b"] = F.I`,
	"F.P.V = F.I", "F.I = F.P.V", "F.P = F.P.Q", "F.P.V = 3", "J.n = J.o.n", "J.o.n = F.I", "N = N + F.I", "F.I = N",
	`Name = Name + "y"`, "N = F.I", "N = F.Arr[0]", "Name = F.S", "F.I2 = N", "F.S = Name", "N = F.P.V", "F.B = !F.B", "F.B = F.I > 1", "F.U = F.I", "F.I -= 1", "F.I *= 2", "F.In = F.Arr[F.K]", `F.KS = "b"`, "F.I2 = F.M[F.KS]",
	// the same operands in both orders (commutative for numbers, not for text)
	"F.S = F.S + F.KS", "F.KS = F.KS + F.S", "Name = F.I + F.S", "F.S = F.S + F.I", "F.I2 = F.I2 * F.I", "F.I = F.I * F.I2", "F.I2 = F.I2 - F.I", "F.I = F.I - F.I2",
}

func judgeC04(unjudged *int64) func(c *Case, tr *hx.Trace, w *ref.World) []Verdict {
	return func(c *Case, tr *hx.Trace, w *ref.World) []Verdict {
		if tr.Panic != nil {
			return []Verdict{{Sig: "C04:panic:" + c.Meta["sig"], What: fmt.Sprintf("engine panicked: %v", tr.Panic)}}
		}
		if len(tr.Cycles) == 0 || tr.Cycles[0].Exec != "r" {
			return []Verdict{{Sig: "harness:C04-rule-did-not-fire", What: fmt.Sprintf("events %v", tr.Events)}}
		}
		cy := tr.Cycles[0]
		if cy.ModelUnsupported {
			atomic.AddInt64(unjudged, 1)
			return []Verdict{{}}
		}
		if cy.ModelErr != nil {
			return []Verdict{{}}
		}
		if tr.Err != nil {
			return []Verdict{{Sig: "C04:error-on-well-typed-assignment:" + c.Meta["sig"], What: fmt.Sprintf("Execute returned %v", tr.Err)}}
		}
		if !cy.PostOK {
			return []Verdict{{Sig: "C04:wrong-post-state:" + c.Meta["sig"], What: "facts after the firing differ from the model (native stdlib writes of the reference values):\n" + cy.PostDiff}}
		}
		return []Verdict{{Nontrivial: true}}
	}
}

func C04(rep *ev.Reporter, tier string) {
	bud := NewBudget(150 * time.Second)
	if tier == "thorough" {
		bud = NewBudget(9 * time.Minute)
	}
	var unjudged int64
	okModel := func(acts []string) bool {
		w := c04World()
		evl := &ref.Evaluator{W: w}
		var eff ref.Effect
		for _, a := range acts {
			if err := evl.Apply(grl.A(a), &eff); err != nil {
				return false
			}
		}
		return true
	}
	mkCase := func(id, sig string, acts []string) Case {
		r := &grl.Rule{Name: "r", When: grl.E("H.I == 0")}
		for _, a := range acts {
			r.Then = append(r.Then, grl.A(a))
		}
		r.Then = append(r.Then, grl.A("H.I = 1"))
		return Case{ID: id, Rules: []*grl.Rule{r}, Worlds: []func() *ref.World{c04World}, WorldNames: []string{"w"}, Opts: hx.RunOpts{MaxCycle: 3}, Meta: map[string]string{"sig": sig}}
	}
	gen := func(emit func(Case)) {
		for _, d := range c04Dests {
			for _, op := range []string{"=", "+=", "-=", "*=", "/="} {
				for _, s := range c04Sources {
					a := fmt.Sprintf("%s %s %s", d, op, s)
					if strings.HasPrefix(d, "J") && strings.HasPrefix(s, "Big.U") {
						continue // how a JSON member holds an unsigned Go value above MaxInt64 is not specified (and rendered differently by the two dumps)
					}
					if !okModel([]string{a}) {
						continue
					}
					emit(mkCase("c04/single/"+a, fmt.Sprintf("dest=%s:op=%s:src=%s", d, op, s), []string{a}))
				}
			}
		}
		for i, a := range c04Seq {
			for j, b := range c04Seq {
				if okModel([]string{a, b}) {
					emit(mkCase(fmt.Sprintf("c04/pair/%d.%d", i, j), "seq="+a+";"+b, []string{a, b}))
				}
				if tier == "thorough" || (i%3 == 0 && j%3 == 1) {
					for k, c := range c04Seq {
						if okModel([]string{a, b, c}) {
							emit(mkCase(fmt.Sprintf("c04/triple/%d.%d.%d", i, j, k), "seq="+a+";"+b+";"+c, []string{a, b, c}))
						}
					}
				}
			}
		}
	}
	// long action lists: windows of 12 consecutive assignments of the alphabet (every start, cyclically; Complete() left out)
	{
		seq := c04Seq[1:]
		gen0 := gen
		gen = func(emit func(Case)) {
			gen0(emit)
			for st := range seq {
				var acts []string
				for k := 0; k < 12; k++ {
					acts = append(acts, seq[(st+k)%len(seq)])
				}
				if okModel(acts) {
					c := mkCase(fmt.Sprintf("c04/long/%d", st), fmt.Sprintf("long-list-from=%s", seq[st]), acts)
					emit(c)
				}
			}
		}
	}
	// read - write - read inside one action list, for every location of the dependency matrix and every
	// (aliased) reader/writer pair: the second read must see the write although the first read was remembered
	var nRWR int64
	genRWR := func(emit func(Case)) {
		for li := range depLocs {
			loc := &depLocs[li]
			mkWorld := func() *ref.World {
				w := depBaseWorld()
				loc.init(w)
				return w
			}
			for _, wp := range loc.writers {
				for _, rp1 := range loc.readers {
					for _, rp2 := range loc.readers {
						acts := []string{"G.I2 = " + rp1 + " * 10", wp + " = 7", "G.In = " + rp2 + " * 10"}
						w := mkWorld()
						evl := &ref.Evaluator{W: w}
						var eff ref.Effect
						ok := true
						for _, a := range acts {
							if err := evl.Apply(grl.A(a), &eff); err != nil {
								ok = false
							}
						}
						if !ok {
							continue
						}
						r := &grl.Rule{Name: "r", When: grl.E("G.I == 0")}
						for _, a := range acts {
							r.Then = append(r.Then, grl.A(a))
						}
						r.Then = append(r.Then, grl.A("G.I = 1"))
						nRWR++
						sig := "rwr=" + loc.name + ":" + rp1 + ";" + wp + ";" + rp2
						emit(Case{ID: "c04/rwr/" + loc.name + "/" + rp1 + ";" + wp + ";" + rp2, Rules: []*grl.Rule{r}, Worlds: []func() *ref.World{mkWorld}, WorldNames: []string{"w"}, Opts: hx.RunOpts{MaxCycle: 3}, Meta: map[string]string{"sig": sig}})
					}
				}
			}
		}
	}
	gen0 := gen
	gen = func(emit func(Case)) { gen0(emit); genRWR(emit) }
	RunFamily(rep, gen, 50, bud, judgeC04(&unjudged))
	rep.Coverage["unjudged_model_undefined"] = unjudged
	twinDepth := 2
	if tier == "thorough" {
		twinDepth = 3
	}
	ts, to := c04TwinTypes(rep, twinDepth)
	rep.Coverage["twin_type_sequences"] = ts
	rep.Coverage["twin_type_operations"] = to
	rep.Coverage["read_write_read_cases"] = nRWR
	if nRWR < 40 {
		rep.Violation("C04:vacuous:read-write-read", fmt.Sprintf("only %d read-write-read cases were generated", nRWR), map[string]interface{}{"case": "c04/rwr"})
	}
	rep.Coverage["rule"] = fmt.Sprintf("single-assignment matrix: 5 operators x %d destinations (13 numeric struct-field kinds, string, bool, time, *int64, nested pointer fields, slice elements by constant and computed index, map entries by constant and computed key, JSON members/elements, top-level variables) x %d sources (literals of every kind, fields of every numeric kind, method results, selector reads, arithmetic) restricted by the reference model to well-typed in-range pairs; sequences: every ordered pair (thorough: triple) of %d assignments incl. same destination twice, reads of what the previous action wrote, swaps; read-write-read inside one action list for every dependency-matrix location (fields, pointer chains, slices, maps, two-level slices and maps, JSON, top-level) and every aliased reader/writer pair. fact TYPES as a dimension: three struct types of one process whose printed names coincide and whose equally named fields sit at different positions (one promoted from an embedded struct), every sequence of (type, field, write | compound write | read) up to depth 2 (thorough: 3), each operation its own knowledge base and engine call. Oracle: the caller's own Go objects / JSON fact / data-context entries after Execute equal the reference model's post-state computed with standard-library reflection on an independent deep copy (every other field compared too). Non-trivial: every judged case (a real write happened).", len(c04Dests), len(c04Sources), len(c04Seq))
	rep.Assumptions = append(rep.Assumptions, "float->int conversions of non-integral values, float32 rounding, negative->unsigned and out-of-range values are outside the quantifier and skipped by the generator")
}
