package checks

import (
	"bytes"
	"fmt"
	"sync"
	"sync/atomic"

	"github.com/hyperjumptech/grule-rule-engine/ast"

	"verif/internal/ev"
	"verif/internal/hx"
	"verif/internal/sched"
)

// Stores of INDEPENDENT libraries to independent writers, interleaved: two (three) threads each call
// StoreKnowledgeBaseToWriter on their own library; every Write call of a store is a yield point of the
// cooperative scheduler (the writer takes the bytes only after the hand-over, like a pipe whose reader runs
// later); every interleaving with at most one preemption. Each store returns nil and its stream loads into a
// knowledge base with the metadata and behaviour of the stored one - a store must not depend on state shared
// with other stores (package-level scratch buffers).

type c12YieldWriter struct {
	r   *sched.Run
	buf bytes.Buffer
}

func (w *c12YieldWriter) Write(p []byte) (int, error) {
	w.r.Yield("write") // the caller's buffer is consumed AFTER other threads may have run
	return w.buf.Write(p)
}

func c12Concurrent(rep *ev.Reporter, tier string) (schedules, points int64) {
	texts := []string{
		`rule sa "first" salience 3 { when F.I2 < 1 then F.I2 = F.I2 + 1; F.S = F.S + "a"; }`,
		`rule sb "second" salience -2 { when F.B && F.I2 < 2 then F.B = false; F.S = F.S + "bb"; }`,
		`rule sc { when F.F > 10.0 then F.F = 1.25; F.S = F.S + "ccc"; }`,
	}
	nthreads := 2
	if tier == "thorough" {
		nthreads = 3
	}
	libs := make([]*ast.KnowledgeLibrary, nthreads)
	want := make([]string, nthreads)
	for i := 0; i < nthreads; i++ {
		l, err := hx.BuildText(texts[i])
		if err != nil {
			rep.Violation("harness:build-failed:c12conc", err.Error(), nil)
			return
		}
		libs[i] = l
		b, err := c12Behaviour(l, nil, hx.KBName, hx.KBVer, []int{0})
		if err != nil {
			rep.Violation("harness:c12conc-reference", err.Error(), nil)
			return
		}
		want[i] = c12Meta(l.GetKnowledgeBase(hx.KBName, hx.KBVer)) + "\n" + b
	}
	const nshards = 16
	var mu sync.Mutex
	var wg sync.WaitGroup
	var stopAll atomic.Bool
	for shard := 0; shard < nshards; shard++ {
		wg.Add(1)
		go func(shard int) {
			defer wg.Done()
			var writers []*c12YieldWriter
			var errs []error
			mk := func() []func(r *sched.Run) {
				writers = make([]*c12YieldWriter, nthreads)
				errs = make([]error, nthreads)
				bodies := make([]func(r *sched.Run), nthreads)
				for t := 0; t < nthreads; t++ {
					t := t
					bodies[t] = func(r *sched.Run) {
						writers[t] = &c12YieldWriter{r: r}
						func() {
							defer func() {
								if rec := recover(); rec != nil {
									errs[t] = fmt.Errorf("PANIC %v", rec)
								}
							}()
							errs[t] = libs[t].StoreKnowledgeBaseToWriter(writers[t], hx.KBName, hx.KBVer)
						}()
					}
				}
				return bodies
			}
			st := &sched.Stats{}
			sched.Explore(mk, 1, shard, nshards, 0, st, func(r *sched.Run) bool {
				if stopAll.Load() {
					return false
				}
				for t := 0; t < nthreads; t++ {
					sig, what := "", ""
					if errs[t] != nil {
						sig, what = "C12:store-fails-when-interleaved-with-an-independent-store", errs[t].Error()
					} else {
						lib := ast.NewKnowledgeLibrary()
						var lerr error
						func() {
							defer func() {
								if rec := recover(); rec != nil {
									lerr = fmt.Errorf("PANIC %v", rec)
								}
							}()
							_, lerr = lib.LoadKnowledgeBaseFromReader(bytes.NewReader(writers[t].buf.Bytes()), true)
						}()
						if lerr != nil {
							sig, what = "C12:stream-of-a-store-interleaved-with-an-independent-store-does-not-load", lerr.Error()
						} else if b, berr := c12Behaviour(lib, nil, hx.KBName, hx.KBVer, []int{0}); berr != nil || c12Meta(lib.GetKnowledgeBase(hx.KBName, hx.KBVer))+"\n"+b != want[t] {
							sig, what = "C12:store-interleaved-with-an-independent-store-yields-a-different-knowledge-base", fmt.Sprintf("%v\nloaded:\n%s\nstored:\n%s", berr, b, want[t])
						}
					}
					if sig != "" {
						mu.Lock()
						rep.Violation(sig, fmt.Sprintf("thread %d of %d (each storing its own library to its own writer; the writer consumes the bytes of a Write call after other threads may have run): %s\n  schedule (choice per yield point): %v", t, nthreads, what, compactChoices(r.Choices())),
							map[string]interface{}{"case": fmt.Sprintf("c12/concurrent-stores/%d", shard), "schedule": r.Choices(), "thread": t})
						mu.Unlock()
						stopAll.Store(true)
						return false
					}
				}
				return true
			})
			atomic.AddInt64(&schedules, int64(st.Executions))
			for {
				old := atomic.LoadInt64(&points)
				if int64(st.MaxPoints) <= old || atomic.CompareAndSwapInt64(&points, old, int64(st.MaxPoints)) {
					break
				}
			}
		}(shard)
	}
	wg.Wait()
	return schedules, points
}

// compactChoices renders a choice sequence as "index:choice" for the non-default choices only.
func compactChoices(c []int) string {
	var b bytes.Buffer
	for i, x := range c {
		if x != 0 {
			fmt.Fprintf(&b, "%d:%d ", i, x)
		}
	}
	return fmt.Sprintf("%d points, non-default: %s", len(c), b.String())
}
