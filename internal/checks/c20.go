package checks

import (
	"bufio"
	"bytes"
	"encoding/binary"
	"encoding/json"
	"fmt"
	"io"
	"os"
	"os/exec"
	"regexp"
	"runtime"
	"strings"
	"sync"
	"sync/atomic"
	"time"

	"github.com/hyperjumptech/grule-rule-engine/ast"
	"github.com/hyperjumptech/grule-rule-engine/builder"
	"github.com/hyperjumptech/grule-rule-engine/pkg"

	"verif/internal/ev"
)

const (
	c20GRL = iota
	c20JSONRule
	c20JSONFact
	c20GRB
)

var c20LoaderName = []string{"grl-text", "json-rule", "json-fact", "grb-stream"}

// c20Load runs one loader; a panic is reported, never propagated.
var c20Streams [][]byte
var c20StreamsOnce sync.Once

// c20LoadedStreams: binary streams of two small knowledge bases "KB"/"1" (built once per process).
func c20LoadedStreams() [][]byte {
	c20StreamsOnce.Do(func() {
		for _, text := range []string{`rule OnlyConstants { when 1 + 1 == 2 then Complete(); }`, `rule WithVars { when F.I < 1 then F.I = F.I + 1; }`} {
			l := ast.NewKnowledgeLibrary()
			if err := builder.NewRuleBuilder(l).BuildRuleFromResource("KB", "1", pkg.NewBytesResource([]byte(text))); err != nil {
				continue
			}
			var buf bytes.Buffer
			if err := l.StoreKnowledgeBaseToWriter(&buf, "KB", "1"); err == nil {
				c20Streams = append(c20Streams, buf.Bytes())
			}
		}
	})
	return c20Streams
}

// c20PerLoadAlloc: for a loader case that makes several loader CALLS per input (GRL: a fresh knowledge base and two
// loaded ones), the largest allocation of a single call - the bound of the property is per call.
var c20PerLoadAlloc uint64

func c20Measured(f func()) {
	var ms runtime.MemStats
	runtime.ReadMemStats(&ms)
	before := ms.TotalAlloc
	defer func() {
		runtime.ReadMemStats(&ms)
		if d := ms.TotalAlloc - before; d > c20PerLoadAlloc {
			c20PerLoadAlloc = d
		}
	}()
	f()
}

func c20Load(loader int, data []byte) (status string) {
	defer func() {
		if r := recover(); r != nil {
			status = "panic: " + firstLineOf(fmt.Sprint(r))
		}
	}()
	var err error
	switch loader {
	case c20GRL:
		lib := ast.NewKnowledgeLibrary()
		c20Measured(func() {
			err = builder.NewRuleBuilder(lib).BuildRuleFromResource("KB", "1", pkg.NewBytesResource(data))
		})
		// the same text built ONTO knowledge bases that came out of the binary loader (one without any variable:
		// its working-memory sections are empty; one with variables)
		for _, stream := range c20LoadedStreams() {
			l2 := ast.NewKnowledgeLibrary()
			if _, lerr := l2.LoadKnowledgeBaseFromReader(bytes.NewReader(stream), true); lerr == nil {
				c20Measured(func() {
					_ = builder.NewRuleBuilder(l2).BuildRuleFromResource("KB", "1", pkg.NewBytesResource(data))
				})
			}
		}
	case c20JSONRule:
		var res pkg.Resource
		res, err = pkg.NewJSONResourceFromResource(pkg.NewBytesResource(data))
		if err == nil {
			lib := ast.NewKnowledgeLibrary()
			err = builder.NewRuleBuilder(lib).BuildRuleFromResource("KB", "1", res)
		}
	case c20JSONFact:
		err = ast.NewDataContext().AddJSON("J", data)
	case c20GRB:
		lib := ast.NewKnowledgeLibrary()
		_, err = lib.LoadKnowledgeBaseFromReader(bytes.NewReader(data), true)
	}
	if err != nil {
		return "error"
	}
	return "ok"
}

// C20Worker is the sandboxed child: frames on stdin, one result line per frame on stdout.
func C20Worker() {
	in := bufio.NewReaderSize(os.Stdin, 1<<20)
	out := bufio.NewWriter(os.Stdout)
	hdr := make([]byte, 9)
	var ms runtime.MemStats
	for {
		if _, err := io.ReadFull(in, hdr); err != nil {
			return
		}
		idx := binary.LittleEndian.Uint32(hdr[0:4])
		loader := int(hdr[4])
		n := binary.LittleEndian.Uint32(hdr[5:9])
		data := make([]byte, n)
		if _, err := io.ReadFull(in, data); err != nil {
			return
		}
		fmt.Fprintf(out, "S %d\n", idx)
		out.Flush()
		runtime.ReadMemStats(&ms)
		before := ms.TotalAlloc
		t0 := time.Now()
		c20PerLoadAlloc = 0
		st := c20Load(loader, data)
		dur := time.Since(t0)
		runtime.ReadMemStats(&ms)
		alloc := ms.TotalAlloc - before
		if c20PerLoadAlloc > 0 {
			alloc = c20PerLoadAlloc // several loader calls were made for this input: the largest single one
		}
		fmt.Fprintf(out, "R %d %d %d %s\n", idx, alloc, dur.Microseconds(), st)
		out.Flush()
	}
}

var digitsRe = regexp.MustCompile(`[0-9]{3,}`)

type c20Input struct {
	loader int
	data   []byte
	class  string
	fam    string // growth family (same text shape at several depths), "" none
	depth  int
}

type c20Result struct {
	status string // ok error panic:<..> crash:<..> hang
	alloc  uint64
	micros int64
}

type c20Proc struct {
	cmd    *exec.Cmd
	in     io.WriteCloser
	out    *bufio.Reader
	lines  chan string
	stderr *bytes.Buffer
}

func c20Spawn() (*c20Proc, error) {
	self, err := os.Executable()
	if err != nil {
		return nil, err
	}
	cmd := exec.Command("/bin/bash", "-c", "ulimit -v 4194304; exec \""+self+"\" C20-worker quick")
	cmd.Env = append(os.Environ(), "GOMAXPROCS=2", "GOGC=50")
	in, _ := cmd.StdinPipe()
	outp, _ := cmd.StdoutPipe()
	var eb bytes.Buffer
	cmd.Stderr = &eb
	if err := cmd.Start(); err != nil {
		return nil, err
	}
	p := &c20Proc{cmd: cmd, in: in, out: bufio.NewReader(outp), lines: make(chan string, 16), stderr: &eb}
	go func() {
		for {
			l, err := p.out.ReadString('\n')
			if err != nil {
				close(p.lines)
				return
			}
			p.lines <- strings.TrimSpace(l)
		}
	}()
	return p, nil
}

func (p *c20Proc) kill() {
	p.in.Close()
	p.cmd.Process.Kill()
	p.cmd.Wait()
}

// run one input on the process; returns result and whether the process is still usable.
func (p *c20Proc) run(idx uint32, inp c20Input, hang time.Duration) (c20Result, bool) {
	hdr := make([]byte, 9)
	binary.LittleEndian.PutUint32(hdr[0:4], idx)
	hdr[4] = byte(inp.loader)
	binary.LittleEndian.PutUint32(hdr[5:9], uint32(len(inp.data)))
	if _, err := p.in.Write(append(hdr, inp.data...)); err != nil {
		return c20Result{status: "crash: write to worker failed: " + err.Error()}, false
	}
	timer := time.NewTimer(hang)
	defer timer.Stop()
	for {
		select {
		case l, ok := <-p.lines:
			if !ok {
				p.cmd.Wait()
				msg := ""
				for _, l := range strings.Split(p.stderr.String(), "\n") {
					if strings.HasPrefix(l, "fatal error") || strings.HasPrefix(l, "panic:") || strings.HasPrefix(l, "runtime:") || strings.Contains(l, "signal") {
						msg = l
						break
					}
				}
				if msg == "" {
					msg = firstLineOf(strings.TrimSpace(p.stderr.String()))
				}
				if msg == "" {
					msg = p.cmd.ProcessState.String()
				}
				return c20Result{status: "crash: " + msg}, false
			}
			if strings.HasPrefix(l, "R ") {
				var ridx uint32
				var alloc uint64
				var micros int64
				var st string
				parts := strings.SplitN(l, " ", 5)
				fmt.Sscan(parts[1], &ridx)
				fmt.Sscan(parts[2], &alloc)
				fmt.Sscan(parts[3], &micros)
				st = parts[4]
				if ridx != idx {
					return c20Result{status: "crash: protocol desync"}, false
				}
				return c20Result{status: st, alloc: alloc, micros: micros}, true
			}
		case <-timer.C:
			return c20Result{status: "hang"}, false
		}
	}
}

func c20Seeds() map[int][][]byte {
	seeds := map[int][][]byte{}
	grl1 := `rule SpeedUp "When testcar is speeding up" salience 10 { when TestCar.SpeedUp == true && TestCar.Speed < TestCar.MaxSpeed then TestCar.Speed = TestCar.Speed + TestCar.SpeedIncrement; Log("Speed increased"); }`
	grl2 := "rule R1 \"d\" salience -5 {\n when F.Arr[F.K] + 0x1F * 1.5e3 >= F.M[\"a\"] || !(F.S.Len() > 017) // c\n then F.I += 1; /* b */ Retract(\"R1\");\n}\nrule R2 { when F.B then F.S = 'a\\'b' + \"é\"; }"
	seeds[c20GRL] = [][]byte{[]byte(grl1), []byte(grl2), []byte(c12Kitchen)}
	js1 := `{"name":"SpeedUp","desc":"When testcar is speeding up we keep increase the speed.","salience":10,"when":{"and":[{"eq":[{"obj":"TestCar.SpeedUp"},{"const":true}]},{"lt":[{"obj":"TestCar.Speed"},{"obj":"TestCar.MaxSpeed"}]}]},"then":[{"set":[{"obj":"TestCar.Speed"},{"plus":[{"obj":"TestCar.Speed"},{"obj":"TestCar.SpeedIncrement"}]}]},{"call":["Log",{"const":"Speed increased"}]}]}`
	js2 := `[{"name":"A","when":"F.B","then":["F.I = 1"]},{"name":"B","salience":-3,"when":{"not":[{"gt":["F.I",1.5]}]},"then":[{"call":["F.SetI",{"minus":[2,1]}]}]}]`
	seeds[c20JSONRule] = [][]byte{[]byte(js1), []byte(js2)}
	jf1 := `{"n":1,"s":"a","b":true,"o":{"n":2,"x":null},"a":[1,2,{"k":[]}],"f":1.5e3,"u":"é\n"}`
	jf2 := `[1,"two",[3,[4,[5]]],{"six":{"seven":7}}]`
	seeds[c20JSONFact] = [][]byte{[]byte(jf1), []byte(jf2)}
	for _, txt := range []string{`rule a salience 3 { when F.I < 2 then F.I = F.I + 1; }`, grl2} {
		lib := ast.NewKnowledgeLibrary()
		if err := builder.NewRuleBuilder(lib).BuildRuleFromResource("KB", "1", pkg.NewBytesResource([]byte(txt))); err == nil {
			var buf bytes.Buffer
			if lib.StoreKnowledgeBaseToWriter(&buf, "KB", "1") == nil {
				seeds[c20GRB] = append(seeds[c20GRB], buf.Bytes())
			}
		}
	}
	return seeds
}

var c20UUID = regexp.MustCompile(`[0-9a-f]{8}-[0-9a-f]{4}-[0-9a-f]{4}-[0-9a-f]{4}-[0-9a-f]{12}`)

func C20(rep *ev.Reporter, tier string) {
	bud := NewBudget(150 * time.Second)
	nSeeds := 1
	if tier == "thorough" {
		bud = NewBudget(12 * time.Minute)
		nSeeds = 9
	}
	var inputs []c20Input
	add := func(l int, class string, d []byte) {
		inputs = append(inputs, c20Input{loader: l, data: append([]byte{}, d...), class: class})
	}
	seeds := c20Seeds()
	structural := []byte("{}[]():;,.\"'\\ \n-+0x1eE/*!=&|<")
	for l := 0; l < 4; l++ {
		// (a) every byte string of length <= 2; length 3 over the structural alphabet
		add(l, "len0", nil)
		for a := 0; a < 256; a++ {
			add(l, "len1", []byte{byte(a)})
		}
		for a := 0; a < 256; a++ {
			for b := 0; b < 256; b++ {
				add(l, "len2", []byte{byte(a), byte(b)})
			}
		}
		for _, a := range structural[:24] {
			for _, b := range structural[:24] {
				for _, c := range structural[:24] {
					add(l, "len3-structural", []byte{a, b, c})
				}
			}
		}
		// (b) single-point mutations of valid seeds
		for si, seed := range seeds[l] {
			if si >= nSeeds {
				break
			}
			add(l, "seed", seed)
			for o := 0; o < len(seed); o++ {
				add(l, "truncate", seed[:o])
			}
			for o := 0; o < len(seed); o++ {
				for bit := 0; bit < 8; bit++ {
					m := append([]byte{}, seed...)
					m[o] ^= 1 << bit
					add(l, "bitflip", m)
				}
				for _, v := range []byte{0x00, 0x7f, 0x80, 0xff} {
					if seed[o] != v {
						m := append([]byte{}, seed...)
						m[o] = v
						add(l, "byteset", m)
					}
				}
			}
			if l == c20GRB {
				// every 8-byte window start that holds a plausible length/count field: use the tracing writer's boundaries
				bounds := c20Bounds(seed)
				for _, off := range bounds {
					if off+8 > len(seed) {
						continue
					}
					cur := binary.LittleEndian.Uint64(seed[off:])
					for _, v := range []uint64{0, 1, cur - 1, cur + 1, 1 << 31, 1<<32 - 1, 1 << 32, 1 << 36, 1 << 40, 1 << 63, 1<<64 - 1, uint64(len(seed)), uint64(len(seed)) * 4} {
						m := append([]byte{}, seed...)
						binary.LittleEndian.PutUint64(m[off:], v)
						add(l, "grb-field", m)
					}
				}
			}
			if l == c20GRB {
				// node references are AstID strings (uuid text): every occurrence replaced by every OTHER id of the
				// stream (same length, so the stream stays well-formed): dangling, duplicated and CYCLIC references
				// (a node referring to itself or to an ancestor)
				occ := c20UUID.FindAllIndex(seed, -1)
				ids := map[string]bool{}
				var idList []string
				for _, o := range occ {
					id := string(seed[o[0]:o[1]])
					if !ids[id] {
						ids[id] = true
						idList = append(idList, id)
					}
				}
				for _, o := range occ {
					for _, id := range idList {
						if id == string(seed[o[0]:o[1]]) {
							continue
						}
						m := append([]byte{}, seed...)
						copy(m[o[0]:], id)
						add(l, "grb-reference-substitution", m)
					}
				}
			}
			// splices with the other seeds at every 16th offset
			for sj, other := range seeds[l] {
				if sj == si || sj >= nSeeds+1 {
					continue
				}
				for o := 0; o < len(seed); o += 16 {
					for p := 0; p < len(other); p += 64 {
						add(l, "splice", append(append([]byte{}, seed[:o]...), other[p:]...))
					}
				}
			}
		}
	}
	// JSON loaders: every value of a seed replaced by each of a small set of alien values, and every
	// token string of length <= 4 over a JSON token alphabet
	jsonAlts := []string{"null", "true", "0", "-1", `""`, "[]", "{}", "[null]", `{"a":null}`, "1e999", `"\u0000"`}
	for _, l := range []int{c20JSONRule, c20JSONFact} {
		for si, seed := range seeds[l] {
			if si >= nSeeds+1 {
				break
			}
			for _, m := range c20JSONMutations(seed, jsonAlts) {
				add(l, "json-value-substitution", m)
			}
		}
		jt := []string{"[", "]", "{", "}", "null", "true", "0", `""`, ",", ":", `"name"`, `"when"`, `"then"`}
		var rec func(cur string, depth int)
		rec = func(cur string, depth int) {
			if depth > 0 {
				add(l, "json-tokens", []byte(cur))
			}
			if depth == 4 {
				return
			}
			for _, t := range jt {
				rec(cur+t, depth+1)
			}
		}
		rec("", 0)
	}
	// an error early in a text, then MORE rules that exercise whatever the loader keeps between rules (salience
	// clauses, descriptions, integer constants beyond 32 and near 64 bits, reals, strings): every single byte of two
	// multi-rule documents deleted, and replaced by a blank
	grl3 := "rule A \"a\" salience 3 { when F.I < 2 && F.S == \"x\" then F.I = F.I + 1; }\nrule B \"b\" salience 7 { when F.U > 4000000000 then F.I = 5000000000; Retract(\"B\"); }\nrule C salience -2 { when F.I == 9223372036854775807 || F.F < 1.5e300 then F.I = -3000000000; F.S = 'q'; }"
	js3 := `[{"name":"A","desc":"a","salience":3,"when":"F.I < 2","then":["F.I = F.I + 1"]},{"name":"B","salience":7,"when":{"gt":["F.U",4000000000]},"then":["F.I = 5000000000",{"call":["Retract",{"const":"B"}]}]},{"name":"C","salience":-2,"when":{"eq":["F.I",9007199254740993]},"then":[{"set":["F.I",-3000000000]}]}]`
	for _, d := range []struct {
		l   int
		txt string
	}{{c20GRL, grl3}, {c20JSONRule, js3}} {
		add(d.l, "error-then-rest", []byte(d.txt))
		for o := 0; o < len(d.txt); o++ {
			add(d.l, "error-then-rest", []byte(d.txt[:o]+d.txt[o+1:]))
			if d.txt[o] != ' ' {
				add(d.l, "error-then-rest", []byte(d.txt[:o]+" "+d.txt[o+1:]))
			}
		}
	}
	// operations on two LITERALS (whatever a loader may fold, check or pre-evaluate): every binary operator x every pair
	// of 12 literal operands incl. zero in every spelling, in a condition and in an action; through JSON too
	{
		lits := []string{"0", "1", "-1", "0x0", "00", "-0", "7", "1.5", "0.0", `"s"`, "true", "nil"}
		for _, op := range []string{"+", "-", "*", "/", "%", "&", "|", "==", "!=", "<", "<=", ">", ">=", "&&", "||"} {
			for _, a := range lits {
				for _, b := range lits {
					add(c20GRL, "literal-operation", []byte("rule r { when "+a+" "+op+" "+b+" == 1 then F.I = 1; }"))
					add(c20GRL, "literal-operation", []byte("rule r { when F.B then F.I = "+a+" "+op+" "+b+"; }"))
				}
			}
		}
		jl := []string{"0", "1", "-1", "7", "1.5", "0.0", `"s"`, "true", "null"}
		for _, op := range []string{"plus", "minus", "mul", "div", "mod", "band", "bor", "eq", "not", "gt", "gte", "lt", "lte", "and", "or"} {
			for _, a := range jl {
				for _, b := range jl {
					add(c20JSONRule, "literal-operation", []byte(`{"name":"r","when":{"eq":[{"`+op+`":[{"const":`+a+`},{"const":`+b+`}]},1]},"then":["F.I = 1"]}`))
				}
			}
		}
	}
	// boundary numbers and nesting
	nums := []string{"2147483647", "2147483648", "-2147483649", "9223372036854775807", "9223372036854775808", "18446744073709551616", strings.Repeat("9", 400), "1e999", "-1e999", "0x" + strings.Repeat("f", 40), "0" + strings.Repeat("7", 40), "1." + strings.Repeat("0", 400) + "1", "1e-999"}
	for _, n := range nums {
		add(c20GRL, "boundary-number", []byte("rule r salience "+n+" { when F.I == 1 then F.I = 2; }"))
		add(c20GRL, "boundary-number", []byte("rule r { when F.I == "+n+" then F.I = "+n+"; }"))
		add(c20JSONRule, "boundary-number", []byte(`{"name":"r","salience":`+n+`,"when":"F.B","then":["F.I = 1"]}`))
		add(c20JSONRule, "boundary-number", []byte(`{"name":"r","when":{"eq":["F.I",`+n+`]},"then":[{"set":["F.I",{"const":`+n+`}]}]}`))
		add(c20JSONFact, "boundary-number", []byte(`{"n":`+n+`}`))
	}
	depths := []int{10, 50, 150}
	if tier == "thorough" {
		depths = []int{10, 50, 150, 500, 1000, 2000}
	}
	for _, d := range depths {
		add(c20GRL, "nesting", []byte("rule r { when "+strings.Repeat("(", d)+"F.B"+strings.Repeat(")", d)+" then F.I = 1; }"))
		add(c20GRL, "nesting", []byte("rule r { when "+strings.Repeat("!", d)+"F.B then F.I = 1; }"))
		add(c20GRL, "nesting", []byte("rule r { when F.B then F.I = "+strings.Repeat("1 + ", d)+"1; }"))
		add(c20GRL, "nesting", []byte("rule r { when F"+strings.Repeat(".P", d)+".V == 1 then F.I = 1; }"))
		add(c20GRL, "nesting", []byte("rule r { when F.A"+strings.Repeat("[0]", d)+" == 1 then F.I = 1; }"))
		add(c20GRL, "nesting", []byte("rule r { when F.B then "+strings.Repeat("F.I = 1; ", d)+"}"))
		j := strings.Repeat(`{"and":[{"obj":"F.B"},`, d) + `{"obj":"F.B"}` + strings.Repeat(`]}`, d)
		add(c20JSONRule, "nesting", []byte(`{"name":"r","when":`+j+`,"then":["F.I = 1"]}`))
		add(c20JSONFact, "nesting", []byte(strings.Repeat("[", d)+strings.Repeat("]", d)))
		add(c20JSONFact, "nesting", []byte(strings.Repeat(`{"a":`, d)+"1"+strings.Repeat("}", d)))
	}
	// growth families: every recursive atom production (selector, member, method call, and their mixes) repeated on
	// every kind of head (variable, call, string constant, bare name), in a condition and in an action; nested
	// selectors, call arguments, brackets. Each shape at depths 12 and 16 (and 22): besides the absolute bounds, the
	// cost may grow at most polynomially (cubic: x2.4 from depth 12 to 16; a doubling per level would be x16).
	type shape struct {
		name string
		mk   func(d int) string
	}
	var shapes []shape
	for _, head := range []string{"F.A", "F.G()", "G()", `"s"`, "F"} {
		for _, step := range []string{"[0]", ".P", ".M()", "[0].P", ".M()[0]", `["k"].M(1)`} {
			head, step := head, step
			shapes = append(shapes, shape{"when:" + head + "+" + step, func(d int) string {
				return "rule r { when " + head + strings.Repeat(step, d) + " == 1 then F.I = 1; }"
			}})
			shapes = append(shapes, shape{"then:" + head + "+" + step, func(d int) string {
				return "rule r { when F.B then F.I = " + head + strings.Repeat(step, d) + "; }"
			}})
		}
	}
	shapes = append(shapes,
		shape{"selector-in-selector", func(d int) string {
			return "rule r { when F.A" + strings.Repeat("[F.A", d) + "[0]" + strings.Repeat("]", d) + " == 1 then F.I = 1; }"
		}},
		shape{"call-in-argument", func(d int) string {
			return "rule r { when " + strings.Repeat("F.G(", d) + "1" + strings.Repeat(")", d) + " == 1 then F.I = 1; }"
		}},
		shape{"call-in-second-argument", func(d int) string {
			return "rule r { when " + strings.Repeat("F.G(1, ", d) + "1" + strings.Repeat(")", d) + " == 1 then F.I = 1; }"
		}},
		shape{"negated-bracket", func(d int) string {
			return "rule r { when " + strings.Repeat("!(", d) + "F.B" + strings.Repeat(")", d) + " then F.I = 1; }"
		}},
		shape{"bracketed-sum", func(d int) string {
			return "rule r { when " + strings.Repeat("(F.I + ", d) + "1" + strings.Repeat(")", d) + " == 1 then F.I = 1; }"
		}},
		shape{"bracketed-and", func(d int) string {
			return "rule r { when " + strings.Repeat("(F.B && ", d) + "F.B" + strings.Repeat(")", d) + " then F.I = 1; }"
		}},
	)
	growthDepths := []int{12, 16, 22}
	for _, sh := range shapes {
		for _, d := range growthDepths {
			inputs = append(inputs, c20Input{loader: c20GRL, data: []byte(sh.mk(d)), class: "nesting-atom", fam: sh.name, depth: d})
		}
	}
	total := len(inputs)
	// run sharded over worker processes
	nw := runtime.NumCPU()
	results := make([]c20Result, total)
	done := make([]bool, total)
	var next int64 = -1
	var restarts int64
	var wg sync.WaitGroup
	var mu sync.Mutex
	var maxAlloc uint64
	var maxMicros int64
	for w := 0; w < nw; w++ {
		wg.Add(1)
		go func() {
			defer wg.Done()
			var p *c20Proc
			defer func() {
				if p != nil {
					p.kill()
				}
			}()
			for {
				i := int(atomic.AddInt64(&next, 1))
				if i >= total || bud.Over() {
					return
				}
				if rep.ReplayFilter != "" && rep.ReplayFilter != fmt.Sprintf("c20/%d", i) {
					continue
				}
				if p == nil {
					var err error
					p, err = c20Spawn()
					if err != nil {
						mu.Lock()
						rep.Violation("harness:C20-cannot-spawn-worker", err.Error(), nil)
						mu.Unlock()
						return
					}
				}
				r, alive := p.run(uint32(i), inputs[i], 30*time.Second)
				if !alive {
					p.kill()
					p = nil
					atomic.AddInt64(&restarts, 1)
					// confirm in isolation (twice) before believing a crash/hang
					confirmed := 0
					for k := 0; k < 2; k++ {
						q, err := c20Spawn()
						if err != nil {
							break
						}
						r2, alive2 := q.run(uint32(i), inputs[i], 60*time.Second)
						q.kill()
						if !alive2 && strings.SplitN(r2.status, ":", 2)[0] == strings.SplitN(r.status, ":", 2)[0] {
							confirmed++
						} else if alive2 {
							r = r2
						}
					}
					if confirmed < 2 && (strings.HasPrefix(r.status, "crash") || r.status == "hang") {
						r.status = "unconfirmed-" + r.status
					}
				}
				results[i] = r
				done[i] = true
				mu.Lock()
				if r.alloc > maxAlloc {
					maxAlloc = r.alloc
				}
				if r.micros > maxMicros {
					maxMicros = r.micros
				}
				mu.Unlock()
			}
		}()
	}
	wg.Wait()
	counts := map[string]int{}
	distinctFailures := map[string]int{}
	ran := 0
	for i, r := range results {
		if !done[i] {
			continue
		}
		ran++
		inp := inputs[i]
		kind := strings.SplitN(r.status, ":", 2)[0]
		counts[c20LoaderName[inp.loader]+"/"+kind]++
		if kind != "ok" && kind != "error" {
			distinctFailures[c20LoaderName[inp.loader]+": "+digitsRe.ReplaceAllString(trunc(r.status, 120), "N")]++
		}
		id := fmt.Sprintf("c20/%d", i)
		bound := uint64(8<<20) + 2048*uint64(len(inp.data))
		var sig, what string
		switch {
		case kind == "panic":
			sig = fmt.Sprintf("C20:panic:%s:%s", c20LoaderName[inp.loader], c20PanicClass(r.status))
			what = r.status
		case kind == "crash":
			sig = fmt.Sprintf("C20:process-abort:%s:%s:%s", c20LoaderName[inp.loader], inp.class, c20PanicClass(r.status))
			what = r.status
		case kind == "hang":
			sig = fmt.Sprintf("C20:hang:%s:%s", c20LoaderName[inp.loader], inp.class)
			what = "no result within the hang horizon (30 s, confirmed twice in isolation with 60 s)"
		case strings.HasPrefix(kind, "unconfirmed"):
			fmt.Printf("note: C20 input %d (%s/%s): %s (not reproduced in isolation, not reported)\n", i, c20LoaderName[inp.loader], inp.class, r.status)
		case r.alloc > bound:
			sig = fmt.Sprintf("C20:over-allocation:%s:%s", c20LoaderName[inp.loader], inp.class)
			what = fmt.Sprintf("allocated %d bytes for an input of %d bytes (bound %d)", r.alloc, len(inp.data), bound)
		}
		if sig != "" {
			rep.Violation(sig, fmt.Sprintf("%s on %s input (%s, %d bytes): %s\n  input (quoted, first 200 bytes): %q", strings.SplitN(sig, ":", 3)[1], c20LoaderName[inp.loader], inp.class, len(inp.data), what, trunc(string(inp.data), 200)),
				map[string]interface{}{"case": id, "loader": c20LoaderName[inp.loader], "class": inp.class, "input_hex": fmt.Sprintf("%x", inp.data)})
		}
	}
	// growth oracle
	famAlloc := map[string]map[int]uint64{}
	famIdx := map[string]int{}
	for i, inp := range inputs {
		if inp.fam == "" || !done[i] {
			continue
		}
		k := strings.SplitN(results[i].status, ":", 2)[0]
		if k != "ok" && k != "error" {
			continue
		}
		if famAlloc[inp.fam] == nil {
			famAlloc[inp.fam] = map[int]uint64{}
		}
		famAlloc[inp.fam][inp.depth] = results[i].alloc
		if inp.depth == 16 {
			famIdx[inp.fam] = i
		}
	}
	var growthPairs int64
	for fam, m := range famAlloc {
		a12, ok1 := m[12]
		a16, ok2 := m[16]
		if !ok1 || !ok2 || a12 == 0 {
			continue
		}
		growthPairs++
		if a16 > 4*a12 && a16 > 4<<20 {
			i := famIdx[fam]
			rep.Violation("C20:super-polynomial-cost:grl-text:"+fam, fmt.Sprintf("the cost of loading grows faster than any modest polynomial in the nesting depth: %d bytes allocated at depth 12, %d at depth 16 (x%.1f; cubic growth would be x2.4, a doubling per level x16)\n  input at depth 16 (quoted): %q", a12, a16, float64(a16)/float64(a12), trunc(string(inputs[i].data), 200)),
				map[string]interface{}{"case": fmt.Sprintf("c20/%d", i), "loader": "grl-text", "class": "nesting-atom", "input_hex": fmt.Sprintf("%x", inputs[i].data)})
		}
	}
	rep.Coverage["growth_families_compared"] = growthPairs
	for i := 0; i < total; i += total/5 + 1 {
		rep.Sample(map[string]interface{}{"case": fmt.Sprintf("c20/%d", i), "loader": c20LoaderName[inputs[i].loader], "class": inputs[i].class, "input": fmt.Sprintf("%q", trunc(string(inputs[i].data), 120)), "result": results[i].status})
	}
	rep.Coverage["evaluations"] = ran
	rep.Coverage["inputs_generated"] = total
	rep.Coverage["distinct_nontrivial"] = ran
	rep.Coverage["outcomes"] = counts
	rep.Coverage["distinct_failures"] = distinctFailures
	rep.Coverage["worker_restarts"] = restarts
	rep.Coverage["max_alloc_bytes_single_input"] = maxAlloc
	rep.Coverage["max_micros_single_input"] = maxMicros
	if ran < total {
		rep.Exhaustive = false
		rep.Coverage["caps_hit"] = fmt.Sprintf("time budget: %d of %d inputs run", ran, total)
	}
	rep.Coverage["rule"] = "four loaders (GRL text via the builder - into a fresh knowledge base and onto two knowledge bases that came out of the binary loader, one of them without any variable -, JSON rule via JSONResource+builder, JSON fact via DataContext.AddJSON, binary stream via LoadKnowledgeBaseFromReader), bounded-exhaustive input spaces, no sampling: every byte string of length <= 2 and every length-3 string over a 24-byte structural alphabet; for each valid seed every single-point mutation (every bit flip, every byte set to 00/7f/80/ff, truncation at every offset), every field start of a binary seed (boundaries from a tracing writer) overwritten with 13 boundary values, every node reference (AstID text) of a binary seed replaced by every other id of the stream (dangling, duplicated and cyclic references), splices of seed pairs, boundary numbers in every numeric position, every binary operator between every pair of 12 literal operands (zero in every spelling) in conditions and actions, every single byte of two multi-rule documents (saliences, descriptions, constants beyond 32 / near 64 bits after the damaged place) deleted or blanked, nesting depth 10..2000 (brackets, negations, operator chains, statement lists, and every recursive atom production - selector, member, method call and their mixes - repeated on every kind of head: variable, call, string constant, bare name; nested selectors and call arguments - each shape at depths 12, 16, 22 with a growth oracle: allocation at depth 16 at most 4x that at depth 12); for the JSON loaders every string value of a seed extended at either end by each of 18 tails (CR, VT, FF, NBSP, line separator, repeated ';', comment openers, NUL, backslash) and every value of a seed (at every path) replaced by each of 11 alien values (null, true, numbers, empty and null-holding containers, 1e999) and every token string of length <= 4 over a 13-token JSON alphabet. Each input runs in a child process under RLIMIT_AS (ulimit -v 4 GiB): the worker must survive (no escaped panic, no runtime abort), return a value or an error, allocate at most 8 MiB + 2048 bytes per input byte per loader call (runtime.MemStats.TotalAlloc delta; a GRL input makes three builder calls, the largest counts) and finish within the hang horizon. Every input is non-trivial (it exercises a loader end to end)."
	rep.Assumptions = append(rep.Assumptions, "uniformly random long inputs are sampling and outside this family; hang detection uses a wall clock (30 s for inputs that take microseconds, confirmed twice in isolation)")
}

func c20PanicClass(s string) string {
	for _, k := range []string{"Salience value out of range", "out of memory", "makeslice", "index out of range", "nil pointer", "stack overflow", "slice bounds", "interface conversion"} {
		if strings.Contains(s, k) {
			return strings.ReplaceAll(k, " ", "-")
		}
	}
	return "other"
}

// c20Bounds returns the offsets at which the serializer started a Write call for this stream
// (re-derived by loading and re-storing through a tracing writer; falls back to 8-byte steps).
func c20Bounds(stream []byte) []int {
	lib := ast.NewKnowledgeLibrary()
	if _, err := lib.LoadKnowledgeBaseFromReader(bytes.NewReader(stream), true); err != nil {
		return nil
	}
	tw := &traceWriter{failAt: -1}
	if err := lib.StoreKnowledgeBaseToWriter(tw, "KB", "1"); err != nil || tw.buf.Len() != len(stream) {
		// map iteration order may change the layout; use the trace of the re-stored stream only if sizes agree
		return nil
	}
	// the re-stored layout can differ in order; boundaries are still the same multiset of field sizes only if
	// identical bytes: check
	if !bytes.Equal(tw.buf.Bytes(), stream) {
		var out []int
		for o := 0; o+8 <= len(stream); o += 8 {
			out = append(out, o)
		}
		return out
	}
	return append([]int{0}, tw.bounds...)
}

// c20JSONMutations returns the seed with each JSON value (at every path) replaced by each alternative.
func c20JSONMutations(seed []byte, alts []string) [][]byte {
	var root interface{}
	if json.Unmarshal(seed, &root) != nil {
		return nil
	}
	var out [][]byte
	const marker = "\u0001MARK\u0001"
	var walk func(get func() interface{}, set func(interface{}))
	emit := func() {
		b, err := json.Marshal(root)
		if err != nil {
			return
		}
		q, _ := json.Marshal(marker)
		for _, a := range alts {
			out = append(out, bytes.Replace(b, q, []byte(a), 1))
		}
	}
	walk = func(get func() interface{}, set func(interface{})) {
		orig := get()
		set(marker)
		emit()
		set(orig)
		switch x := orig.(type) {
		case map[string]interface{}:
			for k := range x {
				k := k
				walk(func() interface{} { return x[k] }, func(v interface{}) { x[k] = v })
			}
		case []interface{}:
			for i := range x {
				i := i
				walk(func() interface{} { return x[i] }, func(v interface{}) { x[i] = v })
			}
		}
	}
	walk(func() interface{} { return root }, func(v interface{}) { root = v })
	// every STRING value of the document extended by each of a set of tails: white space of every kind
	// (CR, VT, FF, NBSP, line separator), repeated terminators, comment openers
	tails := []string{"\r", "\r\n", "\v", "\f", "\u00a0", "\u2028", " \t ", ";", ";;", "; ;", ";\r", ";\r\n", ";\v", ";\u00a0", "//", "/*", "\u0000", "\\"}
	var walkS func(get func() interface{}, set func(interface{}))
	walkS = func(get func() interface{}, set func(interface{})) {
		switch x := get().(type) {
		case string:
			for _, t := range tails {
				var tail string
				if json.Unmarshal([]byte(`"`+t+`"`), &tail) != nil {
					continue
				}
				set(x + tail)
				if b, err := json.Marshal(root); err == nil {
					out = append(out, b)
				}
				set(tail + x)
				if b, err := json.Marshal(root); err == nil {
					out = append(out, b)
				}
			}
			set(x)
		case map[string]interface{}:
			for k := range x {
				k := k
				walkS(func() interface{} { return x[k] }, func(v interface{}) { x[k] = v })
			}
		case []interface{}:
			for i := range x {
				i := i
				walkS(func() interface{} { return x[i] }, func(v interface{}) { x[i] = v })
			}
		}
	}
	walkS(func() interface{} { return root }, func(v interface{}) { root = v })
	return out
}
