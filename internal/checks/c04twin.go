package checks

import (
	"fmt"
	"reflect"
	"strings"

	"github.com/hyperjumptech/grule-rule-engine/ast"
	"github.com/hyperjumptech/grule-rule-engine/builder"
	"github.com/hyperjumptech/grule-rule-engine/engine"
	"github.com/hyperjumptech/grule-rule-engine/pkg"

	"verif/internal/ev"
)

// Fact TYPES as a dimension: several struct types of one process whose printed names coincide (function-local
// types called Rec; reflect prints all of them as "checks.Rec") and whose fields carry the same names at
// different positions, one with the fields promoted from an embedded struct. Anything the library remembers
// per type or per field across calls (it lives for the whole process) must be keyed by the type itself.
//
// Alphabet: (type, field, write | compound write | read); every sequence up to the depth bound, each operation
// one Execute / FetchMatchingRules with a freshly built knowledge base over fact objects that persist along the
// sequence. Oracle: the caller's own structs, read with standard-library reflection, hold exactly the written
// values in exactly the addressed fields (every other field unchanged); a read sees the field's current value.

func c04TwinA() interface{} {
	type Rec struct {
		A, B, C int64
		S       string
	}
	return &Rec{A: 1, B: 2, C: 3, S: "a"}
}

func c04TwinB() interface{} {
	type Rec struct {
		C int64
		S string
		A int64
		B int64
	}
	return &Rec{A: 1, B: 2, C: 3, S: "b"}
}

func c04TwinC() interface{} {
	type Inner struct {
		B, A int64
	}
	type Rec struct {
		S string
		Inner
		C int64
	}
	return &Rec{Inner: Inner{A: 1, B: 2}, C: 3, S: "c"}
}

type c04TwinOp struct {
	typ   int
	field string
	kind  int // 0 write, 1 compound write, 2 read
}

func (o c04TwinOp) String() string {
	return fmt.Sprintf("%s(T%d.%s)", []string{"write", "add", "read"}[o.kind], o.typ, o.field)
}

func c04TwinTypes(rep *ev.Reporter, depth int) (seqs, ops int64) {
	return twinTypes(rep, "C04", depth, []int{0, 1, 2})
}

// twinTypes: prop is the property whose check runs the family (signature prefix), kinds the operation kinds
// (0 write, 1 compound write, 2 read).
func twinTypes(rep *ev.Reporter, prop string, depth int, kinds []int) (seqs, ops int64) {
	makers := []func() interface{}{c04TwinA, c04TwinB, c04TwinC}
	var alphabet []c04TwinOp
	for t := range makers {
		for _, f := range []string{"A", "B", "C"} {
			for _, k := range kinds {
				alphabet = append(alphabet, c04TwinOp{t, f, k})
			}
		}
	}
	fieldsOf := func(x interface{}) map[string]interface{} {
		out := map[string]interface{}{}
		v := reflect.ValueOf(x).Elem()
		for _, f := range []string{"A", "B", "C", "S"} {
			out[f] = v.FieldByName(f).Interface()
		}
		return out
	}
	reported := map[string]bool{}
	fail := func(sig, what string, seq []c04TwinOp) {
		if reported[sig] {
			return
		}
		reported[sig] = true
		rep.Violation(sig, fmt.Sprintf("%s\n  operations (one knowledge base and one engine call each, in one process): %v", what, seq), map[string]interface{}{"case": strings.ToLower(prop) + "/twin-types", "ops": fmt.Sprint(seq)})
	}
	run := func(text string, x interface{}, fetch bool) (int, error) {
		lib := ast.NewKnowledgeLibrary()
		if err := builder.NewRuleBuilder(lib).BuildRuleFromResource("T", "1", pkg.NewBytesResource([]byte(text))); err != nil {
			return 0, err
		}
		kb, err := lib.NewKnowledgeBaseInstance("T", "1")
		if err != nil {
			return 0, err
		}
		dc := ast.NewDataContext()
		if err := dc.Add("X", x); err != nil {
			return 0, err
		}
		e := engine.NewGruleEngine()
		e.ReturnErrOnFailedRuleEvaluation = true
		if fetch {
			got, err := e.FetchMatchingRules(dc, kb)
			return len(got), err
		}
		return 0, e.Execute(dc, kb)
	}
	next := int64(10)
	var rec func(seq []c04TwinOp)
	rec = func(seq []c04TwinOp) {
		if len(seq) > 0 {
			seqs++
			// fresh fact objects per sequence, replayed from its start
			objs := make([]interface{}, len(makers))
			want := make([]map[string]interface{}, len(makers))
			for i, mk := range makers {
				objs[i] = mk()
				want[i] = fieldsOf(objs[i])
			}
			for _, o := range seq {
				ops++
				next++
				x := objs[o.typ]
				switch o.kind {
				case 0, 1:
					act := fmt.Sprintf("X.%s = %d", o.field, next)
					nv := next
					if o.kind == 1 {
						act = fmt.Sprintf("X.%s += %d", o.field, next)
						nv = want[o.typ][o.field].(int64) + next
					}
					if _, err := run(fmt.Sprintf(`rule w { when true then %s; Retract("w"); }`, act), x, false); err != nil {
						fail(prop+":write-fails:twin-types", fmt.Sprintf("%v: %v", o, err), seq)
						return
					}
					want[o.typ][o.field] = nv
				case 2:
					cur := want[o.typ][o.field].(int64)
					n, err := run(fmt.Sprintf(`rule eq { when X.%s == %d then Retract("eq"); } rule ne { when X.%s != %d then Retract("ne"); }`, o.field, cur, o.field, cur), x, true)
					if err != nil {
						fail(prop+":read-fails:twin-types", fmt.Sprintf("%v: %v", o, err), seq)
						return
					}
					if n != 1 {
						fail(prop+":read-sees-another-field:twin-types", fmt.Sprintf("%v: the field holds %d; of the rules 'X.%s == %d' and 'X.%s != %d' %d matched", o, cur, o.field, cur, o.field, cur, n), seq)
						return
					}
				}
				for i := range objs {
					if got := fieldsOf(objs[i]); !reflect.DeepEqual(got, want[i]) {
						fail(prop+":wrong-field-written:twin-types", fmt.Sprintf("after %v the struct of type #%d (%T) holds %v, the addressed writes give %v", o, i, objs[i], got, want[i]), seq)
						return
					}
				}
			}
		}
		if len(seq) == depth {
			return
		}
		for _, o := range alphabet {
			rec(append(append([]c04TwinOp{}, seq...), o))
		}
	}
	rec(nil)
	return
}
