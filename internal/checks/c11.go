package checks

import (
	"fmt"
	"github.com/hyperjumptech/grule-rule-engine/ast"
	"github.com/hyperjumptech/grule-rule-engine/engine"
	"sort"
	"strings"
	"sync"
	"sync/atomic"
	"time"

	"verif/internal/ev"
	"verif/internal/facts"
	"verif/internal/grl"
	"verif/internal/hx"
	"verif/internal/ref"
)

var c11Conds = []struct{ name, cond string }{
	{"true", "F.I >= 0"},
	{"false", "F.I < 0"},
	{"state", "F.I2 == 1"},
	{"shared", "F.Add(F.I, 1) > 0 && F.I2 >= 0"},
	{"nilptr", "F.P.V == 0"},
	{"missing", "Z.I == 0"},
	{"kind", "F.S > 1"},
	{"index", "F.Arr[5] == 0"},
	{"mapkey-paren-and", `(F.M["k"] > 1) && F.I >= 0`},
	{"mapkey-paren-or", `(F.M["k"] > 1) || F.I2 == 7`},
	// the LEFT operand fails to evaluate while the right one - shared with the plain conditions above, hence
	// possibly remembered from another rule visited earlier in the same pass - would decide the result
	{"missing-or-sharedtrue", "Z.I == 0 || F.I >= 0"},
	{"missing-and-sharedfalse", "Z.I == 0 && F.I < 0"},
	{"nilptr-or-sharedstate", "F.P.V == 0 || F.I2 == 1"},
	// a computed selector whose index expression also occurs on its own (cloned before the selector) and differs
	// between the fact states
	{"computed-selector", "F.I2 < 2 && F.SelArr[F.I2] == 5"},
	// time values far from the present (an "open ended" sentinel of year 9999, a date of 1492)
	{"far-times", "F.T < G.T && G.T >= F.T"},
}

type c11Case struct {
	id      string
	rules   []*grl.Rule
	removed []string // names
	remLib  bool     // removed at library level (else on the instance)
	flag    bool
}

func c11World(i2 int64) func() *ref.World {
	return func() *ref.World {
		w := ref.NewWorld()
		f := facts.New()
		f.I2 = i2
		f.Arr = []int64{1}
		f.SelArr = []int64{5, 6}
		f.T = time.Date(2024, 2, 29, 12, 0, 0, 0, time.UTC)
		if i2 != 0 {
			f.T = time.Date(1492, 10, 12, 0, 0, 0, 0, time.UTC)
		}
		g := facts.New()
		g.T = time.Date(9999, 12, 31, 23, 59, 59, 0, time.UTC)
		w.Objs["G"] = g
		if i2 == 0 {
			f.M = map[string]int64{"k": 5}
		} else {
			f.M = map[string]int64{}
		}
		w.Objs["F"] = f
		return w
	}
}

func C11(rep *ev.Reporter, tier string) {
	bud := NewBudget(150 * time.Second)
	n3 := 5
	if tier == "thorough" {
		bud = NewBudget(9 * time.Minute)
		n3 = len(c11Conds)
	}
	var cases []c11Case
	names := []string{"ra", "rb", "rc", "rd"}
	mk := func(i int, ci int, sal int64) *grl.Rule {
		r := grl.R(names[i], grl.Sal(sal), c11Conds[ci].cond, fmt.Sprintf("F.Act(%d)", i+1), "F.I = 99", fmt.Sprintf(`Retract("%s")`, names[i]))
		return r
	}
	salPairs := [][]int64{{0, 0}, {1, 0}, {0, 1}, {-1, -1}, {-1, 1}, {2147483647, -2147483648}}
	for a := range c11Conds {
		for b := range c11Conds {
			for si, sp := range salPairs {
				for ri, rem := range [][]string{nil, {"ra"}, {"rb"}, {"ra", "rb"}} {
					for _, lib := range []bool{true, false} {
						if rem == nil && !lib {
							continue
						}
						for _, flag := range []bool{false, true} {
							cases = append(cases, c11Case{id: fmt.Sprintf("c11/k2/%d.%d/s%d/r%d/lib%v/f%v", a, b, si, ri, lib, flag),
								rules: []*grl.Rule{mk(0, a, sp[0]), mk(1, b, sp[1])}, removed: rem, remLib: lib, flag: flag})
						}
					}
				}
			}
		}
	}
	salTriples := [][]int64{{0, 0, 0}, {1, 2, 3}, {3, 2, 1}, {5, 5, 1}, {1, 5, 5}, {5, 1, 5}}
	for a := 0; a < n3; a++ {
		for b := 0; b < n3; b++ {
			for c := 0; c < n3; c++ {
				for si, st := range salTriples {
					for ri, rem := range [][]string{nil, {"rb"}, {"rc", "ra"}} {
						for _, flag := range []bool{false, true} {
							cases = append(cases, c11Case{id: fmt.Sprintf("c11/k3/%d.%d.%d/s%d/r%d/f%v", a, b, c, si, ri, flag),
								rules: []*grl.Rule{mk(0, a, st[0]), mk(1, b, st[1]), mk(2, c, st[2])}, removed: rem, remLib: ri == 1, flag: flag})
						}
					}
				}
			}
		}
	}
	if tier == "thorough" {
		sal4 := [][]int64{{0, 0, 0, 0}, {1, 2, 2, 1}, {4, 3, 2, 1}, {1, 1, 2, 2}}
		for a := 0; a < 4; a++ {
			for b := 0; b < 4; b++ {
				for c := 0; c < 4; c++ {
					for d := 0; d < 4; d++ {
						for si, st := range sal4 {
							cases = append(cases, c11Case{id: fmt.Sprintf("c11/k4/%d.%d.%d.%d/s%d", a, b, c, d, si),
								rules: []*grl.Rule{mk(0, a, st[0]), mk(1, b, st[1]), mk(2, c, st[2]), mk(3, d, st[3])}, flag: false})
						}
					}
				}
			}
		}
	}
	worlds := []func() *ref.World{c11World(0), c11World(1)}
	var calls, programs, nontrivial, states int64
	outcomes := map[string]bool{}
	var omu = make(chan struct{}, 1)
	omu <- struct{}{}
	ParallelEach(len(cases), func(i int) {
		c := cases[i]
		if rep.ReplayFilter != "" && !strings.HasPrefix(rep.ReplayFilter, c.id+"#") {
			return
		}
		if bud.Over() {
			return
		}
		prog := hx.NewProgram(c.rules, grl.Style{})
		b, err := hx.Build(prog)
		atomic.AddInt64(&programs, 1)
		if err != nil {
			rep.Violation("harness:build-failed:"+c.id, err.Error(), map[string]interface{}{"case": c.id, "grl": prog.Text})
			return
		}
		removed := map[string]bool{}
		for _, n := range c.removed {
			removed[n] = true
			if c.remLib {
				b.Lib.RemoveRuleEntry(n, hx.KBName, hx.KBVer)
			}
		}
		for wi, mkw := range worlds {
			atomic.AddInt64(&states, 1)
			nperm := hx.NPerms(len(c.rules))
			instRemoval := !c.remLib && len(c.removed) > 0
			nPrior := 1 + 2*len(worlds)
			if instRemoval {
				nPrior += len(worlds)
			}
			for chx := 0; chx < nperm*nPrior; chx++ {
				ch := chx % nperm
				// -1: fresh instance; 0..1: an earlier Fetch with that world; 2..3: an earlier Execute (rules
				// fire and retract themselves) with world prior-2; 4..5: that Execute happens BEFORE the
				// instance-level removals
				prior := chx/nperm - 1
				if prior == wi {
					continue
				}
				caseID := fmt.Sprintf("%s#w%d#%d#prior%d", c.id, wi, ch, prior)
				if rep.ReplayFilter != "" && rep.ReplayFilter != caseID {
					continue
				}
				judgeOnce := func() (string, string, bool) {
					kb, err := b.Instance()
					if err != nil {
						return "C11:instance-failed", err.Error(), false
					}
					if prior >= 2*len(worlds) {
						hx.Run(b, worlds[prior-2*len(worlds)](), hx.RunOpts{KB: kb, MaxCycle: 6, NoSnapshots: true})
					}
					if !c.remLib {
						for _, n := range c.removed {
							kb.RemoveRuleEntry(n)
						}
					}
					if prior >= 0 && prior < len(worlds) {
						// an earlier call on the same instance with another fact state
						hx.Fetch(kb, worlds[prior](), false, ch)
					} else if prior >= len(worlds) && prior < 2*len(worlds) {
						hx.Run(b, worlds[prior-len(worlds)](), hx.RunOpts{KB: kb, MaxCycle: 6, NoSnapshots: true})
					}
					w := mkw()
					before := w.Dump()
					res := hx.Fetch(kb, w, c.flag, ch)
					if res.Panic != nil {
						return "C11:panic", fmt.Sprint(res.Panic), false
					}
					// reference
					var want []string
					anyErr := false
					for _, r := range c.rules {
						if removed[r.Name] {
							continue
						}
						ok, err := (&ref.Evaluator{W: w}).EvalBool(r.When)
						if err != nil {
							anyErr = true
							continue
						}
						if ok {
							want = append(want, r.Name)
						}
					}
					sort.Strings(want)
					nt := len(want) >= 2
					if w.Dump() != before {
						return "C11:facts-changed", "facts before:\n" + before + "after:\n" + w.Dump(), nt
					}
					for _, l := range w.Objs["F"].H().Log {
						if strings.HasPrefix(l, "act:") {
							return "C11:action-executed", "probe log: " + strings.Join(w.Objs["F"].H().Log, " "), nt
						}
					}
					if c.flag && anyErr {
						if res.Err == nil {
							return "C11:error-not-returned-with-flag", fmt.Sprintf("a condition fails to evaluate and ReturnErrOnFailedRuleEvaluation is set, but FetchMatchingRules returned %v, nil", res.Names), nt
						}
						return "", "", nt
					}
					if res.Err != nil {
						return "C11:unexpected-error", res.Err.Error(), nt
					}
					got := append([]string{}, res.Names...)
					sort.Strings(got)
					if strings.Join(got, ",") != strings.Join(want, ",") {
						return "C11:wrong-rule-set", fmt.Sprintf("returned %v, satisfied non-removed rules are %v (removed %v, order choice %d)", res.Names, want, c.removed, ch), nt
					}
					for k := 1; k < len(res.Names); k++ {
						if salOf(prog.ByName[res.Names[k-1]]) < salOf(prog.ByName[res.Names[k]]) {
							return "C11:not-ordered-by-salience", fmt.Sprintf("returned %v with saliences %v", res.Names, res.Sals), nt
						}
					}
					<-omu
					outcomes[strings.Join(res.Names, ",")] = true
					omu <- struct{}{}
					return "", "", nt
				}
				sig, what, nt := judgeOnce()
				atomic.AddInt64(&calls, 1)
				if nt {
					atomic.AddInt64(&nontrivial, 1)
				}
				if sig != "" {
					s2, _, _ := judgeOnce()
					if s2 != sig {
						fmt.Printf("HARNESS-NONDETERMINISM property=C11 case=%s\n", caseID)
						continue
					}
					rep.Violation(sig, what+"\n  case: "+caseID+"\n  grl: "+strings.ReplaceAll(prog.Text, "\n", "\n       "), map[string]interface{}{"case": caseID, "grl": prog.Text, "removed": c.removed, "flag": c.flag, "order_choice": ch})
				}
				if i == 0 && wi == 0 && ch == 0 {
					rep.Sample(map[string]interface{}{"case": caseID, "grl": prog.Text, "removed": c.removed, "flag": c.flag})
				}
			}
		}
	})
	nb, ntb := c11SharedEngine(rep, tier)
	calls += nb
	nontrivial += ntb
	rep.Coverage["calls_on_a_shared_engine_value"] = nb
	nm, ntm := c11CallerMutations(rep, tier)
	calls += nm
	nontrivial += ntm
	rep.Coverage["calls_between_caller_mutations"] = nm
	nd := c11SameDocumentTwice(rep)
	calls += nd
	rep.Coverage["calls_after_the_same_document_served_another_context"] = nd
	// fact TYPES: three struct types printed alike with permuted / promoted fields, every sequence of reads up to depth 3
	_, tops := twinTypes(rep, "C11", 3, []int{2})
	calls += tops
	rep.Coverage["calls_on_twin_fact_types"] = tops
	rep.Coverage["programs"] = programs
	rep.Coverage["evaluations"] = calls
	rep.Coverage["states"] = states
	rep.Coverage["transitions"] = calls
	rep.Coverage["traces_validated_against_impl"] = calls
	rep.Coverage["distinct_nontrivial"] = nontrivial
	rep.Coverage["distinct_outcomes"] = len(outcomes)
	rep.Coverage["order_controlled"] = hx.OrderLive()
	if !hx.OrderLive() {
		rep.Exhaustive = false
		rep.Coverage["order_note"] = "the rule-order hook is not live on this tree: rule orders were NOT enumerated (each run took whatever order the Go runtime chose)"
	}
	if bud.Hit() {
		rep.Exhaustive = false
		rep.Coverage["caps_hit"] = "time budget"
	}
	rep.Coverage["rule"] = "every rule set of 2 rules over 15 conditions (true, false, state-dependent, shared sub-expression, nil pointer, missing fact, kind mismatch, index out of range, parenthesised map lookup that errors in one world - shared between two shapes; && / || whose left operand fails while the right one is shared with another rule and would decide; a computed selector whose index expression also stands alone) x 6 salience pairs x removal sets (library- and instance-level) x both values of ReturnErrOnFailedRuleEvaluation, every rule set of 3 rules over 5 (thorough 8) conditions x 6 salience triples x 3 removal sets x flag (thorough: 4 rules), 2 fact states, EVERY rule-iteration order (k!), each call on a fresh instance AND on an instance that served an earlier Fetch with the other fact state AND on one that served an earlier Execute (every rule retracts itself when it fires) with either fact state, the Execute placed before or after the instance-level removals; states = (program, world) pairs, transitions = FetchMatchingRules calls. Oracle: returned names == non-removed rules whose condition the reference evaluator finds true (each once), model saliences non-increasing, facts unchanged, no action probe ran, error returned iff flag set and some condition fails. Non-trivial: >=2 rules satisfied. Second family (one engine value serves several calls): every history of 1..3 FetchMatchingRules calls over 3 knowledge bases x 2 fact states on ONE *GruleEngine, every returned slice retained and re-read after every later call; and every such call nested inside a condition probe of an outer call on the same engine value. Each retained answer must keep naming exactly the rules that were satisfied at its own call, in salience order."
}

// c11SharedEngine: the answers of FetchMatchingRules stay what they were, however the engine value is used afterwards
// (or meanwhile, from inside a fact method).
func c11SharedEngine(rep *ev.Reporter, tier string) (ncalls, nontrivial int64) {
	texts := []string{
		`rule a1 salience 9 { when F.I2 >= 0 then F.Act(1); }
rule a2 salience 1 { when F.Chk(1) && F.I2 >= 0 then F.Act(2); }
rule a3 salience 5 { when F.I2 == 0 then F.Act(3); }`,
		`rule b1 salience 7 { when F.I2 >= 0 then F.Act(4); }
rule b2 salience 3 { when F.I2 == 1 then F.Act(5); }`,
		`rule c1 { when F.I2 >= 0 && F.Chk(2) then F.Act(6); }`,
	}
	want := [][][]string{{{"a1", "a3", "a2"}, {"a1", "a2"}}, {{"b1"}, {"b1", "b2"}}, {{"c1"}, {"c1"}}} // [program][world]
	libs := make([]*ast.KnowledgeLibrary, len(texts))
	for i, t := range texts {
		l, err := hx.BuildText(t)
		if err != nil {
			rep.Violation("harness:build-failed:c11shared", err.Error(), nil)
			return
		}
		libs[i] = l
	}
	type call struct{ prog, world int }
	var alphabet []call
	for p := range texts {
		for w := 0; w < 2; w++ {
			alphabet = append(alphabet, call{p, w})
		}
	}
	type hist struct {
		calls  []call
		nested int // index into alphabet of the call nested into the FIRST probe of the LAST call, -1 none
	}
	var hs []hist
	var rec func(cur []call)
	rec = func(cur []call) {
		if len(cur) > 0 {
			hs = append(hs, hist{append([]call{}, cur...), -1})
			if last := cur[len(cur)-1]; last.prog != 1 { // programs 0 and 2 have a condition probe
				for ni := range alphabet {
					hs = append(hs, hist{append([]call{}, cur...), ni})
				}
			}
		}
		if len(cur) == 3 {
			return
		}
		for _, c := range alphabet {
			rec(append(cur, c))
		}
	}
	rec(nil)
	var mu sync.Mutex
	var n, nt int64
	ParallelEach(len(hs), func(hi int) {
		h := hs[hi]
		var parts []string
		for _, c := range h.calls {
			parts = append(parts, fmt.Sprintf("p%dw%d", c.prog, c.world))
		}
		caseID := fmt.Sprintf("c11/shared-engine/%s/nested%d", strings.Join(parts, ">"), h.nested)
		if rep.ReplayFilter != "" && rep.ReplayFilter != caseID {
			return
		}
		run := func() (sig, what string) {
			eng := &engine.GruleEngine{MaxCycle: 10}
			type kept struct {
				label string
				rs    []*ast.RuleEntry
				want  []string
			}
			var keptAll []kept
			check := func(after string) (string, string) {
				for _, k := range keptAll {
					var got []string
					for _, r := range k.rs {
						got = append(got, r.RuleName)
					}
					if strings.Join(got, ",") != strings.Join(k.want, ",") {
						return "C11:returned-answer-changed-by-later-use-of-the-engine", fmt.Sprintf("the slice returned by call %s named %v at its return; after %s it names %v", k.label, k.want, after, got)
					}
				}
				return "", ""
			}
			doCall := func(c call, label string, onProbe func(string, int64, int)) (string, string) {
				kb, err := libs[c.prog].NewKnowledgeBaseInstance(hx.KBName, hx.KBVer)
				if err != nil {
					return "C11:instance-failed", err.Error()
				}
				rs, ferr, pan := hx.FetchOn(eng, kb, c11World(int64(c.world))(), 0, onProbe)
				atomic.AddInt64(&n, 1)
				if pan != nil || ferr != nil {
					return "C11:unexpected-error", fmt.Sprint(ferr, pan)
				}
				w := want[c.prog][c.world]
				var got []string
				for _, r := range rs {
					got = append(got, r.RuleName)
				}
				if strings.Join(got, ",") != strings.Join(w, ",") {
					return "C11:wrong-rule-set:engine-value-used-before-or-meanwhile", fmt.Sprintf("call %s returned %v, expected %v", label, got, w)
				}
				keptAll = append(keptAll, kept{label, rs, w})
				return check("call " + label)
			}
			for i, c := range h.calls {
				label := fmt.Sprintf("#%d(%s)", i+1, parts[i])
				var onProbe func(string, int64, int)
				var nsig, nwhat string
				if i == len(h.calls)-1 && h.nested >= 0 {
					done := false
					onProbe = func(kind string, id int64, k int) {
						if kind == "chk" && !done {
							done = true
							nc := alphabet[h.nested]
							nsig, nwhat = doCall(nc, fmt.Sprintf("nested-in-%s(p%dw%d)", label, nc.prog, nc.world), nil)
						}
					}
				}
				if sig, what := doCall(c, label, onProbe); sig != "" {
					return sig, what
				}
				if nsig != "" {
					return nsig, nwhat
				}
			}
			return "", ""
		}
		sig, what := run()
		if len(h.calls) > 1 || h.nested >= 0 {
			atomic.AddInt64(&nt, 1)
		}
		if sig != "" {
			if s2, _ := run(); s2 != sig {
				fmt.Printf("HARNESS-NONDETERMINISM property=C11 case=%s\n", caseID)
				return
			}
			mu.Lock()
			rep.Violation(sig, what+"\n  case: "+caseID, map[string]interface{}{"case": caseID, "history": parts, "nested": h.nested})
			mu.Unlock()
		}
		if hi == 40 {
			rep.Sample(map[string]interface{}{"case": caseID, "history": parts, "nested_call": h.nested, "programs": texts})
		}
	})
	return n, nt
}
