package checks

import (
	"fmt"
	"strings"

	"verif/internal/facts"
	"verif/internal/grl"
	"verif/internal/hx"
	"verif/internal/ref"
)

// ---- dependency matrix: (writer rule, reader rule) over every pair of paths denoting one location ----

type depLoc struct {
	name    string
	writers []string // path texts usable as assignment target
	readers []string // path texts usable in conditions
	init    func(w *ref.World)
	isJSON  bool
	isMap   bool
	// extra writer actions specific to this location (full action lists), e.g. pointer swap
	special []depSpecial
}

type depSpecial struct {
	name string
	acts []string
}

func depBaseWorld() *ref.World {
	w := ref.NewWorld()
	f := facts.New()
	f.I2 = 8
	w.Objs["F"] = f
	g := facts.New()
	g.B = true
	g.Arr = []int64{100, 101, 102, 103, 104, 105, 106, 107, 108, 109, 110, 111, 112}
	w.Objs["G"] = g
	return w
}

var depLocs = []depLoc{
	{name: "field", writers: []string{"F.I"}, readers: []string{"F.I"}, init: func(w *ref.World) { w.Objs["F"].I = 4 },
		special: []depSpecial{
			{"bump+Forget", []string{"F.Bump()", `Forget("F.I")`, `Forget("F.Bump()")`}},
			{"bump+Changed", []string{"F.Bump()", `Changed("F.I")`, `Forget("F.Bump()")`}},
		}},
	{name: "ptrfield", writers: []string{"F.P.V"}, readers: []string{"F.P.V"}, init: func(w *ref.World) { w.Objs["F"].P = &facts.Sub{V: 4, Q: &facts.Sub{V: 7}} },
		special: []depSpecial{{"ptrswap", []string{"F.P = F.P.Q"}}}},
	{name: "ptrptrfield", writers: []string{"F.P.Q.V"}, readers: []string{"F.P.Q.V"}, init: func(w *ref.World) { w.Objs["F"].P = &facts.Sub{V: 0, Q: &facts.Sub{V: 4}} }},
	{name: "slice", writers: []string{"F.Arr[0]", "F.Arr[F.K]"}, readers: []string{"F.Arr[0]", "F.Arr[F.K]"}, init: func(w *ref.World) { w.Objs["F"].Arr = []int64{4, 1, 2}; w.Objs["F"].K = 0 }},
	{name: "map", isMap: true, writers: []string{`F.M["a"]`, "F.M[F.KS]"}, readers: []string{`F.M["a"]`, "F.M[F.KS]"}, init: func(w *ref.World) { w.Objs["F"].M = map[string]int64{"a": 4}; w.Objs["F"].KS = "a" }},
	{name: "mapptr", writers: []string{`F.MP["a"].V`, "F.MP[F.KS].V"}, readers: []string{`F.MP["a"].V`, "F.MP[F.KS].V"}, init: func(w *ref.World) { w.Objs["F"].MP = map[string]*facts.Sub{"a": {V: 4}}; w.Objs["F"].KS = "a" }},
	{name: "sliceptr", writers: []string{"F.PArr[0].V", "F.PArr[F.K].V"}, readers: []string{"F.PArr[0].V", "F.PArr[F.K].V"}, init: func(w *ref.World) { w.Objs["F"].PArr = []*facts.Sub{{V: 4}, {V: 1}}; w.Objs["F"].K = 0 }},
	{name: "grid", writers: []string{"F.Grid[0][1]", "F.Grid[F.K][1]", "F.Grid[0][F.K + 1]"}, readers: []string{"F.Grid[0][1]", "F.Grid[F.K][1]", "F.Grid[0][F.K + 1]"}, init: func(w *ref.World) { w.Objs["F"].Grid = [][]int64{{9, 4, 9}, {9, 9, 9}}; w.Objs["F"].K = 0 }},
	{name: "book", isMap: true, writers: []string{`F.Book["a"]["x"]`, `F.Book[F.KS]["x"]`}, readers: []string{`F.Book["a"]["x"]`, `F.Book[F.KS]["x"]`}, init: func(w *ref.World) {
		w.Objs["F"].Book = map[string]map[string]int64{"a": {"x": 4}}
		w.Objs["F"].KS = "a"
	}},
	{name: "promoted", writers: []string{"F.BI"}, readers: []string{"F.BI"}, init: func(w *ref.World) { w.Objs["F"].BI = 4 }},
	{name: "intmap", isMap: true, writers: []string{"F.MK[1]", "F.MK[F.K + 1]"}, readers: []string{"F.MK[1]", "F.MK[F.K + 1]"}, init: func(w *ref.World) { w.Objs["F"].MK = map[int64]int64{1: 4, 2: 9}; w.Objs["F"].K = 0 }},
	{name: "array", writers: []string{"F.A3[0]", "F.A3[F.K]"}, readers: []string{"F.A3[0]", "F.A3[F.K]"}, init: func(w *ref.World) { w.Objs["F"].A3 = [3]int64{4, 1, 2}; w.Objs["F"].K = 0 }},
	{name: "json", isJSON: true, writers: []string{"J.n", `J["n"]`}, readers: []string{"J.n", `J["n"]`}, init: func(w *ref.World) {
		w.JSON["J"] = map[string]interface{}{"n": 4.0, "o": map[string]interface{}{"n": 4.0}}
	}},
	{name: "jsonnested", isJSON: true, writers: []string{"J.o.n", `J.o["n"]`, `J["o"].n`}, readers: []string{"J.o.n", `J.o["n"]`, `J["o"].n`}, init: func(w *ref.World) {
		w.JSON["J"] = map[string]interface{}{"n": 1.0, "o": map[string]interface{}{"n": 4.0}}
	}},
	{name: "toplevel", writers: []string{"N"}, readers: []string{"N"}, init: func(w *ref.World) { w.Vars["N"] = int64(4) }},
}

// write forms: %s = writer path
var depWriteForms = []struct {
	name string
	act  string
}{
	{"assign-const", "%s = 7"},
	{"plus-assign", "%s += 1"},
	{"minus-assign", "%s -= 1"},
	{"mul-assign", "%s *= 2"},
	{"div-assign", "%s /= 2"},
	{"assign-expr", "%s = F.I2 + 1"},
}

// read shapes: %p = reader path, %c = constant
var depReadShapes = []struct {
	name   string
	cond   string
	noJSON bool
	third  bool
}{
	{"eq", "%p == %c", false, false},
	{"arith-gt", "%p + 1 > %c", false, false},
	{"neg-paren", "!(%p == %c)", false, false},
	{"and-left", "%p == %c && G.B", false, false},
	{"or-right", "!G.B || %p == %c", false, false},
	{"method-arg-expr", "G.IsPos(%p - %c)", true, false},
	{"method-arg", "G.Add(%p, 1) == %c", true, false},
	{"selector", "G.Arr[%p] == 100 + %c", true, false},
	{"shared-atom", "%p == %c", false, true},
	{"and-right", "G.B && %p == %c", false, false},
}

func fillShape(shape, path string, c int64) string {
	s := strings.ReplaceAll(shape, "%p", path)
	return strings.ReplaceAll(s, "%c", fmt.Sprintf("%d", c))
}

type depCell struct {
	loc              *depLoc
	wp, rp           string
	form, shape, dir string
	acts             []string
	cond             string
	third            bool
}

// depMatrix generates the dependency-matrix cases. nShapes limits the read shapes (quick tier).
func depMatrix(nShapes int, maxCycle uint64, emit func(Case)) {
	depMatrixOver(depLocs, nShapes, maxCycle, false, emit)
	depContainer(maxCycle, emit)
}

// depAliasLocs: ONE Go object reachable under two names or along two paths - a fact state like any other. A write
// through one path changes what the other reads.
var depAliasLocs = []depLoc{
	{name: "alias-two-names", writers: []string{"F.I", "H.I"}, readers: []string{"F.I", "H.I"}, init: func(w *ref.World) {
		w.Objs["F"].I = 4
		w.Objs["H"] = w.Objs["F"]
	}},
	{name: "alias-two-paths", writers: []string{"F.P.V", "F.PArr[0].V", `F.MP["a"].V`}, readers: []string{"F.P.V", "F.PArr[0].V", `F.MP["a"].V`}, init: func(w *ref.World) {
		s := &facts.Sub{V: 4}
		w.Objs["F"].P = s
		w.Objs["F"].PArr = []*facts.Sub{s}
		w.Objs["F"].MP = map[string]*facts.Sub{"a": s}
	}},
	{name: "alias-record-of-two-facts", writers: []string{"F.P.V", "G.P.V"}, readers: []string{"F.P.V", "G.P.V"}, init: func(w *ref.World) {
		s := &facts.Sub{V: 4}
		w.Objs["F"].P = s
		w.Objs["G"].P = s
	}},
}

// depAliasMatrix: the dependency matrix over the aliased locations (coarse signatures: one per location and
// same / other path).
func depAliasMatrix(maxCycle uint64, emit func(Case)) {
	depMatrixOver(depAliasLocs, 3, maxCycle, true, emit)
}

func depMatrixOver(locs []depLoc, nShapes int, maxCycle uint64, coarse bool, emit func(Case)) {
	salRel := []struct {
		name   string
		ws, rs int64
	}{{"w>r", 2, 1}, {"w=r", 1, 1}, {"w<r", 1, 2}}
	for li := range locs {
		loc := &locs[li]
		mkWorld := func() *ref.World {
			w := depBaseWorld()
			loc.init(w)
			return w
		}
		type wr struct {
			wp, form string
			acts     []string
		}
		var writes []wr
		for _, wp := range loc.writers {
			for fi, f := range depWriteForms {
				if coarse && fi >= 2 {
					continue
				}
				if loc.isMap && f.name == "div-assign" {
					continue // float64 into map[string]int64: rejected by the engine as documented
				}
				writes = append(writes, wr{wp, f.name, []string{fmt.Sprintf(f.act, wp)}})
			}
		}
		for _, sp := range loc.special {
			writes = append(writes, wr{loc.writers[0], sp.name, sp.acts})
		}
		for _, wv := range writes {
			// model post-state of the write
			post := mkWorld()
			okWrite := true
			{
				evl := &ref.Evaluator{W: post}
				var eff ref.Effect
				for _, a := range wv.acts {
					if err := evl.Apply(grl.A(a), &eff); err != nil {
						okWrite = false
					}
				}
			}
			if !okWrite {
				continue
			}
			for _, rp := range loc.readers {
				for si, sh := range depReadShapes {
					if si >= nShapes && !(nShapes < len(depReadShapes) && si == 8 && !coarse) {
						continue
					}
					if loc.isJSON && sh.noJSON {
						continue
					}
					for _, dir := range []string{"T->F", "F->T"} {
						// pick the first constant for which the shape's value flips as wanted
						found := false
						var cond string
						for c := int64(0); c <= 12 && !found; c++ {
							cs := fillShape(sh.cond, rp, c)
							e := grl.E(cs)
							pre := mkWorld()
							bv, err1 := (&ref.Evaluator{W: pre}).EvalBool(e)
							av, err2 := (&ref.Evaluator{W: post}).EvalBool(e)
							if err1 != nil || err2 != nil {
								continue
							}
							if (dir == "T->F" && bv && !av) || (dir == "F->T" && !bv && av) {
								found = true
								cond = cs
							}
						}
						if !found {
							continue
						}
						for _, sr := range salRel {
							writer := &grl.Rule{Name: "writer", HasSal: true, Sal: sr.ws, When: grl.E("G.I == 0")}
							for _, a := range wv.acts {
								writer.Then = append(writer.Then, grl.A(a))
							}
							writer.Then = append(writer.Then, grl.A("G.I = 1"))
							reader := &grl.Rule{Name: "reader", HasSal: true, Sal: sr.rs, When: grl.E(cond)}
							reader.Then = append(reader.Then, grl.A("G.I2 = G.I2 + 1"))
							rules := []*grl.Rule{writer, reader}
							if sh.third {
								third := &grl.Rule{Name: "third", HasSal: true, Sal: 0, When: grl.E(fmt.Sprintf("%s + 100 < 50", rp))}
								third.Then = append(third.Then, grl.A("G.I2 = G.I2 + 100"))
								rules = append(rules, third)
							}
							id := fmt.Sprintf("dep/%s/%s>%s/%s/%s/%s/%s", loc.name, wv.wp, rp, wv.form, sh.name, dir, sr.name)
							alias := "same-path"
							if wv.wp != rp {
								alias = "aliased-selector"
							}
							if wv.form == "ptrswap" {
								alias = "pointer-swap"
							}
							meta := map[string]string{"loc": loc.name, "wp": wv.wp, "rp": rp, "form": wv.form, "shape": sh.name, "dir": dir, "sal": sr.name, "alias": alias}
							if coarse {
								meta["form"], meta["shape"] = "any", "any"
								if wv.wp != rp {
									meta["alias"] = "other-name-or-path"
								}
							}
							emit(Case{ID: id, Rules: rules, Worlds: []func() *ref.World{mkWorld}, WorldNames: []string{"w"},
								Opts: hx.RunOpts{MaxCycle: maxCycle}, Meta: meta})
						}
					}
				}
			}
		}
	}
}

// depContainer: container-length readers: a write that inserts a map entry / reads Len() of the container
func depContainer(maxCycle uint64, emit func(Case)) {
	salRel := []struct {
		name   string
		ws, rs int64
	}{{"w>r", 2, 1}, {"w=r", 1, 1}, {"w<r", 1, 2}}
	for _, sr := range salRel {
		for _, cs := range []struct{ name, act, cond string }{
			{"maplen-insert", `F.M["b"] = 2`, "F.M.Len() < 2"},
			{"maplen-insert-ge", `F.M["b"] = 2`, "F.M.Len() >= 2"},
			{"mapkey-appears", `F.M["b"] = 2`, `F.M["b"] == 2`},
			{"slicelen-const", `F.Arr[0] = 9`, "F.Arr.Len() == 3 && F.Arr[0] == 9"},
		} {
			mkWorld := func() *ref.World {
				w := depBaseWorld()
				w.Objs["F"].M = map[string]int64{"a": 4}
				w.Objs["F"].Arr = []int64{4, 1, 2}
				return w
			}
			writer := &grl.Rule{Name: "writer", HasSal: true, Sal: sr.ws, When: grl.E("G.I == 0")}
			writer.Then = append(writer.Then, grl.A(cs.act), grl.A("G.I = 1"))
			reader := &grl.Rule{Name: "reader", HasSal: true, Sal: sr.rs, When: grl.E(cs.cond)}
			reader.Then = append(reader.Then, grl.A("G.I2 = G.I2 + 1"))
			emit(Case{ID: fmt.Sprintf("dep/container/%s/%s", cs.name, sr.name), Rules: []*grl.Rule{writer, reader}, Worlds: []func() *ref.World{mkWorld}, WorldNames: []string{"w"},
				Opts: hx.RunOpts{MaxCycle: maxCycle},
				Meta: map[string]string{"loc": "container", "wp": cs.act, "rp": cs.cond, "form": "assign-const", "shape": cs.name, "dir": "", "sal": sr.name, "alias": "container-read"}})
		}
	}
}

// depSig builds the violation signature of a dependency-matrix cell: property-specific prefix +
// the coordinates that characterise the stale dependency (not the salience relation or constant).
func depSig(prefix string, m map[string]string) string {
	if m == nil {
		return prefix
	}
	return fmt.Sprintf("%s:loc=%s:alias=%s:form=%s:shape=%s", prefix, m["loc"], m["alias"], m["form"], m["shape"])
}
