package checks

import (
	"fmt"
	"regexp"
	"sort"
	"strings"

	"verif/internal/ev"
	"verif/internal/facts"
	"verif/internal/grl"
	"verif/internal/hx"
	"verif/internal/ref"
)

// c05Sweep: MANY distinct arguments through one built-in in one process, then the early ones again. Whatever the
// library keeps per argument (a compiled pattern, an index, a parsed layout) has a capacity, and what happens
// beyond it is part of the built-in's meaning. Two shapes: one rule whose pattern comes from a fact, evaluated for
// N patterns and then again for the first ones; and one knowledge base of N rules, each with its own literal
// pattern, asked for several subjects in turn, twice. Oracle: Go's regexp.MatchString.
func c05Sweep(rep *ev.Reporter, tier string) (n int64) {
	N := 160
	if tier == "thorough" {
		N = 700
	}
	pat := func(i int) string { return fmt.Sprintf("^a{%d}$", i) }
	subj := func(i int) string { return strings.Repeat("a", i) }
	fail := func(sig, what string) {
		rep.Violation(sig, what, map[string]interface{}{"case": "c05/sweep"})
	}
	// (a) pattern supplied by a fact
	{
		rules := []*grl.Rule{grl.R("m", nil, "F.S.MatchString(F.KS)", "F.K = 1"), grl.R("nm", nil, "!F.S.MatchString(F.KS)", "F.K = 2")}
		b, err := hx.Build(hx.NewProgram(rules, grl.Style{}))
		if err != nil {
			fail("harness:build-failed:c05sweep", err.Error())
			return
		}
		ask := func(round string, i, j int) bool {
			kb, err := b.Instance()
			if err != nil {
				fail("C05:instance-failed", err.Error())
				return false
			}
			w := ref.NewWorld()
			f := facts.New()
			f.S, f.KS = subj(j), pat(i)
			w.Objs["F"] = f
			res := hx.Fetch(kb, w, true, 0)
			n++
			want, _ := regexp.MatchString(f.KS, f.S)
			got := len(res.Names) == 1 && res.Names[0] == "m"
			if res.Err != nil || res.Panic != nil || len(res.Names) != 1 || got != want {
				fail("C05:wrong-value:builtin-match:many-distinct-patterns", fmt.Sprintf("%s: %q.MatchString(%q) is %v per regexp.MatchString; the rules 'F.S.MatchString(F.KS)' / its negation matched %v (err %v %v), after %d evaluations with other patterns in this process", round, f.S, f.KS, want, res.Names, res.Err, res.Panic, n))
				return false
			}
			return true
		}
	sweep:
		for _, round := range []string{"first pass", "second pass"} {
			for i := 1; i <= N; i++ {
				if !ask(round, i, i) || !ask(round, i, i+1) {
					break sweep
				}
			}
		}
	}
	// (b) N rules, each with its own literal pattern
	{
		M := 70
		var rules []*grl.Rule
		for i := 1; i <= M; i++ {
			rules = append(rules, grl.R(fmt.Sprintf("c%03d", i), nil, fmt.Sprintf("F.S.MatchString(%q)", pat(i)), "F.K = 1"))
		}
		b, err := hx.Build(hx.NewProgram(rules, grl.Style{}))
		if err != nil {
			fail("harness:build-failed:c05sweep", err.Error())
			return
		}
		kb, err := b.Instance()
		if err != nil {
			fail("C05:instance-failed", err.Error())
			return
		}
	classes:
		for _, round := range []string{"first pass", "second pass"} {
			for _, j := range []int{1, 2, 33, 34, 64, 65, 70, 3} {
				w := ref.NewWorld()
				f := facts.New()
				f.S = subj(j)
				w.Objs["F"] = f
				res := hx.Fetch(kb, w, true, 0)
				n += int64(M)
				got := append([]string{}, res.Names...)
				sort.Strings(got)
				want := fmt.Sprintf("c%03d", j)
				if res.Err != nil || res.Panic != nil || strings.Join(got, ",") != want {
					fail("C05:wrong-value:builtin-match:many-rules-with-own-pattern", fmt.Sprintf("%s: a knowledge base of %d rules 'F.S.MatchString(\"^a{i}$\")', subject %q: matched %v (err %v %v), only %s matches per regexp.MatchString", round, M, f.S, got, res.Err, res.Panic, want))
					break classes
				}
			}
		}
	}
	return
}
