package checks

import (
	"fmt"
	"strconv"
	"strings"
	"sync/atomic"
	"time"

	"verif/internal/ev"
	"verif/internal/facts"
	"verif/internal/grl"
	"verif/internal/hx"
	"verif/internal/ref"
)

// %d is replaced by rule number * 10 + 1 (condition probe) / + 2 (action probe); 99 is a shared probe.
var c14Conds = []struct{ name, cond string }{
	{"probe-alone", "F.Chk(%c)"},
	{"probe-and-left", "F.Chk(%c) && F.I < 2"},
	{"probe-and-right", "F.I < 2 && F.Chk(%c)"},
	{"probe-shared", "F.Chk(99) && F.I < 3"},
	{"healthy", "F.I < 2"},
	{"nil-pointer", "F.P.V == 0"},
	{"index-range", "F.Arr[7] == 0"},
	{"missing-key", `F.M["zz"] == 0`},
	{"missing-fact", "Z.I == 0"},
	{"kind-mismatch", "F.S > 1"},
	{"mod-zero", "F.I % F.I2 == 0"},
	{"unknown-field", "F.Nope == 1"},
	{"unknown-method", "F.NoMethod() == 1"},
	{"two-results", "F.Two() == 1"},
	{"paren-or-later-fails", "(F.Arr[F.K] > 0) || F.I2 == 9"},
	{"paren-and-later-fails", "(F.Arr[F.K] > 5) && F.I2 == 0"},
	{"selector-later-fails", "F.Arr[F.K] > 0 && F.I < 5"},
	// the same failure sites on a JSON fact
	{"json-index-range", "J.a[7] == 0"},
	{"json-index-range-const-left", `"x" == J.a[7]`},
	{"json-missing-member", "J.zz.n == 0"},
	// a path that is healthy until an action sets the pointer on it to nil
	{"pointer-path-healthy-until-nilled", "F.PArr[0].V == 5 && F.I < 3"},
	{"pointer-field-path-healthy-until-nilled", "F.PArr[0].Q.V == 6 && F.I < 3"},
	{"fact-pointer-field-healthy-until-nilled", "H.P.V == 7 && F.I < 3"},
	// maps and slices that were never made, a JSON null
	{"nil-map-read", "F.MK[1] == 0"},
	{"nil-slice-index", "F.SArr[0] == \"\""},
	{"nil-map-len-healthy", "F.MK.Len() == 0 && F.I < 2"},
	{"json-null-member", "J.nul == 0"},
	{"json-null-descent", "J.nul.x == 0"},
}

var c14Acts = []struct {
	name string
	acts []string
}{
	{"probe-first", []string{"F.Act(%a)", "F.I = F.I + 1"}},
	{"probe-middle", []string{"F.I = F.I + 1", "F.Act(%a)", "F.I2 = F.I2 + 1"}},
	{"probe-last", []string{"F.I = F.I + 1", "F.I2 = F.I2 + 1", "F.Act(%a)"}},
	{"act-nil-pointer", []string{"F.I = F.I + 1", "F.P.V = 1", "F.I2 = 9"}},
	{"act-index-range", []string{"F.I = F.I + 1", "F.Arr[7] = 1", "F.I2 = 8"}},
	{"act-kind-mismatch", []string{"F.I = F.I + 1", `F.I8 = "x"`, "F.I2 = 7"}},
	{"act-unknown-field", []string{"F.I = F.I + 1", "F.Nope = 1", "F.I2 = 6"}},
	{"act-missing-fact", []string{"F.I = F.I + 1", "Z.I = 1", "F.I2 = 5"}},
	{"act-rhs-fails", []string{"F.I = F.I + 1", "F.I2 = F.P.V + 1", "F.I2 = 4"}},
	{"selector-goes-out-of-range", []string{"F.K = 7", "F.Act(%a)"}},
	{"complete-then-error", []string{"F.I = F.I + 1", "Complete()", "F.Arr[7] = 1", "F.I2 = 3"}},
	{"complete-then-probe", []string{"Complete()", "F.Act(%a)", "F.I2 = 2"}},
	{"retract-then-error", []string{`Retract("r2")`, "F.I = F.I + 1", `F.I8 = "x"`}},
	// a target that can be read but not written (a field of a struct held by value in a map), assigned the value it
	// already holds / another value: the assignment fails either way
	{"act-unwritable-target-same-value", []string{"F.I = F.I + 1", `F.MSV["a"].V = 10`, "F.I2 = 13"}},
	{"act-unwritable-target-other-value", []string{"F.I = F.I + 1", `F.MSV["a"].V = 11`, "F.I2 = 14"}},
	{"act-json-index-range-rhs", []string{"F.I = F.I + 1", "J.n = J.a[7]", "F.I2 = 11"}},
	// compound assignments whose arithmetic fails, on every kind of target
	{"act-compound-fails-map-entry", []string{"F.I = F.I + 1", `F.M["a"] -= "ten"`, "F.I2 = 18"}},
	{"act-compound-fails-json-member", []string{"F.I = F.I + 1", `J.n *= "x"`, "F.I2 = 19"}},
	{"act-compound-fails-field", []string{"F.I = F.I + 1", `F.I8 /= "x"`, "F.I2 = 20"}},
	{"act-compound-fails-slice-element", []string{"F.I = F.I + 1", `F.Arr[0] -= "x"`, "F.I2 = 21"}},
	{"act-compound-nil-operand-map-entry", []string{"F.I = F.I + 1", `F.M["a"] += F.P.V`, "F.I2 = 22"}},
	{"act-compound-nil-operand-json-member", []string{"F.I = F.I + 1", `J.n -= F.P.V`, "F.I2 = 23"}},
	{"act-nils-pointer-then-reads", []string{"F.I = F.I + 1", "F.PArr[0] = F.P", "F.I2 = F.PArr[0].V", "F.I2 = 24"}},
	{"act-nils-pointer", []string{"F.I = F.I + 1", "F.PArr[0] = F.P"}},
	{"act-nils-pointer-field-then-reads", []string{"F.I = F.I + 1", "F.PArr[0].Q = F.P", "F.I2 = F.PArr[0].Q.V", "F.I2 = 25"}},
	{"act-nils-pointer-field", []string{"F.I = F.I + 1", "F.PArr[0].Q = F.P"}},
	{"act-nils-fact-pointer-field-then-reads", []string{"F.I = F.I + 1", "H.P = F.P", "F.I2 = H.P.V", "F.I2 = 26"}},
	{"act-nils-fact-pointer-field", []string{"F.I = F.I + 1", "H.P = F.P"}},
	{"act-nil-map-write", []string{"F.I = F.I + 1", "F.MK[1] = 2", "F.I2 = 15"}},
	{"act-nil-slice-write", []string{"F.I = F.I + 1", `F.SArr[0] = "x"`, "F.I2 = 16"}},
	{"act-json-null-descent-write", []string{"F.I = F.I + 1", "J.nul.x = 1", "F.I2 = 17"}},
	{"act-json-index-range-rhs-to-field", []string{"F.I = F.I + 1", "F.In = J.a[7]", "F.I2 = 12"}},
}

func c14Rule(i int, ci, ai int) *grl.Rule {
	name := fmt.Sprintf("r%d", i)
	cond := strings.ReplaceAll(c14Conds[ci].cond, "%c", strconv.Itoa(i*10+1))
	r := &grl.Rule{Name: name, When: c14Expr(cond)}
	for _, a := range c14Acts[ai].acts {
		r.Then = append(r.Then, c14Act(strings.ReplaceAll(a, "%a", strconv.Itoa(i*10+2))))
	}
	return r
}

// unknown members are not understood by the reference model: they yield ErrEval through "no field"
func c14Expr(s string) grl.Expr  { return grl.E(s) }
func c14Act(s string) grl.Action { return grl.A(s) }

func c14World(faultAt, kind int) func() *ref.World {
	return func() *ref.World {
		w := ref.NewWorld()
		f := facts.New()
		f.Arr = []int64{1}
		f.M = map[string]int64{"a": 1}
		f.MSV = map[string]facts.Sub{"a": {V: 10, S: "held by value"}}
		f.PArr = []*facts.Sub{{V: 5, Q: &facts.Sub{V: 6}}}
		f.H().FaultAt = faultAt
		f.H().FaultKind = kind
		w.Objs["F"] = f
		h := facts.New()
		h.P = &facts.Sub{V: 7} // a pointer field of a fact itself: healthy until an action sets it to nil
		w.Objs["H"] = h
		w.JSON["J"] = map[string]interface{}{"n": 1.0, "a": []interface{}{1.0, 2.0}, "nul": nil}
		return w
	}
}

// ruleOfProbe maps a probe id to the rule names that contain it.
func c14RulesOfProbe(rules []*grl.Rule, id int64) map[string]bool {
	out := map[string]bool{}
	for _, r := range rules {
		has := false
		chk := func(e grl.Expr) {
			grl.Walk(e, func(x grl.Expr) {
				if c, ok := x.(*grl.Call); ok && (c.Name == "Chk" || c.Name == "Act") && len(c.Args) == 1 {
					if l, ok := c.Args[0].(*grl.Lit); ok && l.I == id {
						has = true
					}
				}
			})
		}
		chk(r.When)
		for _, a := range r.Then {
			if a.Call != nil {
				chk(a.Call)
			}
		}
		if has {
			out[r.Name] = true
		}
	}
	return out
}

func c14Judge(rules []*grl.Rule, flag bool, tr *hx.Trace, w *ref.World) (sig, what string, nontrivial bool) {
	if tr.Panic != nil {
		return "C14:panic-escaped", fmt.Sprintf("a panic escaped Execute: %v", tr.Panic), true
	}
	f := w.Objs["F"]
	h := f.H()
	faultIdx := 0
	faultKind, faultID := "", int64(0)
	if len(h.Faulted) > 0 {
		faultIdx = h.Faulted[0]
		// the faultIdx-th probe entry of the log
		n := 0
		for _, l := range h.Log {
			if strings.HasPrefix(l, "chk:") || strings.HasPrefix(l, "act:") {
				n++
				if n == faultIdx {
					p := strings.SplitN(l, ":", 2)
					faultKind = p[0]
					faultID, _ = strconv.ParseInt(p[1], 10, 64)
				}
			}
		}
	}
	byName := map[string]*grl.Rule{}
	for _, r := range rules {
		byName[r.Name] = r
	}
	last := len(tr.Cycles) - 1
	everFailed := map[string]bool{}
	for ci, cy := range tr.Cycles {
		// "not a candidate IN THAT CYCLE": a rule whose condition failed earlier is evaluated again in every later cycle
		if !flag && !(ci == last && tr.Err != nil && !hx.IsLimitErr(tr.Err)) {
			reported := map[string]bool{}
			for _, e := range cy.Evals {
				reported[e.Rule] = true
			}
			for _, name := range cy.ActiveModel {
				if everFailed[name] && !reported[name] {
					return "C14:rule-dropped-after-its-condition-failed", fmt.Sprintf("cycle %d: the condition of %s failed in an earlier cycle; nobody retracted or removed the rule, yet it is not evaluated any more (reported: %v)", cy.N, name, sortedKeys(reported)), true
				}
			}
		}
		failing := map[string]bool{} // rules whose evaluation failed in this cycle (as far as evaluated)
		for _, e := range cy.Evals {
			faultedHere := false
			for _, p := range e.Probes {
				if p == faultIdx {
					faultedHere = true
				}
			}
			rr := cy.RefAt[e.Rule]
			_, refFails := rr.Err.(*ref.ErrEval)
			switch {
			case faultedHere:
				nontrivial = true
				failing[e.Rule] = true
				if e.Cand {
					return "C14:rule-candidate-despite-failing-condition", fmt.Sprintf("cycle %d: a fault was injected while evaluating %s, yet it was reported as candidate", cy.N, e.Rule), true
				}
			case refFails:
				nontrivial = true
				failing[e.Rule] = true
				if e.Cand {
					return "C14:rule-candidate-despite-failing-condition", fmt.Sprintf("cycle %d: the condition of %s fails to evaluate (%v), yet it was reported as candidate", cy.N, e.Rule, rr.Err), true
				}
			case rr.Err == nil:
				if e.Cand != rr.True {
					return "C14:healthy-rule-disturbed", fmt.Sprintf("cycle %d: %s evaluated without failure but reported candidate=%v while its condition is %v (fault at probe %d %s:%d)", cy.N, e.Rule, e.Cand, rr.True, faultIdx, faultKind, faultID), true
				}
			}
		}
		for k := range failing {
			everFailed[k] = true
		}
		if flag {
			// the failing rule is not reported to listeners (Execute returns first): it is the
			// model-active rule that fails per the reference / owns the faulted condition probe
			reported := map[string]bool{}
			for _, e := range cy.Evals {
				reported[e.Rule] = true
			}
			mustFail := map[string]bool{}
			for k := range failing {
				mustFail[k] = true
			}
			if ci == last && tr.Err != nil && !hx.IsLimitErr(tr.Err) && cy.Exec == "" {
				// which unreported rule failed?
				for _, name := range cy.ActiveModel {
					if reported[name] {
						continue
					}
					if _, bad := cy.RefAt[name].Err.(*ref.ErrEval); bad {
						mustFail[name] = true
					}
				}
				if faultKind == "chk" {
					for n := range c14RulesOfProbe(rules, faultID) {
						mustFail[n] = true
					}
				}
				named := false
				for n := range mustFail {
					if strings.Contains(tr.Err.Error(), n) {
						named = true
					}
				}
				if !named {
					return "C14:error-does-not-name-failing-rule", fmt.Sprintf("cycle %d: Execute returned %q which names none of the rules whose condition failed %v", cy.N, tr.Err.Error(), sortedKeys(mustFail)), true
				}
				nontrivial = true
			} else if len(failing) > 0 {
				return "C14:condition-failure-not-returned-with-flag", fmt.Sprintf("cycle %d: conditions of %v failed, ReturnErrOnFailedRuleEvaluation is set, but the run went on (err=%v)", cy.N, sortedKeys(failing), tr.Err), true
			}
		}
		if cy.Exec != "" {
			actFault := faultKind == "act" && c14RulesOfProbe(rules, faultID)[cy.Exec] && ci == last && faultHappenedAfterExec(tr, cy.N)
			if actFault || cy.ModelErr != nil {
				nontrivial = true
				if tr.Err == nil || !strings.Contains(tr.Err.Error(), cy.Exec) {
					return "C14:action-failure-not-reported", fmt.Sprintf("cycle %d: an action of %s failed but Execute returned %v", cy.N, cy.Exec, tr.Err), true
				}
				if ci != last {
					return "C14:rule-fired-after-action-failure", fmt.Sprintf("cycle %d: an action of %s failed but cycle %d followed", cy.N, cy.Exec, cy.N+1), true
				}
				if actFault && cy.Pre != nil {
					model := cy.Pre.Clone()
					evl := &ref.Evaluator{W: model}
					var eff ref.Effect
					for _, a := range byName[cy.Exec].Then {
						if a.Call != nil {
							if c, ok := a.Call.(*grl.Call); ok && c.Name == "Act" {
								if l, ok := c.Args[0].(*grl.Lit); ok && l.I == faultID {
									break
								}
							}
						}
						if err := evl.Apply(a, &eff); err != nil {
							break
						}
					}
					if model.Dump() != tr.FinalDump {
						return "C14:completed-actions-not-kept", fmt.Sprintf("cycle %d: after the failing action of %s the facts are not those left by the completed prefix of actions\nmodel:\n%sreal:\n%s", cy.N, cy.Exec, model.Dump(), tr.FinalDump), true
					}
				} else if cy.ModelErr != nil && cy.PostChecked && !cy.PostOK {
					return "C14:completed-actions-not-kept", fmt.Sprintf("cycle %d: after the failing action of %s the facts are not those left by the completed prefix of actions\n%s", cy.N, cy.Exec, cy.PostDiff), true
				}
			}
		}
	}
	return "", "", nontrivial
}

func faultHappenedAfterExec(tr *hx.Trace, n uint64) bool {
	seenX := false
	for _, e := range tr.Events {
		if strings.HasPrefix(e, fmt.Sprintf("X%d:", n)) {
			seenX = true
		}
	}
	return seenX
}

func C14(rep *ev.Reporter, tier string) {
	bud := NewBudget(150 * time.Second)
	// companions: every condition shape x the first 4 action lists, plus the pairs that matter for later failures
	companions := [][2]int{{4, 9}, {14, 9}}
	nActs := 4
	if tier == "thorough" {
		bud = NewBudget(9 * time.Minute)
		nActs = len(c14Acts)
	}
	for c := range c14Conds {
		for a := 0; a < nActs; a++ {
			companions = append(companions, [2]int{c, a})
		}
	}
	type prog struct {
		id    string
		rules []*grl.Rule
	}
	var progs []prog
	for c1 := range c14Conds {
		for a1 := range c14Acts {
			for _, cp := range companions {
				progs = append(progs, prog{fmt.Sprintf("c14/%s.%s/%s.%s", c14Conds[c1].name, c14Acts[a1].name, c14Conds[cp[0]].name, c14Acts[cp[1]].name),
					[]*grl.Rule{c14Rule(1, c1, a1), c14Rule(2, cp[0], cp[1])}})
			}
		}
	}
	{
		k3c, k3a := 6, 4
		if tier == "thorough" {
			k3c, k3a = len(c14Conds), len(c14Acts)
		}
		for c1 := 0; c1 < k3c; c1++ {
			for a1 := 0; a1 < k3a; a1++ {
				progs = append(progs, prog{fmt.Sprintf("c14/k3/%d.%d", c1, a1), []*grl.Rule{c14Rule(1, c1, a1), c14Rule(2, 3, 1), c14Rule(3, 2, 2)}})
			}
		}
	}
	var runs, nontrivial, programs, faultPoints int64
	ParallelEach(len(progs), func(i int) {
		p := progs[i]
		if rep.ReplayFilter != "" && !strings.HasPrefix(rep.ReplayFilter, p.id+"#") {
			return
		}
		if bud.Over() {
			return
		}
		b, err := hx.Build(hx.NewProgram(p.rules, grl.Style{}))
		atomic.AddInt64(&programs, 1)
		if err != nil {
			rep.Violation("harness:build-failed:"+p.id, err.Error(), map[string]interface{}{"case": p.id})
			return
		}
		nperm := hx.NPerms(len(p.rules))
		for _, flag := range []bool{false, true} {
			for order := 0; order < nperm; order++ {
				opts := hx.RunOpts{MaxCycle: 4, ReturnErr: flag, DefaultChoice: order}
				runOne := func(k, kind int) (string, string, bool, int) {
					w := c14World(k, kind)()
					tr := hx.Run(b, w, opts)
					s, wh, nt := c14Judge(p.rules, flag, tr, w)
					if s != "" {
						wh += "\n  events: " + strings.Join(tr.Events, " ")
					}
					return s, wh, nt, w.Objs["F"].H().Probes
				}
				report := func(k, kind int, sig, what string) {
					caseID := fmt.Sprintf("%s#f%v#o%d#k%d.%d", p.id, flag, order, k, kind)
					s2, _, _, _ := runOne(k, kind)
					if s2 != sig {
						fmt.Printf("HARNESS-NONDETERMINISM property=C14 case=%s\n", caseID)
						return
					}
					rep.Violation(sig+":"+p.id[4:], what+"\n  case: "+caseID+"\n  grl: "+strings.ReplaceAll(b.Prog.Text, "\n", "\n       "), map[string]interface{}{"case": caseID, "grl": b.Prog.Text, "flag": flag, "order": order, "fault_at": k, "fault_kind": kind})
				}
				match := func(k, kind int) bool {
					return rep.ReplayFilter == "" || rep.ReplayFilter == fmt.Sprintf("%s#f%v#o%d#k%d.%d", p.id, flag, order, k, kind)
				}
				P := 0
				{
					sig, what, nt, probes := runOne(0, 0)
					P = probes
					if match(0, 0) {
						atomic.AddInt64(&runs, 1)
						if nt {
							atomic.AddInt64(&nontrivial, 1)
						}
						if sig != "" {
							report(0, 0, sig, what)
						}
					}
				}
				for k := 1; k <= P; k++ {
					for kind := 1; kind <= 6; kind++ {
						if !match(k, kind) {
							continue
						}
						sig, what, nt, _ := runOne(k, kind)
						atomic.AddInt64(&runs, 1)
						atomic.AddInt64(&faultPoints, 1)
						if nt {
							atomic.AddInt64(&nontrivial, 1)
						}
						if sig != "" {
							report(k, kind, sig, what)
						}
					}
				}
			}
		}
		if i%97 == 0 {
			rep.Sample(map[string]interface{}{"case": p.id, "grl": b.Prog.Text})
		}
	})
	rep.Coverage["programs"] = programs
	rep.Coverage["evaluations"] = runs
	rep.Coverage["fault_points"] = faultPoints
	rep.Coverage["distinct_nontrivial"] = nontrivial
	rep.Coverage["order_controlled"] = hx.OrderLive()
	if !hx.OrderLive() {
		rep.Exhaustive = false
		rep.Coverage["order_note"] = "the rule-order hook is not live on this tree: rule orders were NOT enumerated (each run took whatever order the Go runtime chose)"
	}
	if bud.Hit() {
		rep.Exhaustive = false
		rep.Coverage["caps_hit"] = "time budget"
	}
	rep.Coverage["rule"] = "2-rule programs: rule 1 over 14 condition shapes (probe alone / left / right of &&, probe shared with the other rule, healthy, nil pointer, index and key out of range, missing fact, kind mismatch, modulo by zero, unknown field, unknown method, two-result method) x 7 action lists (probe first/middle/last between assignments; nil pointer, index, kind mismatch, unknown field in an action), rule 2 over 6 companions (thorough: 56 companions + 3-rule programs); for each program x both values of ReturnErrOnFailedRuleEvaluation x every static rule order: the fault-free run, then one run for EVERY probe invocation index of that run x 6 failure kinds (panic(string), panic(error), runtime nil dereference, runtime index out of range, panic(int), panic(struct value)). Non-trivial: a run in which a condition or action really failed."
	rep.Assumptions = append(rep.Assumptions, "single fault per run; the rule in whose evaluation a probe fired is identified from the listener sequence (probe counter between consecutive EvaluateRuleEntry callbacks)")
}
