package checks

import (
	"fmt"
	"strings"
	"sync"
	"sync/atomic"

	"verif/internal/ev"
	"verif/internal/facts"
	"verif/internal/grl"
	"verif/internal/hx"
	"verif/internal/ref"
)

// Short-circuit family of C05: `L && R` / `L || R` (and chains) where the evaluation of R is OBSERVABLE - it
// calls a probe, or fails - and L ranges over every form a boolean can take, including booleans held behind a
// pointer or inside an interface value. The reference evaluator (short-circuit as documented) says which
// probes run and whether the expression has a value at all.

func c05scWorld() *ref.World {
	w := ref.NewWorld()
	f := facts.New()
	f.I, f.S, f.B = 5, "xy", true
	f.Arr = []int64{4}
	t, fa := true, false
	f.PB = &t
	f.MI = map[string]interface{}{"t": true, "f": false, "n": int64(1)}
	f.AI = []interface{}{true, false}
	g := facts.New()
	g.PB = &fa
	w.Objs["F"] = f
	w.Objs["G"] = g
	return w
}

func c05ShortCircuit(rep *ev.Reporter, tier string) (n, nt int64) {
	tForms := []string{"true", "F.B", "!G.B", "F.I > 0", "(F.B)", "F.IsPos(F.I)", "F.PB", `F.MI["t"]`, "F.AI[0]", `!F.MI["f"]`, "!G.PB", `F.S == "xy"`, "!(F.I < 0)"}
	fForms := []string{"false", "G.B", "!F.B", "F.I < 0", "(G.B)", "F.IsPos(0 - F.I)", "G.PB", `F.MI["f"]`, "F.AI[1]", `!F.MI["t"]`, "!F.PB", `F.S == "x"`, "!(F.I > 0)"}
	rights := []string{"F.Chk(7)", "!F.Chk(7)", "F.Arr[9] == 0", "G.P.V == 0", "(F.Chk(7) && F.Arr[9] == 0)", "(!F.Chk(7) || G.P.V == 0)"}
	var exprs []string
	all := append(append([]string{}, tForms...), fForms...)
	for _, l := range all {
		for _, op := range []string{"&&", "||"} {
			for _, r := range rights {
				exprs = append(exprs, l+" "+op+" "+r)
				exprs = append(exprs, "("+l+") "+op+" "+r)
			}
		}
	}
	// chains: grouping by precedence (&& binds tighter than ||) decides which probes run
	sub := []string{"true", "F.PB", `F.MI["t"]`, "F.I > 0", "false", "G.PB", `F.MI["f"]`, "F.AI[1]"}
	if tier == "thorough" {
		sub = all
	}
	for _, a := range sub {
		for _, b := range sub {
			for _, o1 := range []string{"&&", "||"} {
				for _, o2 := range []string{"&&", "||"} {
					exprs = append(exprs, fmt.Sprintf("%s %s %s %s F.Chk(7)", a, o1, b, o2))
					exprs = append(exprs, fmt.Sprintf("%s %s (%s %s F.Chk(7))", a, o1, b, o2))
					exprs = append(exprs, fmt.Sprintf("%s %s F.Chk(7) %s F.Chk(8) && %s", a, o1, o2, b))
					exprs = append(exprs, fmt.Sprintf("(%s %s F.Chk(7)) %s F.Arr[9] == 0", a, o1, o2))
				}
			}
		}
	}
	var mu sync.Mutex
	ParallelEach(len(exprs), func(i int) {
		text := exprs[i]
		caseID := fmt.Sprintf("c05/short-circuit/%d", i)
		if rep.ReplayFilter != "" && rep.ReplayFilter != caseID {
			return
		}
		e := grl.E(text)
		var wantChk []string
		evr := &ref.Evaluator{W: c05scWorld(), OnChk: func(id int64) { wantChk = append(wantChk, fmt.Sprintf("chk:%d", id)) }}
		want, werr := evr.EvalBool(e)
		if werr != nil {
			if _, isEval := werr.(*ref.ErrEval); !isEval {
				return // outside the reference's fragment: not judged
			}
		}
		rule := &grl.Rule{Name: "r", When: e, Then: []grl.Action{grl.A("F.Act(1)"), grl.A(`Retract("r")`)}}
		b, err := hx.Build(hx.NewProgram([]*grl.Rule{rule}, grl.Style{}))
		if err != nil {
			mu.Lock()
			rep.Violation("C05:rejected:short-circuit", fmt.Sprintf("well-formed condition rejected: %s\n  %v", text, err), map[string]interface{}{"case": caseID, "grl": text})
			mu.Unlock()
			return
		}
		once := func() (sig, what string) {
			tr := hx.Run(b, c05scWorld(), hx.RunOpts{MaxCycle: 3, ReturnErr: true, NoSnapshots: true})
			atomic.AddInt64(&n, 1)
			var gotChk []string
			cand, seen := false, false
			for _, evn := range tr.Events {
				if strings.HasPrefix(evn, "chk:") {
					gotChk = append(gotChk, evn)
				}
				if strings.HasPrefix(evn, "V1:r:") {
					seen = true
					cand = strings.HasSuffix(evn, ":true")
				}
			}
			if tr.Panic != nil {
				return "C05:short-circuit:panic", fmt.Sprint(tr.Panic)
			}
			if strings.Join(gotChk, " ") != strings.Join(wantChk, " ") {
				return "C05:short-circuit:operand-evaluated-or-skipped-against-the-documented-rule", fmt.Sprintf("`%s`: probes called while evaluating: %v, by the documented short-circuit rule: %v", text, gotChk, wantChk)
			}
			if werr != nil {
				if tr.Err == nil {
					return "C05:short-circuit:failing-operand-not-reported", fmt.Sprintf("`%s`: the reference evaluation fails (%v) but Execute (ReturnErrOnFailedRuleEvaluation set) returned nil; events %v", text, werr, tr.Events)
				}
				return "", ""
			}
			if tr.Err != nil {
				return "C05:short-circuit:decided-expression-fails", fmt.Sprintf("`%s` has the value %v without evaluating the failing operand, but Execute returned %v", text, want, tr.Err)
			}
			if !seen || cand != want {
				return "C05:wrong-value:short-circuit", fmt.Sprintf("`%s`: value %v by the documentation, candidate flag %v (reported: %v); events %v", text, want, cand, seen, tr.Events)
			}
			return "", ""
		}
		sig, what := once()
		if len(wantChk) == 0 || werr == nil {
			atomic.AddInt64(&nt, 1)
		}
		if sig != "" {
			if s2, _ := once(); s2 != sig {
				fmt.Printf("HARNESS-NONDETERMINISM property=C05 case=%s\n", caseID)
				return
			}
			mu.Lock()
			rep.Violation(sig, what, map[string]interface{}{"case": caseID, "grl": grl.PrintRule(rule, grl.Style{})})
			mu.Unlock()
		}
		if i == 7 {
			rep.Sample(map[string]interface{}{"case": caseID, "condition": text, "probes_expected": wantChk, "value": want, "fails": werr != nil})
		}
	})
	return n, nt
}
