package checks

import (
	"fmt"
	"math"
	"strings"
	"sync"
	"sync/atomic"

	"verif/internal/ev"
	"verif/internal/facts"
	"verif/internal/grl"
	"verif/internal/hx"
	"verif/internal/ref"
)

// Short-circuit family of C05: `L && R` / `L || R` (and chains) where the evaluation of R is OBSERVABLE - it
// calls a probe, or fails - and L ranges over every form a boolean can take, including booleans held behind a
// pointer or inside an interface value. The reference evaluator (short-circuit as documented) says which
// probes run and whether the expression has a value at all.

func c05scWorld() *ref.World {
	w := ref.NewWorld()
	f := facts.New()
	f.I, f.S, f.B = 5, "xy", true
	f.Arr = []int64{4}
	t, fa := true, false
	f.PB = &t
	f.MI = map[string]interface{}{"t": true, "f": false, "n": int64(1)}
	f.AI = []interface{}{true, false}
	g := facts.New()
	g.PB = &fa
	w.Objs["F"] = f
	w.Objs["G"] = g
	return w
}

func c05ShortCircuit(rep *ev.Reporter, tier string) (n, nt int64) {
	tForms := []string{"true", "F.B", "!G.B", "F.I > 0", "(F.B)", "F.IsPos(F.I)", "F.PB", `F.MI["t"]`, "F.AI[0]", `!F.MI["f"]`, "!G.PB", `F.S == "xy"`, "!(F.I < 0)"}
	fForms := []string{"false", "G.B", "!F.B", "F.I < 0", "(G.B)", "F.IsPos(0 - F.I)", "G.PB", `F.MI["f"]`, "F.AI[1]", `!F.MI["t"]`, "!F.PB", `F.S == "x"`, "!(F.I > 0)"}
	rights := []string{"F.Chk(7)", "!F.Chk(7)", "F.Arr[9] == 0", "G.P.V == 0", "(F.Chk(7) && F.Arr[9] == 0)", "(!F.Chk(7) || G.P.V == 0)"}
	var exprs []string
	all := append(append([]string{}, tForms...), fForms...)
	for _, l := range all {
		for _, op := range []string{"&&", "||"} {
			for _, r := range rights {
				exprs = append(exprs, l+" "+op+" "+r)
				exprs = append(exprs, "("+l+") "+op+" "+r)
			}
		}
	}
	// chains: grouping by precedence (&& binds tighter than ||) decides which probes run
	sub := []string{"true", "F.PB", `F.MI["t"]`, "F.I > 0", "false", "G.PB", `F.MI["f"]`, "F.AI[1]"}
	if tier == "thorough" {
		sub = all
	}
	for _, a := range sub {
		for _, b := range sub {
			for _, o1 := range []string{"&&", "||"} {
				for _, o2 := range []string{"&&", "||"} {
					exprs = append(exprs, fmt.Sprintf("%s %s %s %s F.Chk(7)", a, o1, b, o2))
					exprs = append(exprs, fmt.Sprintf("%s %s (%s %s F.Chk(7))", a, o1, b, o2))
					exprs = append(exprs, fmt.Sprintf("%s %s F.Chk(7) %s F.Chk(8) && %s", a, o1, o2, b))
					exprs = append(exprs, fmt.Sprintf("(%s %s F.Chk(7)) %s F.Arr[9] == 0", a, o1, o2))
				}
			}
		}
	}
	var mu sync.Mutex
	ParallelEach(len(exprs), func(i int) {
		text := exprs[i]
		caseID := fmt.Sprintf("c05/short-circuit/%d", i)
		if rep.ReplayFilter != "" && rep.ReplayFilter != caseID {
			return
		}
		e := grl.E(text)
		var wantChk []string
		evr := &ref.Evaluator{W: c05scWorld(), OnChk: func(id int64) { wantChk = append(wantChk, fmt.Sprintf("chk:%d", id)) }}
		want, werr := evr.EvalBool(e)
		if werr != nil {
			if _, isEval := werr.(*ref.ErrEval); !isEval {
				return // outside the reference's fragment: not judged
			}
		}
		rule := &grl.Rule{Name: "r", When: e, Then: []grl.Action{grl.A("F.Act(1)"), grl.A(`Retract("r")`)}}
		b, err := hx.Build(hx.NewProgram([]*grl.Rule{rule}, grl.Style{}))
		if err != nil {
			mu.Lock()
			rep.Violation("C05:rejected:short-circuit", fmt.Sprintf("well-formed condition rejected: %s\n  %v", text, err), map[string]interface{}{"case": caseID, "grl": text})
			mu.Unlock()
			return
		}
		once := func() (sig, what string) {
			tr := hx.Run(b, c05scWorld(), hx.RunOpts{MaxCycle: 3, ReturnErr: true, NoSnapshots: true})
			atomic.AddInt64(&n, 1)
			var gotChk []string
			cand, seen := false, false
			for _, evn := range tr.Events {
				if strings.HasPrefix(evn, "chk:") {
					gotChk = append(gotChk, evn)
				}
				if strings.HasPrefix(evn, "V1:r:") {
					seen = true
					cand = strings.HasSuffix(evn, ":true")
				}
			}
			if tr.Panic != nil {
				return "C05:short-circuit:panic", fmt.Sprint(tr.Panic)
			}
			if strings.Join(gotChk, " ") != strings.Join(wantChk, " ") {
				return "C05:short-circuit:operand-evaluated-or-skipped-against-the-documented-rule", fmt.Sprintf("`%s`: probes called while evaluating: %v, by the documented short-circuit rule: %v", text, gotChk, wantChk)
			}
			if werr != nil {
				if tr.Err == nil {
					return "C05:short-circuit:failing-operand-not-reported", fmt.Sprintf("`%s`: the reference evaluation fails (%v) but Execute (ReturnErrOnFailedRuleEvaluation set) returned nil; events %v", text, werr, tr.Events)
				}
				return "", ""
			}
			if tr.Err != nil {
				return "C05:short-circuit:decided-expression-fails", fmt.Sprintf("`%s` has the value %v without evaluating the failing operand, but Execute returned %v", text, want, tr.Err)
			}
			if !seen || cand != want {
				return "C05:wrong-value:short-circuit", fmt.Sprintf("`%s`: value %v by the documentation, candidate flag %v (reported: %v); events %v", text, want, cand, seen, tr.Events)
			}
			return "", ""
		}
		sig, what := once()
		if len(wantChk) == 0 || werr == nil {
			atomic.AddInt64(&nt, 1)
		}
		if sig != "" {
			if s2, _ := once(); s2 != sig {
				fmt.Printf("HARNESS-NONDETERMINISM property=C05 case=%s\n", caseID)
				return
			}
			mu.Lock()
			rep.Violation(sig, what, map[string]interface{}{"case": caseID, "grl": grl.PrintRule(rule, grl.Style{})})
			mu.Unlock()
		}
		if i == 7 {
			rep.Sample(map[string]interface{}{"case": caseID, "condition": text, "probes_expected": wantChk, "value": want, "fails": werr != nil})
		}
	})
	return n, nt
}

// Non-finite reals: NaN and the infinities follow Go's float64 rules (every ordering comparison with a NaN
// operand is false, NaN != x is true, Inf compares as the extreme value). The expected value is computed by
// Go's own operators on the same float64 operands.
func c05NonFinite(rep *ev.Reporter) (n, nt int64) {
	type opnd struct {
		text string
		v    float64
	}
	nan, inf := math.NaN(), math.Inf(1)
	world := func() *ref.World {
		w := ref.NewWorld()
		f, g, h := facts.New(), facts.New(), facts.New()
		f.F, g.F, h.F = nan, inf, -inf
		f.F32 = float32(nan)
		w.Objs["F"], w.Objs["G"], w.Objs["H"] = f, g, h
		return w
	}
	ops := []opnd{{"F.F", nan}, {"G.F", inf}, {"H.F", -inf}, {"1.5", 1.5}, {"0.0", 0}, {"F.F32", nan}, {"(F.F + 1.0)", nan}, {"(G.F + H.F)", nan}, {"(G.F * 2.0)", inf}, {"-1.0e308", -1.0e308}}
	cmp := map[string]func(a, b float64) bool{
		"<": func(a, b float64) bool { return a < b }, "<=": func(a, b float64) bool { return a <= b },
		">": func(a, b float64) bool { return a > b }, ">=": func(a, b float64) bool { return a >= b },
		"==": func(a, b float64) bool { return a == b }, "!=": func(a, b float64) bool { return a != b },
	}
	type tc struct {
		text string
		want bool
	}
	var cases []tc
	for _, a := range ops {
		for _, b := range ops {
			for _, op := range []string{"<", "<=", ">", ">=", "==", "!="} {
				cases = append(cases, tc{a.text + " " + op + " " + b.text, cmp[op](a.v, b.v)})
				cases = append(cases, tc{"!(" + a.text + " " + op + " " + b.text + ")", !cmp[op](a.v, b.v)})
			}
		}
	}
	var mu sync.Mutex
	ParallelEach(len(cases), func(i int) {
		c := cases[i]
		caseID := fmt.Sprintf("c05/non-finite/%d", i)
		if rep.ReplayFilter != "" && rep.ReplayFilter != caseID {
			return
		}
		lib, err := hx.BuildText("rule r { when " + c.text + " then F.Act(1); Retract(\"r\"); }")
		if err != nil {
			mu.Lock()
			rep.Violation("C05:rejected:non-finite", fmt.Sprintf("well-formed condition rejected: %s\n  %v", c.text, err), map[string]interface{}{"case": caseID, "grl": c.text})
			mu.Unlock()
			return
		}
		once := func() (string, string) {
			kb, err := lib.NewKnowledgeBaseInstance(hx.KBName, hx.KBVer)
			if err != nil {
				return "C05:non-finite:instance-failed", err.Error()
			}
			res := hx.Fetch(kb, world(), true, 0)
			atomic.AddInt64(&n, 1)
			if res.Panic != nil || res.Err != nil {
				return "C05:non-finite:comparison-fails", fmt.Sprintf("`%s`: %v %v", c.text, res.Err, res.Panic)
			}
			if got := len(res.Names) == 1; got != c.want {
				return "C05:wrong-value:non-finite-real", fmt.Sprintf("`%s` (F.F = NaN, G.F = +Inf, H.F = -Inf): Go's float64 rules give %v, the rule's condition is %v", c.text, c.want, got)
			}
			return "", ""
		}
		sig, what := once()
		atomic.AddInt64(&nt, 1)
		if sig != "" {
			if s2, _ := once(); s2 != sig {
				fmt.Printf("HARNESS-NONDETERMINISM property=C05 case=%s\n", caseID)
				return
			}
			mu.Lock()
			rep.Violation(sig, what, map[string]interface{}{"case": caseID, "grl": c.text})
			mu.Unlock()
		}
		if i == 3 {
			rep.Sample(map[string]interface{}{"case": caseID, "condition": c.text, "value_by_go": c.want})
		}
	})
	return n, nt
}
