package checks

import (
	"fmt"
	"io"
	"os"
	"path/filepath"
	"sort"
	"strings"

	"github.com/hyperjumptech/grule-rule-engine/ast"
	"github.com/hyperjumptech/grule-rule-engine/builder"
	"github.com/hyperjumptech/grule-rule-engine/pkg"
)

// Delivery as a dimension: the verdict on a text (and the rules it adds) does not depend on HOW the bytes reach
// the builder. Every resource kind that works offline (bytes, file, file bundle, reader) and, for the reader,
// every behaviour the io.Reader contract allows: any chunk size, reads that return (0, nil) although data
// follows (before every chunk / at every single position of the text), the last data returned together with
// io.EOF or the EOF on its own. Oracle: the same accept/reject verdict and the same rule names as for the
// bytes resource; a reader that FAILS mid-way is an error, never a silently shortened text.

type c17ScriptReader struct {
	data        []byte
	pos, calls  int
	chunk       int  // bytes per read
	emptyEvery  int  // every n-th call returns (0, nil) first (0: never)
	emptyAt     int  // one (0, nil) when the position is reached (-1: none)
	emptied     bool //
	eofWithData bool // the last chunk comes with io.EOF
	failAt      int  // an error at this position (-1: none)
}

func (r *c17ScriptReader) Read(p []byte) (int, error) {
	r.calls++
	if len(p) == 0 {
		return 0, nil
	}
	if r.failAt >= 0 && r.pos >= r.failAt {
		return 0, fmt.Errorf("connection reset")
	}
	if r.emptyEvery > 0 && r.calls%r.emptyEvery == 0 && r.pos < len(r.data) {
		return 0, nil
	}
	if r.emptyAt >= 0 && r.pos >= r.emptyAt && !r.emptied && r.pos < len(r.data) {
		r.emptied = true
		return 0, nil
	}
	if r.pos >= len(r.data) {
		return 0, io.EOF
	}
	n := r.chunk
	if n > len(p) {
		n = len(p)
	}
	if r.emptyAt > r.pos && r.pos+n > r.emptyAt {
		n = r.emptyAt - r.pos
	}
	if r.failAt > r.pos && r.pos+n > r.failAt {
		n = r.failAt - r.pos
	}
	if r.pos+n > len(r.data) {
		n = len(r.data) - r.pos
	}
	copy(p, r.data[r.pos:r.pos+n])
	r.pos += n
	if r.pos == len(r.data) && r.eofWithData {
		return n, io.EOF
	}
	return n, nil
}

type c17Verdict struct {
	ok    bool
	names string
	panic interface{}
}

func c17BuildVia(res func() pkg.Resource) (v c17Verdict) {
	lib := ast.NewKnowledgeLibrary()
	defer func() {
		if r := recover(); r != nil {
			v.panic = r
		}
	}()
	err := builder.NewRuleBuilder(lib).BuildRuleFromResource("KB", "1", res())
	v.ok = err == nil
	if kb := lib.GetKnowledgeBase("KB", "1"); kb != nil {
		var ns []string
		for n := range kb.RuleEntries {
			ns = append(ns, n)
		}
		sort.Strings(ns)
		v.names = strings.Join(ns, ",")
	}
	return
}

// c17Delivery returns the number of builds; report(sig, what, id, text).
func c17Delivery(texts []string, tier string, report func(sig, what, id, text string)) (builds int64) {
	dir, derr := os.MkdirTemp("", "c17deliver")
	if derr == nil {
		defer os.RemoveAll(dir)
	}
	for ti, text := range texts {
		data := []byte(text)
		base := c17BuildVia(func() pkg.Resource { return pkg.NewBytesResource(data) })
		builds++
		cmp := func(how string, v c17Verdict) {
			builds++
			id := fmt.Sprintf("c17/delivery/%d/%s", ti, how)
			switch {
			case v.panic != nil:
				report("C17:panic:delivery:"+strings.SplitN(how, "@", 2)[0], fmt.Sprintf("the text delivered through %s makes the builder panic: %v", how, v.panic), id, text)
			case v.ok != base.ok:
				report("C17:verdict-depends-on-delivery:"+strings.SplitN(how, "@", 2)[0], fmt.Sprintf("the same text is accepted=%v as a bytes resource and accepted=%v delivered through %s", base.ok, v.ok, how), id, text)
			case v.names != base.names:
				report("C17:rules-depend-on-delivery:"+strings.SplitN(how, "@", 2)[0], fmt.Sprintf("the same text adds the rules [%s] as a bytes resource and [%s] delivered through %s", base.names, v.names, how), id, text)
			}
		}
		// reader behaviours
		for _, chunk := range []int{1, 3, 64, 1 << 20} {
			for _, every := range []int{0, 1, 2, 3} {
				if every == 1 {
					continue // a reader that never makes progress is outside the contract
				}
				for _, ewd := range []bool{false, true} {
					chunk, every, ewd := chunk, every, ewd
					cmp(fmt.Sprintf("reader(chunk=%d,empty-read-every=%d,eof-with-data=%v)", chunk, every, ewd), c17BuildVia(func() pkg.Resource {
						return pkg.NewReaderResource(&c17ScriptReader{data: data, chunk: chunk, emptyEvery: every, emptyAt: -1, eofWithData: ewd, failAt: -1})
					}))
				}
			}
		}
		step := 1
		if tier == "quick" && len(data) > 400 {
			step = 3
		}
		for p := 0; p < len(data); p += step {
			p := p
			cmp(fmt.Sprintf("reader(one-empty-read)@%d", p), c17BuildVia(func() pkg.Resource {
				return pkg.NewReaderResource(&c17ScriptReader{data: data, chunk: 1 << 20, emptyAt: p, failAt: -1})
			}))
		}
		// a reader that fails mid-way: never accepted as if the text ended there
		for p := 0; p < len(data); p += step * 7 {
			p := p
			v := c17BuildVia(func() pkg.Resource {
				return pkg.NewReaderResource(&c17ScriptReader{data: data, chunk: 16, emptyAt: -1, failAt: p})
			})
			builds++
			if v.panic == nil && v.ok {
				report("C17:failing-reader-accepted", fmt.Sprintf("the reader failed after %d of %d bytes, yet BuildRuleFromResource returned nil (rules added: [%s])", p, len(data), v.names), fmt.Sprintf("c17/delivery/%d/failing-reader@%d", ti, p), text)
			}
		}
		// files
		if derr == nil {
			path := filepath.Join(dir, fmt.Sprintf("t%d.grl", ti))
			if os.WriteFile(path, data, 0o644) == nil {
				cmp("file", c17BuildVia(func() pkg.Resource { return pkg.NewFileResource(path) }))
				cmp("file-bundle", c17BuildVia(func() pkg.Resource {
					rs := pkg.NewFileResourceBundle(dir, filepath.Join(dir, "**", fmt.Sprintf("t%d.grl", ti))).MustLoad()
					if len(rs) != 1 {
						panic(fmt.Sprintf("bundle pattern matched %d files", len(rs)))
					}
					return rs[0]
				}))
				// one file resource loaded twice gives the same text twice (it is cached)
				fr := pkg.NewFileResource(path)
				a, e1 := fr.Load()
				b, e2 := fr.Load()
				builds++
				if e1 != nil || e2 != nil || string(a) != text || string(b) != text {
					report("C17:file-resource-load-differs", fmt.Sprintf("FileResource.Load returned %q, %v then %q, %v", trunc(string(a), 60), e1, trunc(string(b), 60), e2), fmt.Sprintf("c17/delivery/%d/file-twice", ti), text)
				}
			}
		}
	}
	return
}
