package checks

import (
	"bytes"
	"errors"
	"fmt"
	"io"
	"sort"
	"strings"
	"sync"
	"sync/atomic"
	"testing/iotest"
	"time"

	"github.com/hyperjumptech/grule-rule-engine/ast"
	"github.com/hyperjumptech/grule-rule-engine/builder"
	"github.com/hyperjumptech/grule-rule-engine/pkg"

	"verif/internal/ev"
	"verif/internal/facts"
	"verif/internal/grl"
	"verif/internal/hx"
	"verif/internal/ref"
)

const c12Kitchen = `
rule Kitchen "unicode é漢 description" salience -7 {
  when
    ((F.I * 2 % 3 + 1 - 2 & 7 | 1) >= 0 && F.I / 4 > 1 && F.I > -1 && F.I < 100 && F.I <= 99 && F.I == F.I && F.I != 77 || !(F.B) || !F.B)
    && F.S.ToUpper().Len() >= 0 && F.Arr[F.K] >= 0 && F.M["a"] >= 0 && F.Add(1, F.I) > 0 && F.F > 0.0000001 && F.F < 1.5e3
    && F.S != "q\"uo" && F.S != 'si"ngle' && IsNil(F.PI) == false && F.P.Q.V == 11 && F.GetSub().V == 10
    && F.Pick(1, 4, 0x10, 017) == 16 && true && !false && F.I2 < 3 && !(F.I > 50) && !F.IsPos(-1) && !(!(F.I2 < 3))
  then
    F.I2 = F.I2 + 1;
    F.I += 2;
    F.F -= 0.5;
    F.U *= 2;
    F.F32 /= 2;
    F.Arr[1] = F.Arr[0] + F.M["b"];
    F.M[F.KS] = 99;
    F.P.Q.V = F.P.V * -1;
    F.S = F.S + "x" + 1 + true;
    F.Act(7);
    Forget("F.I2");
}
rule Second "second" salience 5 {
  when F.I2 == 2 && F.B then F.B = false; Retract("Kitchen"); 
}
rule Third {
  when F.I2 >= 3 || F.I == 16 then Complete(); F.K = 1;
}
rule NilConstant salience -100 {
  when IsNil(nil) == true || nil == F.P then F.In = 5;
}
`

type c12KB struct {
	name string
	text string
	prog *hx.Program // nil: differential only
}

func c12World() *ref.World {
	w := c04World()
	w.Objs["F"].I2 = 0
	w.Objs["F"].B = true
	w.Objs["F"].F = 10.5
	return w
}

// c12Behaviour runs instances of lib's KB on the fixed worlds and orders, returning a canonical trace.
func c12Behaviour(lib *ast.KnowledgeLibrary, prog *hx.Program, name, ver string, orders []int) (out string, rerr error) {
	defer func() {
		if r := recover(); r != nil {
			// NewKnowledgeBaseInstance / Fetch on a damaged knowledge base: part of the observed behaviour
			out, rerr = "", fmt.Errorf("PANIC while instantiating or running the knowledge base: %v", r)
		}
	}()
	var b strings.Builder
	for _, o := range orders {
		kb, err := lib.NewKnowledgeBaseInstance(name, ver)
		if err != nil {
			return "", fmt.Errorf("instance: %w", err)
		}
		w := c12World()
		p := prog
		if p == nil {
			p = &hx.Program{ByName: map[string]*grl.Rule{}}
		}
		tr := hx.RunOn(p, kb, w, hx.RunOpts{MaxCycle: 8, DefaultChoice: o, NoSnapshots: true}, nil)
		errs := "nil"
		if tr.Err != nil {
			errs = firstLineOf(tr.Err.Error())
		}
		fmt.Fprintf(&b, "o%d: %s | err=%s | panic=%v | %s\n", o, hx.Evs(tr.Events), errs, tr.Panic, tr.FinalDump)
		kb2, _ := lib.NewKnowledgeBaseInstance(name, ver)
		res := hx.Fetch(kb2, c12World(), false, 0)
		fmt.Fprintf(&b, "fetch: %v %v\n", res.Names, res.Err)
	}
	return b.String(), nil
}

func c12Meta(kb *ast.KnowledgeBase) string {
	var rows []string
	for _, e := range kb.RuleEntries {
		rows = append(rows, fmt.Sprintf("%s|%q|%d|deleted=%v", e.RuleName, e.RuleDescription, e.Salience, e.Deleted))
	}
	sort.Strings(rows)
	return kb.Name + ":" + kb.Version + "\n" + strings.Join(rows, "\n")
}

// eofWithDataReader returns io.EOF together with the last bytes (legal io.Reader behaviour) and
// reads at most 7 bytes at a time.
type eofWithDataReader struct {
	data []byte
	pos  int
}

func (r *eofWithDataReader) Read(p []byte) (int, error) {
	if len(p) == 0 {
		return 0, nil
	}
	if r.pos >= len(r.data) {
		return 0, io.EOF
	}
	n := copy(p[:min(len(p), 7)], r.data[r.pos:])
	r.pos += n
	if r.pos >= len(r.data) {
		return n, io.EOF
	}
	return n, nil
}

type traceWriter struct {
	buf     bytes.Buffer
	bounds  []int
	calls   int
	failAt  int // -1 never
	partial bool
}

func (t *traceWriter) Write(p []byte) (int, error) {
	if t.failAt >= 0 && t.calls == t.failAt {
		t.calls++
		if t.partial && len(p) > 1 {
			t.buf.Write(p[:len(p)/2])
			return len(p) / 2, errors.New("injected write failure (partial)")
		}
		return 0, errors.New("injected write failure")
	}
	t.calls++
	t.buf.Write(p)
	t.bounds = append(t.bounds, t.buf.Len())
	return len(p), nil
}

func C12(rep *ev.Reporter, tier string) {
	bud := NewBudget(150 * time.Second)
	if tier == "thorough" {
		bud = NewBudget(9 * time.Minute)
	}
	var kbs []c12KB
	kbs = append(kbs, c12KB{name: "kitchen", text: c12Kitchen})
	addProg := func(name string, rules []*grl.Rule) {
		p := hx.NewProgram(rules, grl.Style{})
		kbs = append(kbs, c12KB{name: name, text: p.Text, prog: p})
	}
	addProg("counter", []*grl.Rule{grl.R("inc", grl.Sal(3), "F.I2 < 2", "F.I2 = F.I2 + 1")})
	addProg("two", []*grl.Rule{grl.R("a", grl.Sal(-1), "F.I2 < 2 && F.B", "F.I2 = F.I2 + 1"), grl.R("b", nil, "!F.B || F.I2 == 2", "F.B = true", `Retract("b")`)})
	addProg("selectors", []*grl.Rule{grl.R("s", nil, `F.Arr[F.K] == 10 && F.M["a"] == 10`, "F.Arr[F.K] = 1", `F.M["zz"] = 5`), grl.R("t", grl.Sal(2), "F.M.Len() == 3", `F.MS["a"] = "seen"`, "Complete()")})
	addProg("methods", []*grl.Rule{grl.R("m", nil, `F.S.ToUpper() == "S" && F.Add(F.I, 1) == 11`, `F.S = F.Cat("a", "b")`, "F.I = F.Pick(1, 4, 6)")})
	addProg("floats", []*grl.Rule{grl.R("f1", nil, "F.F > 0.0000001 && F.I2 == 0", "F.I2 = 1"), grl.R("f2", nil, "F.F > 0.0000002 && F.I2 == 1", "F.I2 = 2"), grl.R("f3", grl.Sal(9), "F.F < -1.5e-3", "F.I2 = 9")})
	addProg("forget", []*grl.Rule{grl.R("bump", nil, "F.I < 12", "F.Bump()", `Forget("F.I")`, `Forget("F.Bump()")`)})
	addProg("forget-call", []*grl.Rule{grl.R("g", nil, "F.GetI() < 13", "F.I = F.I + 1", `Forget("F.GetI()")`), grl.R("h", nil, "(F.GetI() >= 13) && F.K < 1", "F.K = 1", `Changed("F.GetI()")`)})
	addProg("changed-call", []*grl.Rule{grl.R("g", nil, "F.Add(F.GetI(), 0) < 13 && !(F.GetI() > 20)", "F.I = F.I + 1", `Changed("F.GetI()")`)})
	addProg("strings", []*grl.Rule{grl.R("q", nil, `F.S != "a\"b" && F.S != 'c"d' && F.S + "é漢" != ""`, `F.S = "tab\there\n"`, `Retract("q")`)})
	// no variable at all (the working-memory sections of the stream are empty): the loaded knowledge base must
	// still accept further resources
	kbs = append(kbs, c12KB{name: "no-variable", text: `rule OnlyConstants salience 1 { when 1 + 1 == 2 && "a" != "b" then Complete(); }`})
	kbs = append(kbs, c12KB{name: "metadata-extremes", text: `rule Lowest "min" salience -2147483648 { when F.I2 == 0 then F.I2 = 1; }
rule Highest 'single "quoted" desc' salience 2147483647 { when F.I2 == 1 then F.I2 = 2; }
rule Ünïcode_名前 "tab\there \"q\" é漢😀" salience 0x10 { when F.I2 == 2 then F.I2 = 3; F.S = "é漢😀\x00end"; }
rule NoDescNoSal { when F.I2 == 3 then Complete(); }
rule EmptyDesc "" salience 1 { when F.I2 > 98 then F.I2 = 0; }
rule OctalSal salience -017 { when F.I2 > 99 then F.I2 = 0; }`})
	if tier == "thorough" {
		n := 0
		general2("quick", 6, func(c Case) {
			n++
			if n%29 == 0 && len(kbs) < 60 {
				addProg("gen2-"+c.ID, c.Rules)
			}
		})
		depMatrix(3, 4, func(c Case) {
			n++
			if n%97 == 0 && len(kbs) < 60 && !strings.Contains(c.ID, "json") && !strings.Contains(c.ID, "toplevel") {
				addProg("dep-"+c.ID, c.Rules)
			}
		})
	}
	var loads, prefixLoads, writerFaults, nontrivial, swallowed int64
	var mu sync.Mutex
	report := func(sig, what string, id string, extra map[string]interface{}) {
		mu.Lock()
		if extra == nil {
			extra = map[string]interface{}{}
		}
		extra["case"] = id
		rep.Violation(sig, what, extra)
		mu.Unlock()
	}
	for ki := range kbs {
		k := kbs[ki]
		if rep.ReplayFilter != "" && !strings.HasPrefix(rep.ReplayFilter, "c12/"+k.name+"/") {
			continue
		}
		if bud.Over() {
			break
		}
		lib := ast.NewKnowledgeLibrary()
		if err := builder.NewRuleBuilder(lib).BuildRuleFromResource("KB", "1", pkg.NewBytesResource([]byte(k.text))); err != nil {
			report("harness:C12-corpus-rejected:"+k.name, err.Error(), "c12/"+k.name+"/build", nil)
			continue
		}
		nrules := len(lib.GetKnowledgeBase("KB", "1").RuleEntries)
		orders := []int{0}
		if nrules >= 2 {
			orders = append(orders, hx.NPerms(nrules)-1)
		}
		wantB, err := c12Behaviour(lib, k.prog, "KB", "1", orders)
		if err != nil {
			report("harness:C12-original-fails:"+k.name, err.Error(), "c12/"+k.name+"/orig", nil)
			continue
		}
		if k.name == "kitchen" && !strings.Contains(wantB, "X1:Kitchen") {
			report("harness:C12-kitchen-sink-vacuous", "the kitchen-sink rule does not fire on the corpus world, the equivalence check would be vacuous:\n"+wantB, "c12/kitchen/orig", nil)
		}
		wantMeta := c12Meta(lib.GetKnowledgeBase("KB", "1"))
		tw := &traceWriter{failAt: -1}
		if err := lib.StoreKnowledgeBaseToWriter(tw, "KB", "1"); err != nil {
			report("C12:store-failed:"+k.name, err.Error(), "c12/"+k.name+"/store", nil)
			continue
		}
		stream := append([]byte{}, tw.buf.Bytes()...)
		nCalls := tw.calls
		bounds := tw.bounds
		// (1) load, (2) store(load) -> load
		checkLoaded := func(stage string, data []byte, reader func([]byte) io.Reader) []byte {
			l2 := ast.NewKnowledgeLibrary()
			kb, err := l2.LoadKnowledgeBaseFromReader(reader(data), true)
			atomic.AddInt64(&loads, 1)
			id := "c12/" + k.name + "/" + stage
			if err != nil {
				report("C12:load-of-complete-stream-fails:"+stage, fmt.Sprintf("%s: %v", k.name, err), id, nil)
				return nil
			}
			if m := c12Meta(kb); m != wantMeta {
				report("C12:metadata-differs-after-load:"+stage, fmt.Sprintf("%s:\nwant %s\ngot  %s", k.name, wantMeta, m), id, nil)
				return nil
			}
			gotB, err := c12Behaviour(l2, k.prog, "KB", "1", orders)
			if err != nil {
				report("C12:loaded-knowledge-base-cannot-be-instantiated:"+stage, fmt.Sprintf("%s: %v", k.name, err), id, nil)
				return nil
			}
			if gotB != wantB {
				report("C12:behaviour-differs-after-load:"+stage, fmt.Sprintf("%s:\noriginal:\n%sloaded:\n%s", k.name, wantB, gotB), id, nil)
				return nil
			}
			atomic.AddInt64(&nontrivial, 1)
			var out bytes.Buffer
			if err := l2.StoreKnowledgeBaseToWriter(&out, "KB", "1"); err != nil {
				report("C12:store-of-loaded-fails:"+stage, err.Error(), id, nil)
				return nil
			}
			return out.Bytes()
		}
		plain := func(b []byte) io.Reader { return bytes.NewReader(b) }
		oneByte := func(b []byte) io.Reader { return iotest.OneByteReader(bytes.NewReader(b)) }
		dataErr := func(b []byte) io.Reader { return &eofWithDataReader{data: b} }
		second := checkLoaded("load", stream, plain)
		if second != nil {
			third := checkLoaded("store-load-again", second, plain)
			if third != nil {
				checkLoaded("third-generation", third, oneByte)
			}
		}
		checkLoaded("one-byte-reader", stream, oneByte)
		checkLoaded("data-with-eof-reader", stream, dataErr)
		// (3) every prefix
		var offsets []int
		if k.name == "kitchen" && tier == "quick" {
			seen := map[int]bool{}
			for _, b := range append([]int{0}, bounds...) {
				for d := -1; d <= 1; d++ {
					o := b + d
					if o >= 0 && o < len(stream) && !seen[o] {
						seen[o] = true
						offsets = append(offsets, o)
					}
				}
			}
			sort.Ints(offsets)
		} else {
			for o := 0; o < len(stream); o++ {
				offsets = append(offsets, o)
			}
		}
		ParallelEach(len(offsets), func(oi int) {
			o := offsets[oi]
			id := fmt.Sprintf("c12/%s/prefix/%d", k.name, o)
			if rep.ReplayFilter != "" && rep.ReplayFilter != id {
				return
			}
			for ri, rd := range []func([]byte) io.Reader{plain, oneByte} {
				if ri == 1 && oi%16 != 0 {
					continue // one-byte reader on every 16th offset (fixed sub-family)
				}
				l2 := ast.NewKnowledgeLibrary()
				kb, err := l2.LoadKnowledgeBaseFromReader(rd(stream[:o]), true)
				atomic.AddInt64(&prefixLoads, 1)
				if err != nil {
					continue
				}
				atomic.AddInt64(&swallowed, 1)
				// a knowledge base came back from a truncated stream: it must be equivalent
				bad := ""
				if m := c12Meta(kb); m != wantMeta {
					bad = "metadata differs (rules " + strings.ReplaceAll(m, "\n", "; ") + ")"
				} else if gotB, err := c12Behaviour(l2, k.prog, "KB", "1", orders); err != nil {
					bad = "cannot be instantiated: " + err.Error()
				} else if gotB != wantB {
					bad = "behaves differently"
				}
				if bad != "" {
					atBound := "mid-field"
					for _, b := range bounds {
						if b == o {
							atBound = "field-boundary"
						}
					}
					if o == 0 {
						atBound = "empty-stream"
					}
					report("C12:truncated-stream-loads-as-different-knowledge-base:"+atBound, fmt.Sprintf("%s: stream cut at byte %d of %d loads without error but %s", k.name, o, len(stream), bad), id, map[string]interface{}{"offset": o, "grl": k.text})
				}
			}
		})
		// (4) failing writer at every write call
		for j := 0; j < nCalls; j++ {
			for _, partial := range []bool{false, true} {
				id := fmt.Sprintf("c12/%s/writer/%d/%v", k.name, j, partial)
				if rep.ReplayFilter != "" && rep.ReplayFilter != id {
					continue
				}
				fw := &traceWriter{failAt: j, partial: partial}
				err := lib.StoreKnowledgeBaseToWriter(fw, "KB", "1")
				atomic.AddInt64(&writerFaults, 1)
				if err == nil {
					report("C12:store-hides-writer-failure", fmt.Sprintf("%s: writer failed at write call %d (partial=%v) of %d but Store returned nil", k.name, j, partial, nCalls), id, nil)
				}
			}
		}
		// (5) overwrite=false onto an existing entry
		{
			id := "c12/" + k.name + "/no-overwrite"
			if rep.ReplayFilter == "" || rep.ReplayFilter == id {
				// the entry that exists: with one rule, with none (a placeholder made by GetKnowledgeBase, a text without
				// rules, every rule removed again): whatever it holds, it is left untouched
				for _, ex := range []struct {
					kind string
					mk   func(l *ast.KnowledgeLibrary)
				}{
					{"one-rule", func(l *ast.KnowledgeLibrary) {
						_ = builder.NewRuleBuilder(l).BuildRuleFromResource("KB", "1", pkg.NewBytesResource([]byte(`rule keep { when F.I2 == 0 then F.I2 = 42; }`)))
					}},
					{"placeholder", func(l *ast.KnowledgeLibrary) { l.GetKnowledgeBase("KB", "1") }},
					{"text-without-rules", func(l *ast.KnowledgeLibrary) {
						_ = builder.NewRuleBuilder(l).BuildRuleFromResource("KB", "1", pkg.NewBytesResource([]byte("// no rule yet\n")))
					}},
					{"every-rule-removed", func(l *ast.KnowledgeLibrary) {
						_ = builder.NewRuleBuilder(l).BuildRuleFromResource("KB", "1", pkg.NewBytesResource([]byte(`rule keep { when F.I2 == 0 then F.I2 = 42; }`)))
						l.RemoveRuleEntry("keep", "KB", "1")
					}},
				} {
					l3 := ast.NewKnowledgeLibrary()
					func() {
						defer func() { recover() }()
						ex.mk(l3)
					}()
					before := l3.Library[ast.GetKnowledgeBaseKey("KB", "1")]
					if before == nil {
						continue // nothing exists: the load may proceed
					}
					beforeB, _ := c12Behaviour(l3, nil, "KB", "1", []int{0})
					_, err := l3.LoadKnowledgeBaseFromReader(bytes.NewReader(stream), false)
					after := l3.Library[ast.GetKnowledgeBaseKey("KB", "1")]
					afterB, _ := c12Behaviour(l3, nil, "KB", "1", []int{0})
					sfx := ""
					if ex.kind != "one-rule" {
						sfx = ":existing-entry-" + ex.kind
					}
					if err == nil {
						report("C12:load-without-overwrite-returns-no-error"+sfx, k.name, id, nil)
					}
					if before != after || beforeB != afterB {
						report("C12:load-without-overwrite-touches-existing-entry"+sfx, k.name, id, nil)
					}
				}
				// and into an empty library it must simply load
				l4 := ast.NewKnowledgeLibrary()
				if _, err := l4.LoadKnowledgeBaseFromReader(bytes.NewReader(stream), false); err != nil {
					report("C12:load-without-overwrite-into-empty-library-fails", err.Error(), id, nil)
				}
			}
		}
		// (6) a second store after the knowledge base changed (library removal / additional resource)
		// must describe the knowledge base as it is then, not as it was at the first store
		{
			id := "c12/" + k.name + "/second-store-after-change"
			if rep.ReplayFilter == "" || rep.ReplayFilter == id {
				var first string
				for n := range lib.GetKnowledgeBase("KB", "1").RuleEntries {
					if first == "" || n < first {
						first = n
					}
				}
				extra := `rule ExtraAdded salience 77 { when F.I2 == 0 then F.I2 = 1; F.S = F.S + "extra"; }`
				variant := func(priorStore bool, change string) (string, error) {
					l := ast.NewKnowledgeLibrary()
					if err := builder.NewRuleBuilder(l).BuildRuleFromResource("KB", "1", pkg.NewBytesResource([]byte(k.text))); err != nil {
						return "", err
					}
					if priorStore {
						var sink bytes.Buffer
						if err := l.StoreKnowledgeBaseToWriter(&sink, "KB", "1"); err != nil {
							return "", err
						}
					}
					switch change {
					case "remove":
						l.RemoveRuleEntry(first, "KB", "1")
					case "add":
						if err := builder.NewRuleBuilder(l).BuildRuleFromResource("KB", "1", pkg.NewBytesResource([]byte(extra))); err != nil {
							return "", err
						}
					}
					var buf bytes.Buffer
					if err := l.StoreKnowledgeBaseToWriter(&buf, "KB", "1"); err != nil {
						return "", err
					}
					l2 := ast.NewKnowledgeLibrary()
					kb, err := l2.LoadKnowledgeBaseFromReader(bytes.NewReader(buf.Bytes()), true)
					if err != nil {
						return "", err
					}
					bh, err := c12Behaviour(l2, nil, "KB", "1", orders)
					return c12Meta(kb) + "\n" + bh, err
				}
				for _, change := range []string{"remove", "add"} {
					a, errA := variant(true, change)
					b, errB := variant(false, change)
					atomic.AddInt64(&loads, 2)
					if errA != nil || errB != nil {
						report("C12:second-store-fails:"+change, fmt.Sprintf("%s: %v / %v", k.name, errA, errB), id, nil)
					} else if a != b {
						report("C12:second-store-describes-an-earlier-state:"+change, fmt.Sprintf("%s: store, %s, store again, load: the loaded knowledge base is not the one that was stored the second time\nwith an earlier store:\n%s\nwithout:\n%s", k.name, change, a, b), id, nil)
					}
				}
			}
		}
		// (7) a loaded knowledge base is built upon: one more resource sharing sub-expressions with the
		// loaded rules, and a library removal, must behave as on the original library
		{
			id := "c12/" + k.name + "/build-on-loaded"
			if rep.ReplayFilter == "" || rep.ReplayFilter == id {
				extra := `rule ExtraOnLoaded salience 66 { when F.I2 == 0 && F.B then F.I2 = F.I2 + 1; F.S = F.S + "onloaded"; }`
				on := func(loadFirst bool, op string) (out string, rerr error) {
					defer func() {
						if r := recover(); r != nil {
							out, rerr = "", fmt.Errorf("PANIC %v", r) // e.g. the builder panicking on a loaded knowledge base
						}
					}()
					l := ast.NewKnowledgeLibrary()
					if err := builder.NewRuleBuilder(l).BuildRuleFromResource("KB", "1", pkg.NewBytesResource([]byte(k.text))); err != nil {
						return "", err
					}
					if loadFirst {
						var buf bytes.Buffer
						if err := l.StoreKnowledgeBaseToWriter(&buf, "KB", "1"); err != nil {
							return "", err
						}
						l = ast.NewKnowledgeLibrary()
						if _, err := l.LoadKnowledgeBaseFromReader(bytes.NewReader(buf.Bytes()), true); err != nil {
							return "", err
						}
					}
					switch op {
					case "add":
						if err := builder.NewRuleBuilder(l).BuildRuleFromResource("KB", "1", pkg.NewBytesResource([]byte(extra))); err != nil {
							return "", err
						}
					case "remove":
						var first string
						for n := range l.GetKnowledgeBase("KB", "1").RuleEntries {
							if first == "" || n < first {
								first = n
							}
						}
						l.RemoveRuleEntry(first, "KB", "1")
					case "add-duplicate":
						_ = builder.NewRuleBuilder(l).BuildRuleFromResource("KB", "1", pkg.NewBytesResource([]byte(k.text)))
					}
					bh, err := c12Behaviour(l, nil, "KB", "1", orders)
					return bh, err
				}
				for _, op := range []string{"add", "remove", "add-duplicate"} {
					a, errA := on(true, op)
					b, errB := on(false, op)
					atomic.AddInt64(&loads, 1)
					if errA != nil || errB != nil {
						if (errA == nil) != (errB == nil) {
							report("C12:loaded-knowledge-base-cannot-be-built-upon:"+op, fmt.Sprintf("%s: on the loaded knowledge base: %v; on the original: %v", k.name, errA, errB), id, nil)
						}
					} else if a != b {
						report("C12:loaded-knowledge-base-differs-when-built-upon:"+op, fmt.Sprintf("%s: after '%s' the loaded knowledge base behaves\n%sthe original\n%s", k.name, op, a, b), id, nil)
					}
				}
			}
		}
		if ki < 3 {
			rep.Sample(map[string]interface{}{"knowledge_base": k.name, "grl": k.text, "stream_bytes": len(stream), "write_calls": nCalls, "prefix_offsets_tried": len(offsets)})
		}
	}
	rep.Coverage["knowledge_bases"] = len(kbs)
	concSched, concPoints := c12Concurrent(rep, tier)
	rep.Coverage["interleaved_store_schedules"] = concSched
	rep.Coverage["interleaved_store_yield_points"] = concPoints
	longLoads := c12LongFields(rep)
	rep.Coverage["long_field_loads"] = longLoads
	loads += longLoads
	rep.Coverage["evaluations"] = loads + prefixLoads + writerFaults + concSched
	rep.Coverage["complete_loads"] = loads
	rep.Coverage["truncation_points"] = prefixLoads
	rep.Coverage["truncated_streams_that_loaded"] = swallowed
	rep.Coverage["writer_fault_points"] = writerFaults
	rep.Coverage["distinct_nontrivial"] = nontrivial + prefixLoads + writerFaults
	if bud.Hit() {
		rep.Exhaustive = false
		rep.Coverage["caps_hit"] = "time budget"
	}
	rep.Coverage["rule"] = "corpus: a kitchen-sink knowledge base covering every node kind and meta field (15 operators, both negation kinds, every constant kind incl. nil, method chains, selectors, all five assignment forms, negative salience, unicode description) + 7 small knowledge bases (thorough: + programs of the C01 families, up to 60). For each: store; load through a plain, a one-byte-at-a-time and a data+EOF reader; store(load) and load again (3 generations); EVERY truncation offset of the stream (quick, kitchen-sink only: every field boundary +-1 as recorded by a tracing writer), every 16th also through the one-byte reader; a writer failing at EVERY write-call index with and without a partial write; overwrite=false onto an existing entry (holding one rule, none - a placeholder, a text without rules, every rule removed); store, change the knowledge base (library removal / one more resource), store again, load; build one more resource / remove a rule / re-build a duplicate ON the loaded knowledge base. Oracle: equal name/version/rule names/descriptions/saliences and equal listener traces, results and final facts of instances (2 rule orders + FetchMatchingRules); a truncated stream must give an error or an equivalent knowledge base; a failing writer must give an error. Interleaved stores: 2 (thorough 3) threads each store their own library to their own writer under the cooperative scheduler, every Write call a yield point, every schedule with <= 1 preemption; each store returns nil and its stream loads into an equivalent knowledge base. Non-trivial: every truncation/fault point and every complete load compared behaviourally."
	_ = facts.New
}

// c12LongFields: fields longer than any buffer a reader or writer may use (a rule name of 300 bytes, descriptions and
// string constants of 65 535, 65 536, 65 537, 70 004 and 131 075 bytes): stored, loaded through a plain, a one-byte
// and a data+EOF reader, two generations; name, description and behaviour must survive. (These knowledge bases take
// part in the plain generations only: every other enumeration of this check is per stream byte or per write call.)
func c12LongFields(rep *ev.Reporter) (loads int64) {
	for _, n := range []int{65535, 65536, 65537, 70004, 131075} {
		id := fmt.Sprintf("c12/long-fields/%d", n)
		if rep.ReplayFilter != "" && rep.ReplayFilter != id {
			continue
		}
		desc := strings.Repeat("d", n-4) + "-end"
		lit := strings.Repeat("x", n-3) + "yz!"
		text := `rule ` + strings.Repeat("N", 300) + ` "` + desc + `" salience 2 { when F.S != "` + lit + `" && F.I2 == 0 then F.S = "` + lit + `"; F.I2 = F.S.Len(); }`
		lib := ast.NewKnowledgeLibrary()
		if err := builder.NewRuleBuilder(lib).BuildRuleFromResource("KB", "1", pkg.NewBytesResource([]byte(text))); err != nil {
			rep.Violation("harness:build-failed:c12-long-fields", firstLineOf(err.Error()), map[string]interface{}{"case": id})
			continue
		}
		want, _ := c12Behaviour(lib, nil, "KB", "1", []int{0})
		cur := lib
		for gen := 1; gen <= 2; gen++ {
			var buf bytes.Buffer
			if err := cur.StoreKnowledgeBaseToWriter(&buf, "KB", "1"); err != nil {
				rep.Violation("C12:store-fails:long-fields", fmt.Sprintf("generation %d, field length %d: %v", gen, n, err), map[string]interface{}{"case": id})
				break
			}
			stream := buf.Bytes()
			var next *ast.KnowledgeLibrary
			for ri, mk := range []func(b []byte) io.Reader{
				func(b []byte) io.Reader { return bytes.NewReader(b) },
				func(b []byte) io.Reader { return iotest.OneByteReader(bytes.NewReader(b)) },
				func(b []byte) io.Reader { return &c17ScriptReader{data: b, chunk: 4096, emptyAt: -1, eofWithData: true, failAt: -1} },
			} {
				loads++
				l2 := ast.NewKnowledgeLibrary()
				kb, err := l2.LoadKnowledgeBaseFromReader(mk(stream), true)
				how := []string{"plain", "one-byte", "4096-byte-chunks-eof-with-data"}[ri]
				if err != nil || kb == nil {
					rep.Violation("C12:load-fails:long-fields:"+how, fmt.Sprintf("generation %d, field length %d: %v", gen, n, err), map[string]interface{}{"case": id})
					continue
				}
				for _, re := range kb.RuleEntries {
					if re.RuleDescription != desc || len(re.RuleName) != 300 {
						rep.Violation("C12:metadata-differs-after-load:long-fields:"+how, fmt.Sprintf("generation %d: a description of %d bytes was stored, %d bytes came back (equal: %v); rule name %d bytes", gen, len(desc), len(re.RuleDescription), re.RuleDescription == desc, len(re.RuleName)), map[string]interface{}{"case": id})
					}
				}
				if got, _ := c12Behaviour(l2, nil, "KB", "1", []int{0}); got != want {
					rep.Violation("C12:behaviour-differs-after-load:long-fields:"+how, fmt.Sprintf("generation %d, string constants of %d bytes: the loaded knowledge base behaves\n   %s\n  the stored one\n   %s", gen, n, trunc(got, 300), trunc(want, 300)), map[string]interface{}{"case": id})
				}
				if ri == 0 {
					next = l2
				}
			}
			if next == nil {
				break
			}
			cur = next
		}
	}
	return
}
