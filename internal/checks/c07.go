package checks

import (
	"fmt"
	"strings"
	"sync"
	"sync/atomic"
	"time"

	"github.com/hyperjumptech/grule-rule-engine/ast"
	"github.com/hyperjumptech/grule-rule-engine/builder"
	"github.com/hyperjumptech/grule-rule-engine/pkg"

	"verif/internal/ev"
	"verif/internal/facts"
	"verif/internal/grl"
	"verif/internal/hx"
	"verif/internal/ref"
)

type c07Pair struct {
	class string
	a, b  string // expression texts (same type)
}

func c07Worlds() []func() *ref.World {
	mk := func(i, i2 int64, f float64, s string, b bool, k int64) func() *ref.World {
		return func() *ref.World {
			w := ref.NewWorld()
			x := facts.New()
			x.I, x.I2, x.F, x.S, x.B, x.K = i, i2, f, s, b, k
			x.Arr = []int64{3, 9}
			x.M = map[string]int64{"a": 3, "b": 9}
			x.SArr = []string{"p", "q"}
			x.P = &facts.Sub{V: i, S: s}
			x.KS = "a"
			w.Objs["F"] = x
			kk := facts.New()
			kk.B = true
			w.Objs["K"] = kk
			return w
		}
	}
	return []func() *ref.World{
		mk(1, 2, 0.00000015, "ab", true, 0),
		mk(2, 1, 0.0000003, "ac", false, 1),
		mk(10, 10, -0.25, `a")`, true, 1),
		mk(-1, 3, 1000, "a,b", false, 0),
		mk(0, 0, 0.001, "", true, 0),
	}
}

func c07Pairs(tier string) []c07Pair {
	var ps []c07Pair
	add := func(class, a, b string) { ps = append(ps, c07Pair{class, a, b}) }
	// constants
	add("float-7th-decimal", "F.F > 0.0000001", "F.F > 0.0000002")
	add("float-7th-decimal", "F.F * 10000000.0 + 0.0000001", "F.F * 10000000.0 + 0.0000004")
	add("float-7th-decimal-action", "F.F + 0.00000011", "F.F + 0.00000012")
	add("float-sign", "F.F > 0.25", "F.F > -0.25")
	add("float-exponent", "F.F > 1e3", "F.F > 1e-3")
	add("float-long", "F.F == 0.00000015", "F.F == 0.0000003")
	add("int-vs-float", `F.S + 1`, `F.S + 10`)
	add("int-digits", "F.I == 1", "F.I == 10")
	add("int-sign", "F.I == 1", "F.I == -1")
	add("int-hex", "F.I == 0x10", "F.I == 10")
	add("string-one-char", `F.S == "ab"`, `F.S == "ac"`)
	add("string-case", `F.S == "ab"`, `F.S == "aB"`)
	add("string-quote", `F.S == "a\")"`, `F.S == "a)"`)
	add("string-comma", `F.S == "a,b"`, `F.S == "a.b"`)
	add("string-arrow", `F.S + "->" == "ab->"`, `F.S + ">-" == "ab->"`)
	add("string-empty-vs-space", `F.S == ""`, `F.S == " "`)
	add("string-snapshot-imitation", `F.Cat("a", "b")`, `F.Cat("a\")))),E(EA(A(C(string->\"b")`)
	add("string-snapshot-imitation", `F.S == F.Cat("a", "b")`, `F.S == F.Cat("a\")))),E(EA(A(C(string->\"b")`)
	add("string-vs-bool", `F.S + true`, `F.S + "true"`)
	add("string-vs-int", `F.S + 1 == "ab1"`, `F.S + "1" == "ab1"`)
	add("bool-const", "F.B == true", "F.B == false")
	// an integer literal N and the real literal N.0 are different constants wherever the language treats
	// integers and reals differently (rendering in concatenation, %, bit operators, selectors, typed arguments)
	add("int-vs-real", `F.S + 2`, `F.S + 2.0`)
	add("int-vs-real", `F.S + 100000`, `F.S + 100000.0`)
	add("int-vs-real", `F.S + 100`, `F.S + 1e2`)
	add("int-vs-real", `F.S + -2`, `F.S + -2.0`)
	add("int-vs-real", "F.I2 % 2", "F.I2 % 2.0")
	add("int-vs-real", "F.I2 & 2", "F.I2 & 2.0")
	add("int-vs-real", "F.Arr[1]", "F.Arr[1.0]")
	add("int-vs-real", "F.Pick(0, 2)", "F.Pick(0, 2.0)")
	add("int-vs-real", "F.Add(F.I, 2)", "F.Add(F.I, 2.0)")
	add("int-vs-real", "F.I2 / 2", "F.I2 / 2.0")
	add("int-vs-real-cond", `F.S + 2 == "ab2"`, `F.S + 2.0 == "ab2"`)
	add("int-vs-real-cond", "F.I2 % 2 == 0", "F.I2 % 2.0 == 0")
	add("int-vs-uint-spelling", "F.I == 010", "F.I == 10")
	// negation forms
	neg := []string{"F.B", "!F.B", "!(F.B)", "!!F.B", "!(!F.B)", "!(F.I == 1)", "F.I == 1", "!(F.I != 1)", "F.I != 1", "(F.B)", "(F.I == 1)", "((F.B))"}
	for i := range neg {
		for j := i + 1; j < len(neg); j++ {
			add("negation", neg[i], neg[j])
		}
	}
	// ordering comparisons and their bracket-negated / complementary forms
	negOrd := []string{"F.I < 2", "!(F.I < 2)", "F.I >= 2", "!(F.I >= 2)", "F.I > 1", "!(F.I > 1)", "F.I <= 1", "!(F.I <= 1)", "!(!(F.I < 2))"}
	for i := range negOrd {
		for j := i + 1; j < len(negOrd); j++ {
			add("negation-ordering", negOrd[i], negOrd[j])
		}
	}
	// operators: every substitution in `F.I op F.I2` (numeric result) / comparison / logic
	arith := []string{"*", "/", "%", "&", "+", "-", "|"}
	for i := range arith {
		for j := range arith {
			if i != j {
				add("operator-arith", "F.I2 "+arith[i]+" 3", "F.I2 "+arith[j]+" 3")
			}
		}
	}
	cmpo := []string{"==", "!=", "<", "<=", ">", ">="}
	for i := range cmpo {
		for j := range cmpo {
			if i != j {
				add("operator-compare", "F.I "+cmpo[i]+" F.I2", "F.I "+cmpo[j]+" F.I2")
			}
		}
	}
	add("operator-logic", "F.B && F.I == 1", "F.B || F.I == 1")
	add("operator-logic", "F.B || F.I == 1", "F.B && F.I == 1")
	// the sibling IS one operand of the rule's condition (so that operand is shared, and possibly evaluated first by
	// the sibling) while the other operand fails to evaluate: alone the rule never fires
	for _, bad := range []string{"Z.I == 0", "K.P.V == 0", "F.Arr[9] == 1", `F.M["zz"] == 1`} {
		for _, good := range []string{"F.I == 1", "F.B", "F.I2 < 9", "!F.B"} {
			add("operand-shared-other-fails", bad+" || "+good, good)
			add("operand-shared-other-fails", bad+" && "+good, good)
			add("operand-shared-other-fails", good+" || "+bad, good)
			add("operand-shared-other-fails", good+" && "+bad, good)
			add("operand-shared-other-fails", "("+bad+") || ("+good+")", good)
		}
	}
	// different members of ONE call result
	add("member-of-call-result", "F.GetSub().V == 1", `F.GetSub().S == "ab"`)
	add("member-of-call-result", "F.GetSub().V + 1", "F.GetSub().V + 2")
	add("member-of-call-result", `F.GetSub().S + "!"`, `F.GetSub().S.Len() + 0`)
	add("member-of-call-result", "F.GetSub().V == 2", "F.GetSub().Twice() == 2")
	// operand order
	add("operand-order", "F.I - F.I2", "F.I2 - F.I")
	add("operand-order", "F.I < F.I2", "F.I2 < F.I")
	add("operand-order", "F.I / F.Arr[1]", "F.Arr[1] / F.I2")
	add("operand-order", `F.S + "x"`, `"x" + F.S`)
	add("grouping", "(F.I - F.I2) - 3", "F.I - (F.I2 - 3)")
	add("grouping", "(F.I + F.I2) * 3", "F.I + F.I2 * 3")
	// selectors
	add("selector-index", "F.Arr[0]", "F.Arr[1]")
	add("selector-index-cond", "F.Arr[0] == 3", "F.Arr[1] == 3")
	add("selector-key", `F.M["a"]`, `F.M["b"]`)
	add("selector-computed", "F.Arr[F.K]", "F.Arr[0]")
	add("selector-computed", "F.Arr[F.K] == 3", "F.Arr[1 - F.K] == 3")
	add("selector-key-computed", `F.M[F.KS]`, `F.M["b"]`)
	add("path-field", "F.I", "F.I2")
	add("path-nested", "F.P.V", "F.I2")
	add("path-nested-string", "F.P.S", "F.S + \"\"")
	// argument lists
	add("args-order", "F.Pick(0, 1, 2)", "F.Pick(0, 2, 1)")
	add("args-split", "F.Pick(0, 1, 2)", "F.Pick(0, 12)")
	add("args-string-comma", `F.Cat("1,2")`, `F.Cat("1", "2")`)
	add("args-count", `F.Cat("a", "b")`, `F.Cat("a", "b", "")`)
	add("args-nesting", "F.Add(F.Add(1, 2), 3)", "F.Add(1, F.Add(2, 4))")
	add("method-name", "F.S.ToUpper()", "F.S.ToLower()")
	add("method-name", `F.S.HasPrefix("a")`, `F.S.HasSuffix("a")`)
	add("method-vs-arg", "F.IsPos(F.I)", "F.IsPos(F.I2)")
	add("method-arg-const", "F.IsPos(1)", "F.IsPos(-1)")
	add("method-arg-float7", "F.F > F.F * 0.0000001", "F.F > F.F * 0.0000002")
	{
		// every pair of a larger constant set
		cs := []string{"0.1", "0.10000001", "0.1000001", "1e-7", "2e-7", "1.0000001", "1.0000002", "100000.0000001", "100000.0000002"}
		if tier == "thorough" {
			cs = append(cs, "0.1000000000000001", "0.30000000000000004", "0.3", "1e-17", "1e-300", "2e-300", "123456789.125", "123456789.25", "1", "1.0", "10", "1e1", "-0.1", "-0.10000001", "0x1p-4", "0.0625")
		}
		for i := range cs {
			for j := i + 1; j < len(cs); j++ {
				add("float-grid", "F.F + "+cs[i], "F.F + "+cs[j])
			}
		}
		ss := []string{`"a"`, `"A"`, `"a "`, `" a"`, `"a\""`, `"a\\"`, `"a)"`, `"a,"`, `"a\n"`, `"a\t"`, `'a'`, `"á"`}
		for i := range ss {
			for j := i + 1; j < len(ss); j++ {
				add("string-grid", "F.S + "+ss[i], "F.S + "+ss[j])
			}
		}
	}
	return ps
}

// c07Rule wraps an expression in a rule: boolean expressions become the condition, others are
// assigned to a sink of their own.
func c07Rule(name, sinkSuffix, expr string, typ ref.VK) string {
	if typ == ref.VBool {
		return fmt.Sprintf("rule %s { when %s then K.S%s = \"fired\"; Retract(\"%s\"); }", name, expr, "", name)
	}
	return ""
}

type c07Obs struct {
	fetch    map[string]bool
	sinks    map[string]string
	err      string
	builderr string
}

func C07(rep *ev.Reporter, tier string) {
	bud := NewBudget(150 * time.Second)
	if tier == "thorough" {
		bud = NewBudget(9 * time.Minute)
	}
	pairs := c07Pairs(tier)
	worlds := c07Worlds()
	var nPairs, nRuns, nontrivial, merged int64
	var mu sync.Mutex
	// sink of rule a / rule b by type
	sinkOf := func(which int, k ref.VK) string {
		switch k {
		case ref.VInt, ref.VUint:
			return []string{"K.I", "K.I2"}[which]
		case ref.VFloat:
			return []string{"K.F", "G.F"}[which]
		case ref.VString:
			return []string{"K.S", "G.S"}[which]
		}
		return ""
	}
	ruleText := func(which int, expr string, k ref.VK) string {
		name := []string{"ra", "rb"}[which]
		if k == ref.VBool {
			return fmt.Sprintf("rule %s { when %s then %s = 1; Retract(\"%s\"); }", name, expr, []string{"K.I", "K.I2"}[which], name)
		}
		return fmt.Sprintf("rule %s { when K.B then %s = %s; Retract(\"%s\"); }", name, sinkOf(which, k), expr, name)
	}
	observe := func(resources []string, mkw func() *ref.World) c07Obs {
		o := c07Obs{fetch: map[string]bool{}, sinks: map[string]string{}}
		lib := ast.NewKnowledgeLibrary()
		rb := builder.NewRuleBuilder(lib)
		for _, r := range resources {
			if name, ok := strings.CutPrefix(r, "!remove:"); ok {
				lib.RemoveRuleEntry(name, hx.KBName, hx.KBVer) // library-level removal between two builds
				continue
			}
			if text, ok := strings.CutPrefix(r, "!rejected:"); ok {
				rb.BuildRuleFromResource(hx.KBName, hx.KBVer, pkg.NewBytesResource([]byte(text))) // a resource that is rejected (error ignored on purpose)
				continue
			}
			if err := rb.BuildRuleFromResource(hx.KBName, hx.KBVer, pkg.NewBytesResource([]byte(r))); err != nil {
				o.builderr = err.Error()
				return o
			}
		}
		kb, err := lib.NewKnowledgeBaseInstance(hx.KBName, hx.KBVer)
		if err != nil {
			o.builderr = "instance: " + err.Error()
			return o
		}
		w := mkw()
		w.Objs["G"] = facts.New()
		res := hx.Fetch(kb, w, false, 0)
		for _, n := range res.Names {
			o.fetch[n] = true
		}
		kb2, _ := lib.NewKnowledgeBaseInstance(hx.KBName, hx.KBVer)
		w2 := mkw()
		w2.Objs["G"] = facts.New()
		tr := hx.RunOn(&hx.Program{ByName: map[string]*grl.Rule{}}, kb2, w2, hx.RunOpts{MaxCycle: 6, NoSnapshots: true}, nil)
		if tr.Err != nil {
			o.err = firstLineOf(tr.Err.Error())
		}
		k, g := w2.Objs["K"], w2.Objs["G"]
		o.sinks["K.I"] = fmt.Sprint(k.I)
		o.sinks["K.I2"] = fmt.Sprint(k.I2)
		o.sinks["K.F"] = fmt.Sprint(k.F)
		o.sinks["G.F"] = fmt.Sprint(g.F)
		o.sinks["K.S"] = fmt.Sprintf("%q", k.S)
		o.sinks["G.S"] = fmt.Sprintf("%q", g.S)
		return o
	}
	ParallelEach(len(pairs), func(pi int) {
		p := pairs[pi]
		id := fmt.Sprintf("c07/%d/%s", pi, p.class)
		if rep.ReplayFilter != "" && !strings.HasPrefix(rep.ReplayFilter, id) {
			return
		}
		if bud.Over() {
			return
		}
		ea, eb := grl.E(p.a), grl.E(p.b)
		// type and separation certified by the reference evaluator
		var typ ref.VK = -1
		separated := false
		for _, mkw := range worlds {
			va, erra := (&ref.Evaluator{W: mkw()}).Eval(ea)
			vb, errb := (&ref.Evaluator{W: mkw()}).Eval(eb)
			if erra == nil {
				typ = va.K
			} else if errb == nil {
				typ = vb.K
			}
			if (erra == nil) != (errb == nil) || (erra == nil && va.String() != vb.String()) {
				separated = true
			}
		}
		if typ == ref.VUint {
			typ = ref.VInt
		}
		if typ < 0 || typ == ref.VComp || typ == ref.VNil || typ == ref.VTime {
			mu.Lock()
			rep.Violation("harness:C07-pair-untypable:"+id, p.a+" / "+p.b, nil)
			mu.Unlock()
			return
		}
		atomic.AddInt64(&nPairs, 1)
		if separated {
			atomic.AddInt64(&nontrivial, 1)
		}
		ra, rbt := ruleText(0, p.a, typ), ruleText(1, p.b, typ)
		variants := []struct {
			name string
			res  []string
		}{
			{"same-resource-ab", []string{ra + "\n" + rbt}},
			{"same-resource-ba", []string{rbt + "\n" + ra}},
			{"separate-resources-ab", []string{ra, rbt}},
			{"separate-resources-ba", []string{rbt, ra}},
		}
		// the sibling is GONE when the rule is built: removed from the library, or part of a rejected resource (a
		// broken rule using the sibling's expression); then the sibling is built (again) next to it
		goneCond := "K.B"
		if typ == ref.VBool {
			goneCond = p.a
		}
		gone := fmt.Sprintf("rule gone { when %s then K.In = ; }", goneCond)
		variants = append(variants, struct {
			name string
			res  []string
		}{"sibling-removed-before-b#only-b", []string{ra, "!remove:ra", rbt}}, struct {
			name string
			res  []string
		}{"rejected-resource-before-b", []string{"!rejected:" + gone, rbt, ra}}, struct {
			name string
			res  []string
		}{"sibling-removed-then-rebuilt", []string{ra, "!remove:ra", rbt, ra}})
		// the sibling's NAME differs from the rule's only in letter case
		rbCase := strings.ReplaceAll(strings.Replace(rbt, "rule rb ", "rule RA ", 1), `Retract("rb")`, `Retract("RA")`)
		variants = append(variants, struct {
			name string
			res  []string
		}{"names-differ-only-in-case#b-is-RA", []string{ra + "\n" + rbCase}}, struct {
			name string
			res  []string
		}{"names-differ-only-in-case-ba#b-is-RA", []string{rbCase, ra}})
		// triple: the sibling expressions sit inside a larger expression shared by a third rule
		if typ == ref.VBool {
			rc := fmt.Sprintf("rule rc { when (%s) && K.B then K.In = 1; Retract(\"rc\"); }", p.a)
			variants = append(variants, struct {
				name string
				res  []string
			}{"triple-abc", []string{ra + "\n" + rbt + "\n" + rc}}, struct {
				name string
				res  []string
			}{"triple-cba", []string{rc + "\n" + rbt + "\n" + ra}})
		}
		for wi, mkw := range worlds {
			aloneA := observe([]string{ra}, mkw)
			aloneB := observe([]string{rbt}, mkw)
			atomic.AddInt64(&nRuns, 2)
			if aloneA.builderr != "" || aloneB.builderr != "" {
				mu.Lock()
				rep.Violation("harness:C07-rule-rejected:"+id, aloneA.builderr+" | "+aloneB.builderr+"\n"+ra+"\n"+rbt, nil)
				mu.Unlock()
				return
			}
			if !hx.OrderLive() && (aloneA.err != "" || aloneB.err != "") {
				continue // a failing action ends the run: whether the sibling fired before it depends on the (then uncontrolled) order
			}
			for _, v := range variants {
				caseID := fmt.Sprintf("%s#w%d#%s", id, wi, v.name)
				if rep.ReplayFilter != "" && rep.ReplayFilter != caseID {
					continue
				}
				if strings.HasSuffix(v.name, "#b-is-RA") && (aloneA.err != "" || aloneB.err != "") {
					continue // a failing action ends the run, and "RA" is visited before "ra": which rule fired first is not the point here
				}
				onlyB := strings.HasSuffix(v.name, "#only-b")
				nameB := "rb"
				if strings.HasSuffix(v.name, "#b-is-RA") {
					nameB = "RA"
				}
				tog := observe(v.res, mkw)
				atomic.AddInt64(&nRuns, 1)
				diff := ""
				switch {
				case tog.builderr != "":
					diff = "built together: " + tog.builderr
				case !onlyB && tog.fetch["ra"] != aloneA.fetch["ra"]:
					diff = fmt.Sprintf("FetchMatchingRules: ra matches alone=%v together=%v", aloneA.fetch["ra"], tog.fetch["ra"])
				case tog.fetch[nameB] != aloneB.fetch["rb"]:
					diff = fmt.Sprintf("FetchMatchingRules: rb matches alone=%v together=%v", aloneB.fetch["rb"], tog.fetch["rb"])
				default:
					sa, sb := "K.I", "K.I2"
					if typ != ref.VBool {
						sa, sb = sinkOf(0, typ), sinkOf(1, typ)
					}
					if !onlyB && tog.sinks[sa] != aloneA.sinks[sa] {
						diff = fmt.Sprintf("Execute: ra computes %s=%s alone but %s together", sa, aloneA.sinks[sa], tog.sinks[sa])
					} else if tog.sinks[sb] != aloneB.sinks[sb] {
						diff = fmt.Sprintf("Execute: rb computes %s=%s alone but %s together", sb, aloneB.sinks[sb], tog.sinks[sb])
					} else if onlyB && (tog.err == "") != (aloneB.err == "") {
						diff = fmt.Sprintf("Execute error alone: %q, after the sibling was removed: %q", aloneB.err, tog.err)
					} else if !onlyB && (tog.err == "") != (aloneA.err == "" && aloneB.err == "") {
						diff = fmt.Sprintf("Execute error alone: %q / %q, together: %q", aloneA.err, aloneB.err, tog.err)
					}
				}
				if diff != "" {
					atomic.AddInt64(&merged, 1)
					mu.Lock()
					rep.Violation("C07:sibling-changes-meaning:"+p.class, fmt.Sprintf("`%s` vs `%s` (%s, world %d): %s", p.a, p.b, v.name, wi, diff), map[string]interface{}{"case": caseID, "grl": strings.Join(v.res, "\n---\n")})
					mu.Unlock()
				}
			}
		}
		if pi%25 == 0 {
			rep.Sample(map[string]interface{}{"case": id, "a": ra, "b": rbt})
		}
	})
	// ---- siblings that differ in the assignment TARGET (variable nodes are shared by snapshot too) ----
	targets := [][2]string{
		{"F.Arr[0]", "F.Arr[1]"}, {`F.M["a"]`, `F.M["b"]`}, {"F.Arr[F.K]", "F.Arr[1 - F.K]"}, {"F.I", "F.I2"}, {"F.P.V", "F.I"}, {"F.SArr[0]", "F.SArr[1]"},
		{"F.Arr[0]", "F.Arr[F.K]"}, {`F.M["a"]`, "F.M[F.KS]"}, {"F.PArr[0].V", "F.PArr[1].V"}, {`F.MP["a"].V`, `F.MP["b"].V`}, {"F.P.V", "F.P.Q.V"},
	}
	var nTargets int64
	for ti, tp := range targets {
		id := fmt.Sprintf("c07/target/%d", ti)
		if rep.ReplayFilter != "" && !strings.HasPrefix(rep.ReplayFilter, id) {
			continue
		}
		val := func(t string) string {
			if strings.Contains(t, "SArr") {
				return `"w"`
			}
			return "77"
		}
		ra := fmt.Sprintf("rule ra { when K.B then %s = %s; Retract(\"ra\"); }", tp[0], val(tp[0]))
		rb := fmt.Sprintf("rule rb { when K.B then %s = %s; Retract(\"rb\"); }", tp[1], strings.Replace(val(tp[1]), "77", "88", 1))
		mkw := func() *ref.World {
			w := worlds[0]()
			f := w.Objs["F"]
			f.K = 0
			f.PArr = []*facts.Sub{{V: 1}, {V: 2}}
			f.MP = map[string]*facts.Sub{"a": {V: 1}, "b": {V: 2}}
			f.P = &facts.Sub{V: 1, Q: &facts.Sub{V: 2}}
			return w
		}
		dumpAfter := func(resources []string) (string, string) {
			lib := ast.NewKnowledgeLibrary()
			rbld := builder.NewRuleBuilder(lib)
			for _, r := range resources {
				if err := rbld.BuildRuleFromResource(hx.KBName, hx.KBVer, pkg.NewBytesResource([]byte(r))); err != nil {
					return "", err.Error()
				}
			}
			kb, err := lib.NewKnowledgeBaseInstance(hx.KBName, hx.KBVer)
			if err != nil {
				return "", err.Error()
			}
			w := mkw()
			tr := hx.RunOn(&hx.Program{ByName: map[string]*grl.Rule{}}, kb, w, hx.RunOpts{MaxCycle: 6, NoSnapshots: true}, nil)
			if tr.Err != nil {
				return "", tr.Err.Error()
			}
			return w.Objs["F"].Dump(), ""
		}
		// expected: run ra alone, then rb alone, on ONE world (two executes of separate knowledge bases)
		expected := func() string {
			w := mkw()
			for _, r := range []string{ra, rb} {
				lib := ast.NewKnowledgeLibrary()
				builder.NewRuleBuilder(lib).BuildRuleFromResource(hx.KBName, hx.KBVer, pkg.NewBytesResource([]byte(r)))
				kb, _ := lib.NewKnowledgeBaseInstance(hx.KBName, hx.KBVer)
				hx.RunOn(&hx.Program{ByName: map[string]*grl.Rule{}}, kb, w, hx.RunOpts{MaxCycle: 6, NoSnapshots: true}, nil)
			}
			return w.Objs["F"].Dump()
		}()
		// ra writes 77 and rb 88 to different places unless both targets denote one location (then order decides):
		// only pairs denoting different locations are judged
		if tp[0] == "F.Arr[0]" && tp[1] == "F.Arr[F.K]" || tp[1] == "F.M[F.KS]" {
			continue
		}
		for _, v := range [][]string{{ra + "\n" + rb}, {rb + "\n" + ra}, {ra, rb}, {rb, ra}} {
			got, errs := dumpAfter(v)
			nTargets++
			if errs != "" || got != expected {
				mu.Lock()
				rep.Violation("C07:sibling-changes-meaning:assignment-target", fmt.Sprintf("`%s = ..` next to `%s = ..`: facts after both rules fired together differ from the rules fired from separate knowledge bases (%s)\n  together: %s\n  separate: %s", tp[0], tp[1], errs, got, expected), map[string]interface{}{"case": id, "grl": strings.Join(v, "\n---\n")})
				mu.Unlock()
			}
		}
	}
	// ---- IDENTICAL expressions in different roles (legitimate merging must stay unobservable) ----
	fs := RunFamily(rep, func(emit func(Case)) { sharedRoles(8, emit) }, 2000, bud, judgeTransparent)
	nRuns += fs.Runs
	rep.Coverage["identical_expression_role_programs"] = fs.Programs
	rep.Coverage["assignment_target_pairs"] = nTargets
	rep.Coverage["evaluations"] = nRuns + nTargets
	rep.Coverage["states"] = nPairs * int64(len(worlds))
	rep.Coverage["transitions"] = nRuns
	rep.Coverage["traces_validated_against_impl"] = nRuns
	rep.Coverage["distinct_nontrivial"] = nontrivial
	rep.Coverage["sibling_pairs"] = nPairs
	rep.Coverage["divergences"] = merged
	if bud.Hit() {
		rep.Exhaustive = false
		rep.Coverage["caps_hit"] = "time budget"
	}
	rep.Coverage["rule"] = "sibling pairs differing in exactly one place: constants (floats equal to 6 decimals, sign, exponent, int vs string/bool rendering, integer N vs real N.0 in every position where the kinds behave differently, digits, hex vs decimal, strings differing in one char / case / containing quote, bracket, comma, arrow, strings imitating snapshot syntax), all 42 substitutions among the 7 arithmetic/bitwise and all 30 among the 6 comparison operators, && vs ||, 9 negation forms pairwise, operand order, grouping, selectors (index, key, computed), paths, argument order/splitting/count/nesting, method names; each pair built alone vs together in both textual orders, in one resource and in separate resources, as a triple inside a larger shared expression, and with the sibling GONE when the rule is built (removed from the library before; part of a rejected resource; removed and rebuilt); 5 fact states; plus sibling rules that differ only in the assignment TARGET (index, key, computed selector, field, nested field); plus two rules using the IDENTICAL expression (6 kinds: map entry, field, slice element, pointer field, sum, method call) in every pair of 7 roles (bare operand, bracketed, comparison in bracket, negated bracket, method argument, selector index) and 3 action roles while the first rule changes its value each cycle, 3 salience relations, every clone order of the instance and every rule order, judged in lockstep with the reference model. Differential oracle (no expected values): FetchMatchingRules membership and the sink value computed by Execute of each rule alone == together. Non-trivial: the reference evaluator certifies that the two siblings differ on at least one of the states."
}
