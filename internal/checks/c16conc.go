package checks

import (
	"encoding/json"
	"fmt"
	"os"
	"sort"
	"strings"
	"time"

	"github.com/hyperjumptech/grule-rule-engine/ast"

	"verif/internal/hx"
	"verif/internal/sched"
)

// Concurrent AddRuleEntry / RemoveRuleEntry on ONE knowledge base (the operations KnowledgeBase.lock exists for),
// explored under the cooperative scheduler of the points build: yield points at every method entry of package ast
// and at every Lock call (waiting for the mutex is a blocked thread, not a spin). Oracle: linearizability by
// brute force - the returned errors and the final rule map of every interleaving are those of one of the
// sequential orders of the same operations.

type c16ConcOut struct {
	Scenarios  []map[string]interface{} `json:"scenarios"`
	Violations []string                 `json:"violations"`
}

type c16cOp struct {
	kind string // add | remove
	name string
	tag  string // which of several entries with that name
}

func c16cEntry(name, tag string) *ast.RuleEntry {
	if tag == "" {
		return nil
	}
	sal := map[string]string{"1": "1", "2": "2"}[tag]
	lib, err := hx.BuildText(fmt.Sprintf(`rule %s "%s" salience %s { when F.I < %s then F.I = F.I + 1; }`, name, tag, sal, sal))
	if err != nil {
		panic(err)
	}
	return lib.GetKnowledgeBase(hx.KBName, hx.KBVer).RuleEntries[name]
}

// c16cRun performs the operations, each in its own thread, under the given scheduler run (nil: sequentially in
// the given order) and returns the observation.
func c16cApply(kb *ast.KnowledgeBase, op c16cOp, entry *ast.RuleEntry) string {
	switch op.kind {
	case "add":
		if err := kb.AddRuleEntry(entry); err != nil {
			return "add(" + op.name + op.tag + ")=error"
		}
		return "add(" + op.name + op.tag + ")=nil"
	default:
		kb.RemoveRuleEntry(op.name)
		return "remove(" + op.name + ")"
	}
}

func c16cState(kb *ast.KnowledgeBase) string {
	var rows []string
	for k, e := range kb.RuleEntries {
		if e.Deleted {
			continue
		}
		rows = append(rows, fmt.Sprintf("%s=%s", k, e.RuleDescription))
	}
	sort.Strings(rows)
	return strings.Join(rows, ",")
}

func c16cBase(initial []string) *ast.KnowledgeBase {
	lib := ast.NewKnowledgeLibrary()
	kb := lib.GetKnowledgeBase(hx.KBName, hx.KBVer)
	for _, n := range initial {
		if err := kb.AddRuleEntry(c16cEntry(n, "1")); err != nil {
			panic(err)
		}
	}
	return kb
}

// C16Worker runs in the points build (child process of the C16 check).
func C16Worker() {
	out := c16ConcOut{}
	type scen struct {
		name    string
		initial []string
		ops     []c16cOp
	}
	scens := []scen{
		{"two adds of one new name", nil, []c16cOp{{"add", "X", "1"}, {"add", "X", "2"}}},
		{"two adds of different names", nil, []c16cOp{{"add", "X", "1"}, {"add", "Y", "2"}}},
		{"add and remove of an existing name", []string{"X"}, []c16cOp{{"add", "X", "2"}, {"remove", "X", ""}}},
		{"add and remove of a new name", nil, []c16cOp{{"add", "X", "1"}, {"remove", "X", ""}}},
		{"two removes of one existing name", []string{"X", "Y"}, []c16cOp{{"remove", "X", ""}, {"remove", "X", ""}}},
		{"removes of two existing names", []string{"X", "Y"}, []c16cOp{{"remove", "X", ""}, {"remove", "Y", ""}}},
	}
	var cur *sched.Run
	hx.SetPointFn(func(label string) {
		if cur != nil {
			cur.Yield(label)
		}
	})
	hx.SetBlockFn(func(label string) {
		if cur != nil {
			cur.Block(label)
		}
	})
	if os.Getenv("SCHED_DEBUG") != "" {
		go func() {
			time.Sleep(8 * time.Second)
			sched.DebugDump()
			os.Exit(3)
		}()
	}
	for _, sc := range scens {
		// sequential orders: the allowed outcomes
		allowed := map[string]bool{}
		var perm func(rest []int, acc []int)
		perm = func(rest []int, acc []int) {
			if len(rest) == 0 {
				kb := c16cBase(sc.initial)
				res := make([]string, len(sc.ops))
				for _, i := range acc {
					res[i] = c16cApply(kb, sc.ops[i], c16cEntry(sc.ops[i].name, sc.ops[i].tag+""))
				}
				allowed[strings.Join(res, " ")+" | "+c16cState(kb)] = true
				return
			}
			for k := range rest {
				nr := append(append([]int{}, rest[:k]...), rest[k+1:]...)
				perm(nr, append(append([]int{}, acc...), rest[k]))
			}
		}
		idx := make([]int, len(sc.ops))
		for i := range idx {
			idx[i] = i
		}
		perm(idx, nil)
		var kb *ast.KnowledgeBase
		var res []string
		mk := func() []func(r *sched.Run) {
			cur = nil // building the entries is not part of the scenario
			kb = c16cBase(sc.initial)
			res = make([]string, len(sc.ops))
			entries := make([]*ast.RuleEntry, len(sc.ops))
			for i, o := range sc.ops {
				if o.kind == "add" {
					entries[i] = c16cEntry(o.name, o.tag)
				}
			}
			bodies := make([]func(r *sched.Run), len(sc.ops))
			for i := range sc.ops {
				i := i
				bodies[i] = func(r *sched.Run) {
					cur = r
					defer func() {
						if rec := recover(); rec != nil {
							res[i] = fmt.Sprintf("PANIC %v", rec)
						}
					}()
					res[i] = c16cApply(kb, sc.ops[i], entries[i])
				}
			}
			return bodies
		}
		bound := 3 // two threads only: with three, two threads waiting for one lock can hand the turn to each other for ever
		st := &sched.Stats{}
		outcomes := map[string]bool{}
		sched.Explore(mk, bound, 0, 1, 40000, st, func(r *sched.Run) bool {
			cur = nil
			obs := strings.Join(res, " ") + " | " + c16cState(kb)
			outcomes[obs] = true
			if r.Failure != "" || !allowed[obs] {
				if len(out.Violations) < 4 {
					out.Violations = append(out.Violations, fmt.Sprintf("%s: an interleaving (<= %d preemptions) observes\n   %s %s\n  no sequential order of the operations does; sequential outcomes: %v\n  schedule: %s", sc.name, bound, obs, r.Failure, sortedKeys(allowed), compactChoices(r.Choices())))
				}
				return false
			}
			return true
		})
		fmt.Fprintf(os.Stderr, "scenario %q: %d schedules, %d points, truncated=%v\n", sc.name, st.Executions, st.MaxPoints, st.Truncated)
		out.Scenarios = append(out.Scenarios, map[string]interface{}{"scenario": sc.name, "threads": len(sc.ops), "preemption_bound": bound, "schedules": st.Executions, "choice_points_per_schedule": st.MaxPoints, "distinct_outcomes": len(outcomes), "sequential_outcomes": len(allowed), "truncated": st.Truncated})
	}
	b, _ := json.Marshal(out)
	fmt.Println(string(b))
}
