package checks

import (
	"context"
	"errors"
	"fmt"
	"math"
	"sort"
	"strings"
	"sync/atomic"
	"time"

	"verif/internal/ev"
	"verif/internal/facts"
	"verif/internal/grl"
	"verif/internal/hx"
	"verif/internal/ref"
)

func bvx(events []string) string {
	var out []string
	for _, e := range events {
		if len(e) > 1 && (e[0] == 'B' || e[0] == 'V' || e[0] == 'X') && e[1] >= '0' && e[1] <= '9' {
			out = append(out, e)
		}
	}
	return strings.Join(out, " ")
}

// c06Judge follows the engine model along the observed trace.
func c06Judge(c *Case, tr *hx.Trace, w *ref.World) []Verdict {
	var out []Verdict
	v := Verdict{}
	add := func(sig, what string) { out = append(out, Verdict{Sig: sig, What: what}) }
	if tr.Panic != nil {
		return []Verdict{{Sig: "C06:panic", What: fmt.Sprintf("engine panicked: %v", tr.Panic)}}
	}
	if tr.Horizon {
		add("C06:non-termination", fmt.Sprintf("the run went beyond MaxCycle+3 cycles (MaxCycle=%d)", tr.MaxCycle))
	}
	for _, p := range tr.Protocol {
		add("C06:listener-protocol:"+strings.SplitN(p, "(", 2)[0], p)
	}
	if uint64(tr.Fired) > tr.MaxCycle {
		add("C06:fired-more-than-MaxCycle", fmt.Sprintf("%d firings with MaxCycle=%d", tr.Fired, tr.MaxCycle))
	}
	fired := uint64(0)
	foreign := false
	terminal := false
	for ci, cy := range tr.Cycles {
		last := ci == len(tr.Cycles)-1
		if terminal {
			add("C06:cycle-after-terminal-condition", fmt.Sprintf("cycle %d began although the run had to end in cycle %d", cy.N, cy.N-1))
			break
		}
		// every active rule reported exactly once
		var rep []string
		for _, e := range cy.Evals {
			rep = append(rep, e.Rule)
		}
		sort.Strings(rep)
		cutShort := last && tr.Err != nil && !hx.IsLimitErr(tr.Err)
		if strings.Join(rep, ",") != strings.Join(cy.ActiveModel, ",") && !cutShort {
			add("C06:evaluations-not-exactly-the-active-rules", fmt.Sprintf("cycle %d reported %v, active rules are %v", cy.N, rep, cy.ActiveModel))
		}
		ncand := 0
		for _, e := range cy.Evals {
			rr := cy.RefAt[e.Rule]
			if rr.Err == nil && rr.True != e.Cand {
				foreign = true
				if !cutShort {
					// "with its real candidate status": the status told to the listeners is the condition's value on
					// the facts of that moment, whether or not the rule goes on to fire
					add("C06:candidate-status-misreported", fmt.Sprintf("cycle %d: listeners were told candidate=%v for %s, whose condition is %v on the facts of that moment", cy.N, e.Cand, e.Rule, rr.True))
				}
			}
			if e.Cand {
				ncand++
			}
		}
		if foreign {
			v.Foreign++
			break
		}
		if ncand == 0 {
			if cy.Exec != "" {
				add("C06:execution-without-candidate", fmt.Sprintf("cycle %d fired %s with no candidate", cy.N, cy.Exec))
			}
			if !last {
				add("C06:cycle-after-quiescence", fmt.Sprintf("cycle %d had no candidate but the run continued", cy.N))
			} else if tr.Err != nil {
				add("C06:error-at-quiescence", fmt.Sprintf("cycle %d had no candidate but Execute returned %v", cy.N, tr.Err))
			}
			terminal = true
			continue
		}
		if fired == tr.MaxCycle {
			v.Nontrivial = true
			if cy.Exec != "" {
				add("C06:fired-beyond-budget", fmt.Sprintf("cycle %d fired %s although %d rules had already fired (MaxCycle)", cy.N, cy.Exec, fired))
			}
			if !hx.IsLimitErr(tr.Err) {
				add("C06:limit-error-missing", fmt.Sprintf("cycle %d has candidates after %d firings (MaxCycle=%d) but Execute returned %v", cy.N, fired, tr.MaxCycle, tr.Err))
			}
			terminal = true
			continue
		}
		if cy.Exec == "" {
			add("C06:no-firing-despite-candidates-and-budget", fmt.Sprintf("cycle %d: %d candidates, %d/%d fired, nothing executed; returned %v", cy.N, ncand, fired, tr.MaxCycle, tr.Err))
			terminal = true
			continue
		}
		fired++
		if cy.ModelErr != nil {
			if tr.Err == nil || hx.IsLimitErr(tr.Err) || !strings.Contains(tr.Err.Error(), cy.Exec) {
				add("C06:action-error-not-reported", fmt.Sprintf("cycle %d: an action of %s fails (%v) but Execute returned %v", cy.N, cy.Exec, cy.ModelErr, tr.Err))
			}
			terminal = true
			continue
		}
		if cy.Effect.Complete {
			if tr.Err != nil {
				add("C06:error-after-complete", fmt.Sprintf("Complete() in cycle %d but Execute returned %v", cy.N, tr.Err))
			}
			terminal = true
			continue
		}
		if last {
			if hx.IsLimitErr(tr.Err) {
				add("C06:limit-error-too-early", fmt.Sprintf("limit error after %d firings with MaxCycle=%d", fired, tr.MaxCycle))
			} else if tr.Err == nil {
				add("C06:nil-return-mid-run", fmt.Sprintf("run ended after cycle %d without quiescence, Complete or error", cy.N))
			} else {
				add("C06:unexpected-error", fmt.Sprintf("Execute returned %v", tr.Err))
			}
		}
	}
	if !foreign && hx.IsLimitErr(tr.Err) && fired != tr.MaxCycle {
		add("C06:limit-error-with-wrong-count", fmt.Sprintf("limit error after %d firings, MaxCycle=%d", fired, tr.MaxCycle))
	}
	main := bvx(tr.Events)
	for i, l := range tr.ExtraLogs {
		if strings.Join(l, " ") != main {
			add("C06:listeners-disagree", fmt.Sprintf("listener %d saw %v, first listener saw %s", i+2, l, main))
		}
	}
	out = append(out, v)
	return out
}

func c06World() *ref.World {
	w := ref.NewWorld()
	w.Objs["F"] = facts.New()
	return w
}

func C06(rep *ev.Reporter, tier string) {
	bud := NewBudget(150 * time.Second)
	maxMax := uint64(8)
	if tier == "thorough" {
		bud = NewBudget(9 * time.Minute)
		maxMax = 12
	}
	type rs = []*grl.Rule
	sets := map[string]func() rs{}
	sets["never"] = func() rs { return rs{grl.R("r1", nil, "F.I < 0", "F.I = 1")} }
	for n := 1; n <= 3; n++ {
		n := n
		sets[fmt.Sprintf("count%d", n)] = func() rs { return rs{grl.R("r1", nil, fmt.Sprintf("F.I < %d", n), "F.I = F.I + 1")} }
		sets[fmt.Sprintf("completeAt%d", n)] = func() rs {
			return rs{grl.R("inc", nil, "F.I >= 0", "F.I = F.I + 1"), grl.R("done", grl.Sal(10), fmt.Sprintf("F.I == %d", n), "Complete()", "F.I2 = 7")}
		}
		sets[fmt.Sprintf("failAt%d", n)] = func() rs {
			return rs{grl.R("inc", nil, "F.I >= 0", "F.I = F.I + 1"), grl.R("bad", grl.Sal(10), fmt.Sprintf("F.I == %d", n), "F.I2 = 5", "F.P.V = 1", "F.I2 = 6")}
		}
	}
	sets["loop"] = func() rs { return rs{grl.R("r1", nil, "F.I >= 0", "F.I2 = F.I2 + 1")} }
	sets["loop2"] = func() rs {
		return rs{grl.R("r1", nil, "F.I >= 0", "F.I2 = F.I2 + 1"), grl.R("r2", nil, "F.I2 >= 0", "F.I = F.I + 1")}
	}
	sets["retractChain"] = func() rs {
		return rs{grl.R("r1", nil, "F.I >= 0", `Retract("r1")`), grl.R("r2", nil, "F.I >= 0", `Retract("r2")`), grl.R("r3", nil, "F.I >= 0", `Retract("r3")`)}
	}
	sets["mix"] = func() rs {
		return rs{grl.R("c2", nil, "F.I < 2", "F.I = F.I + 1"), grl.R("never", grl.Sal(5), "F.I < 0", "F.I = 9"), grl.R("loop", grl.Sal(-1), "F.I2 >= 0", "F.I2 = F.I2 + 1")}
	}
	sets["twoCounters"] = func() rs {
		return rs{grl.R("a", grl.Sal(5), "F.I < 1", "F.I = F.I + 1"), grl.R("b", nil, "F.I2 < 2", "F.I2 = F.I2 + 1")}
	}
	sets["changedGetter"] = func() rs {
		return rs{grl.R("g", nil, "F.GetI() < 2", "F.Bump()", `Changed("F.GetI()")`, `Forget("F.Bump()")`), grl.R("b", grl.Sal(-1), "F.I2 < 1", "F.I2 = F.I2 + 1")}
	}
	sets["condError"] = func() rs {
		return rs{grl.R("a", nil, "F.P.V == 0", "F.I = 1"), grl.R("b", nil, "F.I2 < 2", "F.I2 = F.I2 + 1")}
	}
	var names []string
	for k := range sets {
		names = append(names, k)
	}
	sort.Strings(names)
	gen := func(emit func(Case)) {
		for _, name := range names {
			for mc := uint64(0); mc <= maxMax; mc++ {
				for nl := 0; nl <= 3; nl++ {
					emit(Case{ID: fmt.Sprintf("c06/%s/max%d/l%d", name, mc, nl), Rules: sets[name](), Worlds: []func() *ref.World{c06World}, WorldNames: []string{"zero"},
						Opts: hx.RunOpts{MaxCycle: mc, ExtraListeners: nl}, ReuseDC: true, Histories: nl == 0})
				}
			}
		}
	}
	if tier == "thorough" {
		// the general 2-rule alphabet of C01/C02 (conditions x action lists incl. Retract, Complete, method calls)
		// under small budgets: the engine model decides the end of every run
		inner := gen
		gen = func(emit func(Case)) {
			inner(emit)
			for _, mc := range []uint64{0, 1, 2, 3, 5} {
				general2("quick", mc, func(c Case) {
					c.ID = fmt.Sprintf("c06/general2/max%d/%s", mc, c.ID)
					c.Opts.MaxCycle = mc
					c.Opts.ExtraListeners = 1
					emit(c)
				})
			}
		}
	}
	// zero-listener differential: same program and choices without any listener
	var plainChecked int64
	judge := func(c *Case, tr *hx.Trace, w *ref.World) []Verdict {
		vs := c06Judge(c, tr, w)
		if c.Opts.ExtraListeners == 0 && hx.OrderLive() && !c.InHistory { // the differential needs both runs to take the same rule order
			prog := hx.NewProgram(c.Rules, c.Style)
			if b, err := hx.Build(prog); err == nil {
				o := c.Opts
				o.Choices = tr.Choices
				if len(c.Worlds) != 1 {
					return vs // the differential uses the fixed C06 world
				}
				perr, final, pan := hx.RunPlain(b, c06World(), o)
				atomic.AddInt64(&plainChecked, 1)
				if pan != nil {
					vs = append(vs, Verdict{Sig: "C06:panic-without-listeners", What: fmt.Sprint(pan)})
				} else if (perr == nil) != (tr.Err == nil) || hx.IsLimitErr(perr) != hx.IsLimitErr(tr.Err) || final != tr.FinalDump {
					vs = append(vs, Verdict{Sig: "C06:run-differs-without-listeners", What: fmt.Sprintf("with listeners: err=%v final=%s; without: err=%v final=%s", tr.Err, tr.FinalDump, perr, final)})
				}
			}
		}
		return vs
	}
	RunFamily(rep, gen, 3000, bud, judge)
	rep.Coverage["zero_listener_runs_compared"] = plainChecked
	c06Nested(rep, sets, maxMax)
	// budgets at the end of the range ("no limit"): every rule set that ends within 1000 firings, under MaxCycle
	// 2^64-1, 2^64-2, 2^63 and 2^32: judged like any run, and equal to the run under MaxCycle 1000
	{
		var names []string
		for k := range sets {
			names = append(names, k)
		}
		sort.Strings(names)
		var n int64
		for _, name := range names {
			b, err := hx.Build(hx.NewProgram(sets[name](), grl.Style{}))
			if err != nil {
				continue
			}
			base := hx.Run(b, c06World(), hx.RunOpts{MaxCycle: 1000, NoSnapshots: true})
			if base.Err != nil || base.Panic != nil {
				continue // does not end (or fails) within 1000 firings
			}
			for _, mc := range []uint64{math.MaxUint64, math.MaxUint64 - 1, 1 << 63, 1 << 32} {
				id := fmt.Sprintf("c06/extreme-budget/%s/%d", name, mc)
				if rep.ReplayFilter != "" && rep.ReplayFilter != id {
					continue
				}
				n++
				tr := hx.Run(b, c06World(), hx.RunOpts{MaxCycle: mc, NoSnapshots: true})
				c := &Case{Rules: b.Prog.Rules}
				sig, what := "", ""
				for _, v := range c06Judge(c, tr, nil) {
					if v.Sig != "" && sig == "" {
						sig, what = v.Sig+":extreme-budget", v.What
					}
				}
				if sig == "" && hx.Evs(tr.Events) != hx.Evs(base.Events) {
					sig, what = "C06:run-differs-under-extreme-budget", fmt.Sprintf("MaxCycle=%d: %s\n  MaxCycle=1000: %s", mc, hx.Evs(tr.Events), hx.Evs(base.Events))
				}
				if sig != "" {
					rep.Violation(sig, what+"\n  case: "+id+"\n  grl: "+b.Prog.Text, map[string]interface{}{"case": id, "grl": b.Prog.Text, "max_cycle": fmt.Sprint(mc)})
				}
			}
		}
		rep.Coverage["extreme_budget_runs"] = n
	}
	{
		nr, nt := c06CompleteOutside(rep)
		rep.Coverage["complete_from_outside_runs"] = nr
		if v, ok := rep.Coverage["distinct_nontrivial"].(int64); ok {
			rep.Coverage["distinct_nontrivial"] = v + nt
		}
	}
	c06Interrupted(rep, sets)
	rep.Coverage["rule"] = "rule sets {never satisfied, fires n=1..3 times, loops forever (1 and 2 rules), Complete at firing n, action error at firing n, retract chain, mixed, failing condition, getter changed through a method and announced with Changed (also as second run on one data context)} x MaxCycle 0..5 (thorough 0..8) x 1..4 listeners (+ a listener-free differential run) x every rule order per cycle. Oracle: the engine model followed along the observed trace decides, per cycle, whether the run must continue, fire, end with nil, with the limit error or with an action error; per-listener protocol automaton (consecutive numbering, each active rule exactly once, <=1 execution of a same-cycle candidate). Termination horizon is a callback count, not a clock. Non-trivial: a run that reaches the budget boundary with candidates left. Third family (interrupted runs): every rule set under every static order with the context ending (Canceled / DeadlineExceeded) at every poll index: reported statuses stay truthful unless the run ends with the context's error, nil only at real quiescence, an announced execution runs its actions. Second family (overlapping runs on ONE engine value): for every outer program with a probe in an action or a condition x inner program x MaxCycle x probe invocation index j, the j-th probe invocation of the outer run starts a complete inner run (own instance, facts and data context) on the same (warm: it served a complete run before) *GruleEngine, under the first and last static rule order of either run; both traces are judged by the same engine model and compared with the scenario run on two separate engine values."
}

// c06Interrupted: the same rule sets under a context that ends (cancelled / deadline passed) at EVERY poll index of
// the run. What the listeners are told stays truthful: a rule reported as non-candidate although its condition
// holds is acceptable only in a run that ends with the context's error; nil is returned only at real quiescence
// (or after Complete); an announced execution really runs the rule's actions unless the run ends with an error.
func c06Interrupted(rep *ev.Reporter, sets map[string]func() []*grl.Rule) {
	var names []string
	for k := range sets {
		names = append(names, k)
	}
	sort.Strings(names)
	var nRuns, nt int64
	ParallelEach(len(names), func(ni int) {
		name := names[ni]
		b, err := hx.Build(hx.NewProgram(sets[name](), grl.Style{}))
		if err != nil {
			return
		}
		for ord := 0; ord < hx.NPerms(len(b.Prog.Rules)); ord++ {
			pc0 := hx.NewPollCtx(0, nil)
			hx.Run(b, c06World(), hx.RunOpts{MaxCycle: 4, DefaultChoice: ord, Ctx: pc0})
			for ci, cause := range []error{context.Canceled, context.DeadlineExceeded} {
				for p := 1; p <= pc0.Polls; p++ {
					caseID := fmt.Sprintf("c06/interrupted/%s/o%d/%s@%d", name, ord, []string{"canceled", "deadline"}[ci], p)
					if rep.ReplayFilter != "" && rep.ReplayFilter != caseID {
						continue
					}
					once := func() (string, string, *hx.Trace) {
						pc := hx.NewPollCtx(p, cause)
						if ci == 1 {
							pc.DeadlineAt = time.Now().Add(-time.Hour)
						}
						tr := hx.Run(b, c06World(), hx.RunOpts{MaxCycle: 4, DefaultChoice: ord, Ctx: pc})
						atomic.AddInt64(&nRuns, 1)
						if tr.Panic != nil {
							return "C06:panic", fmt.Sprint(tr.Panic), tr
						}
						for _, pv := range tr.Protocol {
							return "C06:listener-protocol:" + strings.SplitN(pv, "(", 2)[0] + ":interrupted-run", pv, tr
						}
						ctxErr := tr.Err != nil && (errors.Is(tr.Err, cause) || strings.Contains(tr.Err.Error(), cause.Error()))
						for _, cy := range tr.Cycles {
							for _, e := range cy.Evals {
								if rr := cy.RefAt[e.Rule]; rr.Err == nil && rr.True && !e.Cand && !ctxErr {
									return "C06:satisfied-rule-reported-as-non-candidate-in-an-interrupted-run", fmt.Sprintf("cycle %d: %s is satisfied on the current facts, was reported as NOT a candidate (the context ended at poll %d), and Execute returned %v instead of the context's error", cy.N, e.Rule, p, tr.Err), tr
								}
							}
							if cy.Exec != "" && tr.Err == nil && cy.PostChecked && !cy.PostOK && cy.ModelErr == nil {
								return "C06:announced-execution-did-not-run-the-actions", fmt.Sprintf("cycle %d: ExecuteRuleEntry(%s) was announced and Execute returned nil, but the facts are not those the rule's actions leave:\n%s", cy.N, cy.Exec, cy.PostDiff), tr
							}
						}
						if tr.Err == nil && !tr.Completed && len(tr.FinalCands) > 0 {
							return "C06:nil-return-before-quiescence-in-an-interrupted-run", fmt.Sprintf("the context ended at poll %d; Execute returned nil although %v are satisfied on the final facts and Complete was not called", p, tr.FinalCands), tr
						}
						return "", "", tr
					}
					sig, what, tr := once()
					atomic.AddInt64(&nt, 1)
					if sig != "" {
						if s2, _, _ := once(); s2 != sig {
							fmt.Printf("HARNESS-NONDETERMINISM property=C06 case=%s\n", caseID)
							continue
						}
						rep.Violation(sig, what+"\n  case: "+caseID+"\n  grl: "+b.Prog.Text+"\n  events: "+strings.Join(tr.Events, " "), map[string]interface{}{"case": caseID, "grl": b.Prog.Text, "flip_at_poll": p, "events": tr.Events})
					}
				}
			}
		}
	})
	rep.Coverage["interrupted_runs"] = nRuns
	if v, ok := rep.Coverage["evaluations"].(int64); ok {
		rep.Coverage["evaluations"] = v + nRuns
	}
	if v, ok := rep.Coverage["distinct_nontrivial"].(int64); ok {
		rep.Coverage["distinct_nontrivial"] = v + nt
	}
}

// c06Nested: overlapping runs on one engine value, every nesting point enumerated.
func c06Nested(rep *ev.Reporter, sets map[string]func() []*grl.Rule, maxMax uint64) {
	type rs = []*grl.Rule
	outers := c06NestedOuters()
	inners := []string{"never", "count1", "count3", "loop", "completeAt1", "retractChain"}
	nestedRuns(rep, "C06", c06Judge, outers, sets, inners, maxMax)
}

func c06NestedOuters() map[string]func() []*grl.Rule {
	type rs = []*grl.Rule
	return map[string]func() rs{
		"countA3": func() rs { return rs{grl.R("o1", nil, "F.I < 3", "F.I = F.I + 1", "F.Act(1)")} },
		"loopA":   func() rs { return rs{grl.R("o1", nil, "F.I >= 0", "F.I2 = F.I2 + 1", "F.Act(1)")} },
		"condC2":  func() rs { return rs{grl.R("o1", nil, "F.Chk(F.I) && F.I < 2", "F.I = F.I + 1")} },
		"completeA": func() rs {
			return rs{grl.R("inc", nil, "F.I >= 0", "F.I = F.I + 1", "F.Act(1)"), grl.R("done", grl.Sal(10), "F.I == 2", "Complete()", "F.Act(2)")}
		},
		"twoA": func() rs {
			return rs{grl.R("a", grl.Sal(5), "F.I < 1", "F.I = F.I + 1", "F.Act(1)"), grl.R("b", nil, "F.I2 < 2 && F.Chk(F.I2)", "F.I2 = F.I2 + 1")}
		},
	}
}

// nestedRuns: overlapping runs on ONE engine value, judged by the property's own judge (prop: its id) and compared
// with the scenario run on two separate engine values.
func nestedRuns(rep *ev.Reporter, prop string, judge func(c *Case, tr *hx.Trace, w *ref.World) []Verdict, outers map[string]func() []*grl.Rule, sets map[string]func() []*grl.Rule, inners []string, maxMax uint64) {
	var onames []string
	for k := range outers {
		onames = append(onames, k)
	}
	sort.Strings(onames)
	type job struct {
		outer, inner string
		mc           uint64
	}
	var jobs []job
	for _, o := range onames {
		for _, in := range inners {
			for mc := uint64(1); mc <= maxMax-1; mc++ {
				jobs = append(jobs, job{o, in, mc})
			}
		}
	}
	var nRuns, nNest, nontrivial int64
	ParallelEach(len(jobs), func(ji int) {
		j := jobs[ji]
		ob, err1 := hx.Build(hx.NewProgram(outers[j.outer](), grl.Style{}))
		ib, err2 := hx.Build(hx.NewProgram(sets[j.inner](), grl.Style{}))
		if err1 != nil || err2 != nil {
			rep.Violation("harness:build-failed:nested", fmt.Sprint(err1, err2), nil)
			return
		}
		oc := &Case{Rules: ob.Prog.Rules}
		ic := &Case{Rules: ib.Prog.Rules}
		// scenario(at, shared): outer run; its at-th probe invocation starts the inner run
		oOrd, iOrd := 0, 0
		scenario := func(at int, shared bool) (otr, itr *hx.Trace) {
			se := hx.NewSharedEngine(j.mc, false)
			ie := se
			if !shared {
				ie = hx.NewSharedEngine(j.mc, false)
			}
			// the engine value is WARM: it has served a complete run before (scratch state kept from run to
			// run would be empty on a fresh value)
			hx.Run(ib, c06World(), hx.RunOpts{Shared: se})
			if ie != se {
				hx.Run(ib, c06World(), hx.RunOpts{Shared: ie})
			}
			ow := c06World()
			otr = hx.Run(ob, ow, hx.RunOpts{Shared: se, DefaultChoice: oOrd, OnProbe: func(kind string, id int64, n int) {
				if n == at && itr == nil {
					itr = hx.Run(ib, c06World(), hx.RunOpts{Shared: ie, DefaultChoice: iOrd})
				}
			}})
			return otr, itr
		}
		// static rule orders of the outer and of the inner run: first and last permutation each
		type ordPair struct{ o, i int }
		ords := []ordPair{{0, 0}}
		if no, ni := hx.NPerms(len(ob.Prog.Rules)), hx.NPerms(len(ib.Prog.Rules)); no > 1 || ni > 1 {
			ords = append(ords, ordPair{no - 1, ni - 1})
			if no > 1 && ni > 1 {
				ords = append(ords, ordPair{no - 1, 0}, ordPair{0, ni - 1})
			}
		}
		for _, op := range ords {
			oOrd, iOrd = op.o, op.i
			base, _ := scenario(0, true)
			atomic.AddInt64(&nRuns, 1)
			probes := 0
			for _, e := range base.Events {
				if strings.HasPrefix(e, "act:") || strings.HasPrefix(e, "chk:") {
					probes++
				}
			}
			for at := 1; at <= probes; at++ {
				caseID := fmt.Sprintf("%s/nested/%s/%s/max%d/at%d/o%d.%d", strings.ToLower(prop), j.outer, j.inner, j.mc, at, oOrd, iOrd)
				if rep.ReplayFilter != "" && rep.ReplayFilter != caseID {
					continue
				}
				judgeOnce := func() (sig, what string) {
					otr, itr := scenario(at, true)
					rotr, ritr := scenario(at, false)
					atomic.AddInt64(&nRuns, 4)
					if itr == nil || ritr == nil {
						return "", ""
					}
					for _, x := range []struct {
						role string
						c    *Case
						tr   *hx.Trace
					}{{"outer", oc, otr}, {"inner", ic, itr}} {
						for _, v := range judge(x.c, x.tr, nil) {
							if v.Sig != "" {
								return v.Sig + ":overlapping-runs-on-one-engine:" + x.role, fmt.Sprintf("%s run (the inner run was started by probe invocation %d of the outer run on the SAME engine value, MaxCycle=%d): %s\n  %s events: %s", x.role, at, j.mc, v.What, x.role, strings.Join(x.tr.Events, " "))
							}
						}
					}
					if !hx.OrderLive() {
						return "", "" // without order control two runs of one scenario may break salience ties differently
					}
					if a, b := hx.Evs(otr.Events), hx.Evs(rotr.Events); a != b {
						return prop + ":run-differs-when-engine-value-is-shared:outer", fmt.Sprintf("outer run with the inner run on the same engine: %s\n  with the inner run on another engine value: %s", a, b)
					}
					if a, b := hx.Evs(itr.Events), hx.Evs(ritr.Events); a != b {
						return prop + ":run-differs-when-engine-value-is-shared:inner", fmt.Sprintf("inner run on the engine value of the outer run: %s\n  on its own engine value: %s", a, b)
					}
					return "", ""
				}
				sig, what := judgeOnce()
				atomic.AddInt64(&nNest, 1)
				atomic.AddInt64(&nontrivial, 1)
				if sig != "" {
					if s2, _ := judgeOnce(); s2 != sig {
						fmt.Printf("HARNESS-NONDETERMINISM property=%s case=%s sig=%s\n", prop, caseID, sig)
						continue
					}
					rep.Violation(sig, what+"\n  case: "+caseID+"\n  outer grl: "+ob.Prog.Text+"\n  inner grl: "+ib.Prog.Text, map[string]interface{}{"case": caseID, "outer": ob.Prog.Text, "inner": ib.Prog.Text, "max_cycle": j.mc, "nest_at_probe": at, "outer_order": oOrd, "inner_order": iOrd})
				}
				if ji == 0 && at == 1 && oOrd == 0 {
					otr, itr := scenario(at, true)
					rep.Sample(map[string]interface{}{"case": caseID, "outer": ob.Prog.Text, "inner": ib.Prog.Text, "outer_events": otr.Events, "inner_events": itr.Events})
				}
			}
		}
	})
	rep.Coverage["nested_scenarios"] = nNest
	rep.Coverage["nested_runs"] = nRuns
	if v, ok := rep.Coverage["evaluations"].(int64); ok {
		rep.Coverage["evaluations"] = v + nRuns
	}
	if v, ok := rep.Coverage["distinct_nontrivial"].(int64); ok {
		rep.Coverage["distinct_nontrivial"] = v + nontrivial
	}
}
