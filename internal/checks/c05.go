package checks

import (
	"fmt"
	"math"
	"os"
	"path/filepath"
	"regexp"
	"strconv"
	"strings"
	"sync"
	"sync/atomic"
	"time"
	"unicode/utf8"

	"verif/internal/ev"
	"verif/internal/facts"
	"verif/internal/grl"
	"verif/internal/hx"
	"verif/internal/ref"
)

func repoRoot() string {
	if r := os.Getenv("VERIF_REPO"); r != "" {
		return r
	}
	return "/repo"
}

// c05DocTable parses the published precedence table from docs/en/GRL_en.md of the working tree.
func c05DocTable() (map[string]int, error) {
	b, err := os.ReadFile(filepath.Join(repoRoot(), "docs", "en", "GRL_en.md"))
	if err != nil {
		return nil, err
	}
	s := string(b)
	i := strings.Index(s, "### Operator precedence")
	if i < 0 {
		return nil, fmt.Errorf("no 'Operator precedence' section in GRL_en.md")
	}
	s = s[i:]
	if j := strings.Index(s[5:], "\n### "); j >= 0 {
		s = s[:j+5]
	}
	tab := map[string]int{}
	rowRe := regexp.MustCompile("(?m)^\\|\\s*(\\d+)\\s*\\|(.*)\\|\\s*$")
	tokRe := regexp.MustCompile("`([^`]+)`")
	for _, m := range rowRe.FindAllStringSubmatch(s, -1) {
		p, _ := strconv.Atoi(m[1])
		for _, t := range tokRe.FindAllStringSubmatch(m[2], -1) {
			op := strings.ReplaceAll(t[1], "\\|", "|")
			tab[op] = p
		}
	}
	for _, op := range []string{"*", "/", "%", "&", "+", "-", "|", "==", "!=", "<", "<=", ">", ">=", "&&", "||"} {
		if _, ok := tab[op]; !ok {
			return nil, fmt.Errorf("published table lacks operator %q (parsed %v)", op, tab)
		}
	}
	return tab, nil
}

func c05World() *ref.World {
	w := ref.NewWorld()
	f := facts.New()
	f.I, f.I2, f.U8, f.F, f.S, f.B = 5, 3, 9, 1.5, "xy", true
	f.Arr = []int64{4, 6, 8}
	f.M = map[string]int64{"a": 2, "b": 7}
	f.SArr = []string{"p", "q"}
	f.SV = facts.Sub{V: 500, S: "sv"}
	f.P = &facts.Sub{V: 70, S: "p"}
	w.Objs["F"] = f
	w.Objs["K"] = facts.New()
	return w
}

type c05Leaf struct {
	text string
	typ  string // int float str bool
}

var c05Leaves = []c05Leaf{
	{"2", "int"}, {"7", "int"}, {"-3", "int"}, {"F.I", "int"}, {"F.I2", "int"}, {"F.U8", "int"}, {"F.Add(1, 2)", "int"}, {"F.S.Len()", "int"}, {"F.Arr.Len()", "int"},
	{"F.Pick(1, 4, 6)", "int"}, {"F.Arr[1]", "int"}, {`F.M["b"]`, "int"}, {"F.M.Len()", "int"},
	{"2.5", "float"}, {"F.F", "float"}, {"0.5", "float"},
	{`"ab"`, "str"}, {"F.S", "str"}, {`F.Cat("p", "q", "r")`, "str"}, {"F.S.ToUpper()", "str"}, {"F.SArr[0]", "str"},
	{"true", "bool"}, {"false", "bool"}, {"F.B", "bool"}, {"F.IsPos(1)", "bool"}, {`F.S.Contains("x")`, "bool"}, {"!F.B", "bool"}, {`F.S.HasPrefix("y")`, "bool"},
}

var c05Ops = []string{"*", "/", "%", "&", "+", "-", "|", "==", "!=", "<", "<=", ">", ">=", "&&", "||"}

var c05Sink = map[ref.VK]string{ref.VInt: "K.I", ref.VUint: "K.U", ref.VFloat: "K.F", ref.VString: "K.S", ref.VBool: "K.B"}

type c05Expr struct {
	e    grl.Expr
	note string
	val  ref.Val
}

// evalOK evaluates e on the fixed world; ok=false when outside the quantifier.
func c05Eval(e grl.Expr) (ref.Val, bool) {
	v, err := (&ref.Evaluator{W: c05World()}).Eval(e)
	if err != nil {
		return v, false
	}
	switch v.K {
	case ref.VFloat:
		if math.IsNaN(v.F) || math.IsInf(v.F, 0) {
			return v, false
		}
	case ref.VInt, ref.VUint, ref.VString, ref.VBool:
	default:
		return v, false
	}
	return v, true
}

// hasBadIntermediate rejects division/modulo by zero or NaN anywhere inside.
func c05Clean(e grl.Expr) bool {
	ok := true
	grl.Walk(e, func(x grl.Expr) {
		if b, isBin := x.(*grl.Bin); isBin && (b.Op == "/" || b.Op == "%") {
			if v, good := c05Eval(b.R); good && v.IsNum() && v.AsFloat() == 0 {
				ok = false
			}
		}
		if _, isBin := x.(*grl.Bin); isBin {
			if v, good := c05Eval(x); good && v.K == ref.VFloat && (math.IsNaN(v.F) || math.IsInf(v.F, 0)) {
				ok = false
			}
		}
	})
	return ok
}

type c05Style struct {
	name string
	st   grl.Style
}

func C05(rep *ev.Reporter, tier string) {
	bud := NewBudget(150 * time.Second)
	if tier == "thorough" {
		bud = NewBudget(9 * time.Minute)
	}
	table, err := c05DocTable()
	if err != nil {
		rep.Violation("C05:published-precedence-table-unreadable", err.Error(), nil)
		return
	}
	// the grammar's actual grouping hypothesis used only to CLASSIFY a mismatch (not as oracle)
	engineTab := map[string]int{}
	for k, v := range table {
		engineTab[k] = v
	}
	engineTab["&"] = table["+"]
	styles := []c05Style{
		{"minimal", grl.Style{PrecTab: table}},
		{"full-paren", grl.Style{PrecTab: table, FullParen: true}},
		{"double-paren+upper", grl.Style{PrecTab: table, FullParen: true, Double: true, Upper: 1}},
		{"tight+mixed-case", grl.Style{PrecTab: table, Tight: true, Upper: 2}},
		{"line-comments", grl.Style{PrecTab: table, Sp: "\n// c\n"}},
		{"block-comments", grl.Style{PrecTab: table, Sp: " /* c */\t"}},
	}
	leaves := c05Leaves
	chainLeaves := []c05Leaf{{"2", "int"}, {"7", "int"}, {"F.I2", "int"}, {"2.5", "float"}, {`"ab"`, "str"}, {"true", "bool"}, {"false", "bool"}, {"F.B", "bool"}}
	if tier == "quick" {
		chainLeaves = []c05Leaf{{"6", "int"}, {"7", "int"}, {"F.I2", "int"}, {"2.5", "float"}, {`"ab"`, "str"}, {"true", "bool"}, {"false", "bool"}}
	}
	var exprs []c05Expr
	add := func(e grl.Expr, note string) {
		v, ok := c05Eval(e)
		if !ok || !c05Clean(e) {
			return
		}
		exprs = append(exprs, c05Expr{e, note, v})
	}
	// A: depth 0/1 — every leaf, !leaf, every operator on every leaf pair
	for _, l := range leaves {
		add(grl.E(l.text), "leaf")
		if l.typ == "bool" {
			add(&grl.Not{X: grl.E(l.text)}, "not-atom")
			add(&grl.Not{X: &grl.Paren{X: grl.E(l.text)}}, "not-paren")
		}
	}
	for _, a := range leaves {
		for _, b := range leaves {
			for _, op := range c05Ops {
				add(&grl.Bin{Op: op, L: grl.E(a.text), R: grl.E(b.text)}, "binary")
			}
		}
	}
	nA := len(exprs)
	// B: depth 2 — both shapes over every operator pair and every leaf triple of the chain alphabet
	for _, a := range chainLeaves {
		for _, b := range chainLeaves {
			for _, c := range chainLeaves {
				for _, o1 := range c05Ops {
					for _, o2 := range c05Ops {
						la, lb, lc := grl.E(a.text), grl.E(b.text), grl.E(c.text)
						add(&grl.Bin{Op: o2, L: &grl.Bin{Op: o1, L: la, R: lb}, R: lc}, "chain-left")
						add(&grl.Bin{Op: o1, L: la, R: &grl.Bin{Op: o2, L: lb, R: lc}}, "chain-right")
					}
				}
			}
		}
	}
	nB := len(exprs) - nA
	// negation of parenthesised expressions
	for _, a := range chainLeaves {
		for _, b := range chainLeaves {
			for _, op := range []string{"==", "<", "&&", "||", "!="} {
				add(&grl.Not{X: &grl.Bin{Op: op, L: grl.E(a.text), R: grl.E(b.text)}}, "not-expr")
				add(&grl.Bin{Op: "&&", L: &grl.Not{X: &grl.Bin{Op: op, L: grl.E(a.text), R: grl.E(b.text)}}, R: grl.E("F.B")}, "not-expr-and")
			}
		}
	}
	// D: the built-in surface - every string method on every receiver x argument of small alphabets (constants,
	// fields, computed arguments), slice/map functions, the built-in functions incl. the math family on float
	// arguments; the reference is Go's function of the same name. Only calls the reference model types are kept.
	nBefore := len(exprs)
	{
		recv := []string{`"abcabc"`, "F.S", `""`, `"Ünï ab"`, `"漢字ï漢"`, `" pad\t"`, `F.SArr[1]`, `F.Cat(F.S, "yx")`}
		sarg := []string{`"a"`, `"bc"`, `""`, `"y"`, "F.S", `"x" + "y"`, `F.Cat("a", "b")`, `"ï"`, `"Ün"`}
		for _, r := range recv {
			for _, m := range []string{"Len", "ToLower", "ToUpper", "Trim"} {
				add(grl.E(r+"."+m+"()"), "builtin-str0")
			}
			for _, m := range []string{"Compare", "Contains", "Count", "HasPrefix", "HasSuffix", "Index", "LastIndex", "MatchString"} {
				for _, a := range sarg {
					add(grl.E(r+"."+m+"("+a+")"), "builtin-str1")
				}
			}
			for _, a := range sarg {
				add(grl.E(r+".Split("+a+").Len()"), "builtin-split")
				for _, b := range sarg {
					add(grl.E(r+".Replace("+a+", "+b+")"), "builtin-str2")
				}
			}
			for _, n := range []string{"0", "1", "3", "F.I2", "F.I2 - 1"} {
				add(grl.E(r+".Repeat("+n+")"), "builtin-repeat")
			}
			for _, p := range []string{`"^a"`, `"b+c"`, `"^$"`, `"^x"`, `"(a|y)x?"`, `"\\s"`} {
				add(grl.E(r+".MatchString("+p+")"), "builtin-match")
			}
			add(grl.E(r+".In()"), "builtin-in")
			add(grl.E(r+`.In("xy")`), "builtin-in")
			add(grl.E(r+`.In("q", F.S, "abcabc")`), "builtin-in")
			add(grl.E(r+`.In("", "q")`), "builtin-in")
		}
		for _, e := range []string{"F.Arr.Len()", "F.SArr.Len()", "F.M.Len()", `StringContains(F.S, "x")`, `StringContains("abc", F.S)`, `StringContains(F.S + "z", "yz")`,
			"IsZero(F.I)", "IsZero(0)", "IsZero(0.0)", `IsZero("")`, "IsZero(F.S)", "IsZero(F.I - 5)", "IsNil(F.P)", "IsNil(F.PI)",
			// 64-bit wrap-around, division and modulo of negative numbers (Go's rules)
			"9223372036854775807 + F.I", "9223372036854775807 + 1", "-9223372036854775807 - F.I", "9223372036854775807 * 2", "F.I * 9223372036854775807", "4611686018427387904 * 2",
			"-7 % 3", "7 % -3", "-7 % -3", "(0 - F.I) % 3", "-7 / 2", "7 / -2", "(0 - F.I) / 2", "F.I2 - F.I - F.I", "-8 & 3", "-8 | 3", "(0 - F.I) & 6",
			"F.SV.Twice()", "F.P.Twice()", "F.P.Avail()", "F.SV.Twice() + F.P.Twice()", "F.P.Twice() + F.SV.Twice()", "F.P.Avail() + F.SV.Twice()", "F.SV.Twice() * 10 + F.P.Avail()",
			"Max()", "Min()", "Max() + 1.5", "F.Cat()", `F.Cat() + "z"`, "F.Pick(0)", "F.Pick(1)", "F.Pick(0) + 2", `F.Cat("only")`,
			"Max(1.5)", "Max(1.5, 2.5)", "Max(2.5, 1.5, F.F)", "Min(1.5, F.F, 0.5)", "Max(F.F, F.F * 3.0)", "Min(-0.0, 0.0)", "Abs(-1.5)", "Abs(F.F - 2.0)",
			`ContainsStr(F.SArr, "q")`, `ContainsStr(F.SArr, "z")`, `ContainsStr(F.S.Split("y"), "x")`,
			"Pow10(2)", "Pow10(F.I2)", "Ldexp(0.5, 3)", "Jn(1, 2.5)", "Ilogb(8.5)", "IsNaN(F.F)", "IsInf(F.F, 1)", "Signbit(-2.5)", "Signbit(F.F)"} {
			add(grl.E(e), "builtin-func")
		}
		fargs := []string{"0.5", "2.5", "F.F", "F.F + 0.25", "0.0", "-0.75", "100.0"}
		for _, fn := range []string{"Acos", "Acosh", "Asin", "Asinh", "Atan", "Atanh", "Cbrt", "Ceil", "Cos", "Cosh", "Erf", "Erfc", "Erfcinv", "Erfinv", "Exp", "Exp2", "Expm1", "Floor",
			"Gamma", "J0", "J1", "MathLog", "Log10", "Log1p", "Log2", "Logb", "Round", "RoundToEven", "Sin", "Sinh", "Sqrt", "Tan", "Tanh", "Trunc"} {
			for _, a := range fargs {
				add(grl.E(fn+"("+a+")"), "builtin-math1")
			}
		}
		for _, fn := range []string{"Atan2", "Copysign", "Dim", "Hypot", "Mod", "Pow", "Remainder"} {
			for _, a := range fargs {
				for _, b := range fargs {
					add(grl.E(fn+"("+a+", "+b+")"), "builtin-math2")
				}
			}
		}
	}
	rep.Coverage["expressions_builtin_surface"] = len(exprs) - nBefore
	if tier == "thorough" {
		// C: depth 3 chains a o1 b o2 c o3 d (left-nested tree, minimal printing decides parentheses) on a small alphabet
		small := []string{"6", "7", "F.I2", "2.5", "true"}
		for _, a := range small {
			for _, b := range small {
				for _, c := range small {
					for _, d := range small {
						for _, o1 := range c05Ops {
							for _, o2 := range c05Ops {
								for _, o3 := range c05Ops {
									add(&grl.Bin{Op: o3, L: &grl.Bin{Op: o2, L: &grl.Bin{Op: o1, L: grl.E(a), R: grl.E(b)}, R: grl.E(c)}, R: grl.E(d)}, "chain3-left")
									add(&grl.Bin{Op: o1, L: grl.E(a), R: &grl.Bin{Op: o2, L: grl.E(b), R: &grl.Bin{Op: o3, L: grl.E(c), R: grl.E(d)}}}, "chain3-right")
								}
							}
						}
					}
				}
			}
		}
	}
	rep.Coverage["expressions_depth01"] = nA
	rep.Coverage["expressions_depth2"] = nB
	rep.Coverage["expressions_total"] = len(exprs)

	// ---- run: pack expressions into knowledge bases, one gated rule each ----
	const pack = 30
	type batch struct {
		lo, hi int
		style  int
	}
	var batches []batch
	for si := range styles {
		if tier == "quick" && si >= 2 {
			// quick: the textual styles beyond minimal/full-paren run on every 7th batch only (fixed sub-family)
			for lo := 0; lo < len(exprs); lo += pack * 7 {
				batches = append(batches, batch{lo, min(lo+pack, len(exprs)), si})
			}
			continue
		}
		for lo := 0; lo < len(exprs); lo += pack {
			batches = append(batches, batch{lo, min(lo+pack, len(exprs)), si})
		}
	}
	if mb, _ := strconv.Atoi(os.Getenv("VERIF_C05_MAXBATCH")); mb > 0 && mb < len(batches) {
		batches = batches[:mb]
	}
	var printings, nontrivial, programs int64
	var mu sync.Mutex
	flat := func(e grl.Expr) bool {
		return !strings.ContainsAny(grl.Print(e, grl.Style{PrecTab: table}), "()") || isCallOnly(e)
	}
	ParallelEach(len(batches), func(bi int) {
		bt := batches[bi]
		if bud.Over() {
			return
		}
		st := styles[bt.style]
		var rules []*grl.Rule
		for i := bt.lo; i < bt.hi; i++ {
			x := exprs[i]
			sink := c05Sink[x.val.K]
			r := &grl.Rule{Name: fmt.Sprintf("e%d", i-bt.lo), When: grl.E(fmt.Sprintf("K.K == %d", i-bt.lo))}
			r.Then = append(r.Then, grl.Action{Target: grl.E(sink).(*grl.Ref), Op: "=", RHS: x.e}, grl.A("K.K = K.K + 1"))
			rules = append(rules, r)
		}
		id := fmt.Sprintf("c05/%s/%d-%d", st.name, bt.lo, bt.hi)
		if rep.ReplayFilter != "" && !strings.HasPrefix(rep.ReplayFilter, id+"#") {
			return
		}
		prog := hx.NewProgram(rules, st.st)
		b, err := hx.Build(prog)
		atomic.AddInt64(&programs, 1)
		if err != nil {
			// find the culprit(s) by building each rule alone
			for i, r := range rules {
				if _, e1 := hx.Build(hx.NewProgram([]*grl.Rule{r}, st.st)); e1 != nil {
					x := exprs[bt.lo+i]
					mu.Lock()
					rep.Violation("C05:rejected:"+x.note+":"+st.name+":"+opsOf(x.e), fmt.Sprintf("well-typed expression rejected by the builder: %s\n  %v", grl.Print(x.e, st.st), e1), map[string]interface{}{"case": fmt.Sprintf("%s#%d", id, i), "grl": grl.PrintRule(r, st.st)})
					mu.Unlock()
				}
			}
			return
		}
		w := c05World()
		tr := hx.Run(b, w, hx.RunOpts{MaxCycle: uint64(len(rules) + 2)})
		atomic.AddInt64(&printings, int64(len(rules)))
		for _, cy := range tr.Cycles {
			if cy.Exec == "" {
				continue
			}
			idx, _ := strconv.Atoi(cy.Exec[1:])
			x := exprs[bt.lo+idx]
			caseID := fmt.Sprintf("%s#%d", id, idx)
			if rep.ReplayFilter != "" && rep.ReplayFilter != caseID {
				continue
			}
			if flat(x.e) && x.note != "leaf" && x.note != "binary" {
				atomic.AddInt64(&nontrivial, 1)
			}
			bad := ""
			if cy.ModelErr != nil || cy.ModelUnsupported {
				continue
			}
			if tr.Err != nil && cy == tr.Cycles[len(tr.Cycles)-1] {
				bad = fmt.Sprintf("Execute returned %v", tr.Err)
			} else if cy.PostChecked && !cy.PostOK {
				bad = "value differs"
			}
			if bad == "" {
				continue
			}
			text := grl.Print(x.e, st.st)
			// classify: does the grammar's grouping of & (with + - |) explain the observed value?
			sig := "C05:wrong-value:" + x.note + ":" + opsOf(x.e)
			plain := grl.Print(x.e, grl.Style{PrecTab: table, FullParen: st.st.FullParen})
			if reparsed := c05Reparse(plain, engineTab); reparsed != nil && grl.Print(reparsed, grl.Style{FullParen: true}) != grl.Print(x.e, grl.Style{FullParen: true}) {
				// the text groups differently under the grammar's table: does that explain the observation?
				real, rerr := c05RunAlone(plain, x.val.K, st.st)
				// raw reference value under the grammar's grouping (Inf / NaN allowed here: this only classifies)
				v2, err2 := (&ref.Evaluator{W: c05World()}).Eval(reparsed)
				if err2 == nil {
					if rerr == nil && real == v2.String() {
						sig = "C05:bitand-groups-with-additive-operators-not-as-published"
					}
				} else if rerr != nil {
					sig = "C05:bitand-groups-with-additive-operators-not-as-published" // ill-typed under the grammar's grouping, and the engine errs
				}
			}
			mu.Lock()
			rep.Violation(sig, fmt.Sprintf("%s: `%s` (style %s) — reference value by the published table: %s; %s\n%s", x.note, text, st.name, x.val, bad, cy.PostDiff), map[string]interface{}{"case": caseID, "grl": grl.PrintRule(rules[idx], st.st)})
			mu.Unlock()
		}
		if len(tr.Cycles) < len(rules) && tr.Err == nil {
			mu.Lock()
			rep.Violation("harness:C05-batch-incomplete", fmt.Sprintf("%s: %d of %d rules fired; events %v", id, len(tr.Cycles), len(rules), tr.Events), map[string]interface{}{"case": id})
			mu.Unlock()
		}
		if bi%400 == 0 {
			rep.Sample(map[string]interface{}{"case": id, "first_rule": grl.PrintRule(rules[0], st.st), "last_rule": grl.PrintRule(rules[len(rules)-1], st.st)})
		}
	})
	// ---- one knowledge base holding X, (X), ((X)), !(X), !((X)), !X-forms of the SAME X ----
	var mixN int64
	{
		var xs []c05Expr
		for _, x := range exprs {
			if x.val.K == ref.VBool && (x.note == "binary" || x.note == "leaf") {
				xs = append(xs, x)
			}
		}
		stepX := 1
		if tier == "quick" {
			stepX = 9
		}
		var picks []c05Expr
		for i := 0; i < len(xs); i += stepX {
			picks = append(picks, xs[i])
		}
		ParallelEach(len(picks), func(pi int) {
			if bud.Over() {
				return
			}
			x := picks[pi]
			id := fmt.Sprintf("c05/paren-negation-mix/%d", pi)
			if rep.ReplayFilter != "" && !strings.HasPrefix(rep.ReplayFilter, id) {
				return
			}
			forms := []grl.Expr{&grl.Paren{X: x.e}, &grl.Not{X: &grl.Paren{X: x.e}}, &grl.Paren{X: &grl.Paren{X: x.e}}, x.e, &grl.Not{X: &grl.Paren{X: &grl.Paren{X: x.e}}},
				&grl.Bin{Op: "||", L: &grl.Not{X: &grl.Paren{X: x.e}}, R: &grl.Paren{X: x.e}}}
			for _, order := range [][]int{{0, 1, 2, 3, 4, 5}, {1, 0, 4, 2, 3, 5}, {5, 3, 1, 0, 2, 4}} {
				var rules []*grl.Rule
				for k, fi := range order {
					r := &grl.Rule{Name: fmt.Sprintf("e%d", k), When: grl.E(fmt.Sprintf("K.K == %d", k))}
					r.Then = append(r.Then, grl.Action{Target: grl.E("K.B").(*grl.Ref), Op: "=", RHS: forms[fi]}, grl.A("K.K = K.K + 1"))
					rules = append(rules, r)
				}
				prog := hx.NewProgram(rules, grl.Style{PrecTab: table})
				b, err := hx.Build(prog)
				if err != nil {
					continue // rejections are reported by the main pass
				}
				tr := hx.Run(b, c05World(), hx.RunOpts{MaxCycle: uint64(len(rules) + 2)})
				atomic.AddInt64(&mixN, int64(len(rules)))
				for _, cy := range tr.Cycles {
					if cy.Exec == "" || cy.ModelErr != nil || cy.ModelUnsupported {
						continue
					}
					if cy.PostChecked && !cy.PostOK {
						idx, _ := strconv.Atoi(cy.Exec[1:])
						mu.Lock()
						rep.Violation("C05:value-depends-on-sibling-parenthesised-or-negated-form", fmt.Sprintf("in a knowledge base that also holds the other parenthesised / negated forms of the same expression, `%s` does not have its own value\n%s\n  grl: %s", grl.Print(forms[order[idx]], grl.Style{PrecTab: table}), cy.PostDiff, strings.ReplaceAll(prog.Text, "\n", "\n       ")),
							map[string]interface{}{"case": fmt.Sprintf("%s#%d", id, idx), "grl": prog.Text})
						mu.Unlock()
					}
				}
			}
		})
	}
	rep.Coverage["paren_negation_mix_evaluations"] = mixN
	// ---- booleans as rule conditions (candidate flag through FetchMatchingRules) ----
	var conds []c05Expr
	for _, x := range exprs {
		if x.val.K == ref.VBool {
			conds = append(conds, x)
		}
	}
	var condN int64
	nb := (len(conds) + pack - 1) / pack
	ParallelEach(nb, func(bi int) {
		if bud.Over() {
			return
		}
		lo, hi := bi*pack, min((bi+1)*pack, len(conds))
		id := fmt.Sprintf("c05/cond/%d-%d", lo, hi)
		if rep.ReplayFilter != "" && !strings.HasPrefix(rep.ReplayFilter, id) {
			return
		}
		var rules []*grl.Rule
		for i := lo; i < hi; i++ {
			rules = append(rules, &grl.Rule{Name: fmt.Sprintf("c%d", i-lo), When: conds[i].e, Then: []grl.Action{grl.A("K.I = 1")}})
		}
		b, err := hx.Build(hx.NewProgram(rules, styles[0].st))
		if err != nil {
			return // rejections are reported by the sink pass
		}
		kb, err := b.Instance()
		if err != nil {
			mu.Lock()
			rep.Violation("C05:instance-failed", err.Error(), map[string]interface{}{"case": id})
			mu.Unlock()
			return
		}
		res := hx.Fetch(kb, c05World(), false, 0)
		got := map[string]bool{}
		for _, n := range res.Names {
			got[n] = true
		}
		atomic.AddInt64(&condN, int64(hi-lo))
		for i := lo; i < hi; i++ {
			name := fmt.Sprintf("c%d", i-lo)
			if got[name] != conds[i].val.B {
				sig := "C05:wrong-condition-value:" + conds[i].note + ":" + opsOf(conds[i].e)
				ctext := grl.Print(conds[i].e, styles[0].st)
				if reparsed := c05Reparse(ctext, engineTab); reparsed != nil && grl.Print(reparsed, grl.Style{FullParen: true}) != grl.Print(conds[i].e, grl.Style{FullParen: true}) {
					if v2, ok := c05Eval(reparsed); (ok && v2.K == ref.VBool && v2.B == got[name]) || (!ok && !got[name]) {
						sig = "C05:bitand-groups-with-additive-operators-not-as-published"
					}
				}
				mu.Lock()
				rep.Violation(sig, fmt.Sprintf("condition `%s`: candidate=%v, reference value %v", grl.Print(conds[i].e, styles[0].st), got[name], conds[i].val.B), map[string]interface{}{"case": fmt.Sprintf("%s#%d", id, i-lo)})
				mu.Unlock()
			}
		}
	})
	litN := c05Literals(rep, &mu)
	scN, scNT := c05ShortCircuit(rep, tier)
	nontrivial += scNT
	swN := c05Sweep(rep, tier)
	rep.Coverage["many_argument_sweep_evaluations"] = swN
	nfN, nfNT := c05NonFinite(rep)
	nontrivial += nfNT
	scN += nfN
	rep.Coverage["non_finite_real_comparisons"] = nfN
	rep.Coverage["short_circuit_conditions"] = scN - nfN
	rep.Coverage["programs"] = programs
	rep.Coverage["evaluations"] = printings + condN + litN + scN
	rep.Coverage["states"] = len(exprs)
	rep.Coverage["transitions"] = printings
	rep.Coverage["traces_validated_against_impl"] = programs
	rep.Coverage["distinct_nontrivial"] = nontrivial
	rep.Coverage["condition_evaluations"] = condN
	rep.Coverage["literal_spellings"] = litN
	rep.Coverage["published_table"] = fmt.Sprint(table)
	if bud.Hit() {
		rep.Exhaustive = false
		rep.Coverage["caps_hit"] = "time budget"
	}
	rep.Coverage["rule"] = fmt.Sprintf("every well-typed expression of depth <=1 over %d leaves (int/uint/float/string/bool literals and fields, fact methods incl. variadic, string/array/map built-ins, selectors) x all 15 binary operators, !atom and !(expr); every depth-2 tree of both shapes over every operator pair and every leaf triple of a %d-leaf alphabet (thorough: depth-3 chains on 5 leaves); each kept only if the reference evaluator finds it well-typed and free of division by zero / NaN / Inf; each printed minimally parenthesised ACCORDING TO THE PUBLISHED TABLE (parsed from docs/en/GRL_en.md of the working tree), fully parenthesised, doubly parenthesised with upper-case keywords, tight with mixed-case keywords, with line comments and with block comments between tokens; value observed through a typed sink field assignment (30 gated rules per knowledge base, lockstep post-state comparison) and, for booleans, as candidate flag through FetchMatchingRules; literal spellings incl. every example of docs/en/GRL_Literals_en.md; and, for boolean expressions X, knowledge bases holding X, (X), ((X)), !(X), !((X)) and !(X) || (X) together in 3 textual orders (redundant parentheses and negation must keep their own value next to each other). Short-circuit family: `L && R`, `L || R` and chains where L ranges over 26 boolean forms (literals, fields, negations, comparisons, parenthesised, method results, booleans behind a pointer and inside interface values of a map / slice) and the evaluation of R is observable (it calls a probe, or fails with an index / nil-pointer error): the probes that run, the value, and whether the expression fails at all must be those of the documented short-circuit rule. Non-finite reals: every comparison operator (plain and under !(..)) on every ordered pair of 10 operands denoting NaN, +Inf, -Inf and finite reals (fields of float64 / float32, sums and products), expected value computed by Go's own operators. states = distinct expressions, transitions = expression printings evaluated by the engine. Non-trivial: a depth>=2 expression whose minimal printing has no parentheses (the grouping is decided by precedence/associativity alone).", len(leaves), len(chainLeaves))
	rep.Assumptions = append(rep.Assumptions, "string + float / time rendering and negation of non-booleans are undocumented and not judged", "operand values are fixed (one fact state); the alphabets are chosen so that both groupings of every operator pair differ in value or typing for at least one leaf triple")
}

func isCallOnly(e grl.Expr) bool { return false }

// c05RunAlone evaluates one expression text in a knowledge base of its own and returns the sink value.
func c05RunAlone(text string, k ref.VK, st grl.Style) (string, error) {
	sink := c05Sink[k]
	lib, err := hx.BuildText(fmt.Sprintf("rule r { when K.K == 0 then %s = %s; K.K = 1; }", sink, text))
	if err != nil {
		return "", err
	}
	kb, err := lib.NewKnowledgeBaseInstance(hx.KBName, hx.KBVer)
	if err != nil {
		return "", err
	}
	w := c05World()
	tr := hx.RunOn(&hx.Program{ByName: map[string]*grl.Rule{}}, kb, w, hx.RunOpts{MaxCycle: 3, NoSnapshots: true}, nil)
	if tr.Err != nil {
		return "", tr.Err
	}
	f := w.Objs["K"]
	switch k {
	case ref.VInt:
		return ref.IntV(f.I).String(), nil
	case ref.VUint:
		return ref.Val{K: ref.VUint, U: f.U}.String(), nil
	case ref.VFloat:
		return ref.FloatV(f.F).String(), nil
	case ref.VString:
		return ref.StrV(f.S).String(), nil
	}
	return ref.BoolV(f.B).String(), nil
}

func opsOf(e grl.Expr) string {
	var ops []string
	grl.Walk(e, func(x grl.Expr) {
		switch b := x.(type) {
		case *grl.Bin:
			ops = append(ops, b.Op)
		case *grl.Not:
			ops = append(ops, "!")
		}
	})
	return strings.Join(ops, ",")
}

func sinkValue(w *ref.World, cy *hx.CycleRec, k ref.VK) string {
	f := w.Objs["K"]
	switch k {
	case ref.VInt:
		return ref.IntV(f.I).String()
	case ref.VFloat:
		return ref.FloatV(f.F).String()
	case ref.VString:
		return ref.StrV(f.S).String()
	case ref.VBool:
		return ref.BoolV(f.B).String()
	}
	return ""
}

// c05Reparse parses a flat/parenthesised expression text with another precedence table
// (classification of mismatches only).
func c05Reparse(text string, tab map[string]int) (e grl.Expr) {
	defer func() {
		if recover() != nil {
			e = nil
		}
	}()
	return grl.EWith(text, tab)
}

// ---------- literals ----------

func c05Unquote(lit string) (string, bool) {
	if len(lit) < 2 {
		return "", false
	}
	q := lit[0]
	body := lit[1 : len(lit)-1]
	var out []byte
	for len(body) > 0 {
		r, mb, rest, err := strconv.UnquoteChar(body, q)
		if err != nil {
			return "", false
		}
		body = rest
		if r < utf8.RuneSelf || !mb {
			out = append(out, byte(r))
		} else {
			out = utf8.AppendRune(out, r)
		}
	}
	return string(out), true
}

type c05Lit struct {
	text    string
	class   string
	fromDoc bool
}

func c05DocLiterals() []c05Lit {
	b, err := os.ReadFile(filepath.Join(repoRoot(), "docs", "en", "GRL_Literals_en.md"))
	if err != nil {
		return nil
	}
	var out []c05Lit
	section := ""
	inCode := false
	var code []string
	flush := func() {
		if section == "string" {
			out = append(out, c05Lit{strings.Join(code, "\n"), "doc-string", true})
		} else {
			for _, l := range code {
				l = strings.TrimSpace(l)
				if l == "" || strings.Contains(l, "(error") {
					continue
				}
				out = append(out, c05Lit{l, "doc-" + section, true})
			}
		}
		code = nil
	}
	for _, line := range strings.Split(string(b), "\n") {
		switch {
		case strings.HasPrefix(line, "```"):
			if inCode {
				flush()
			}
			inCode = !inCode
		case inCode:
			code = append(code, line)
		case strings.HasPrefix(line, "## String"):
			section = "string"
		case strings.HasPrefix(line, "### Integer"):
			section = "int"
		case strings.HasPrefix(line, "### Real"):
			section = "float"
		case strings.HasPrefix(line, "## Boolean"):
			section = "bool"
		}
	}
	return out
}

func c05Literals(rep *ev.Reporter, mu *sync.Mutex) int64 {
	lits := []c05Lit{
		{"0", "dec", false}, {"9223372036854775807", "dec", false}, {"-9223372036854775808", "dec", false}, {"-0", "dec", false},
		{"00", "oct", false}, {"0777", "oct", false}, {"-0777", "oct", false},
		{"0x0", "hex", false}, {"0XfF", "hex", false}, {"0x7fffffffffffffff", "hex", false}, {"-0x8000000000000000", "hex", false},
		{"1.0", "float", false}, {"0.0", "float", false}, {"-0.5", "float", false}, {"1e3", "float", false}, {"1E-3", "float", false}, {"12.5e+2", "float", false}, {".5", "float", false}, {".5e1", "float", false},
		{"1.7976931348623157e308", "float", false}, {"5e-324", "float", false}, {"0.0000001", "float", false}, {"0.0000002", "float", false}, {"123456789.123456789", "float", false},
		{"0x1p4", "hexfloat", false}, {"0x1.8p1", "hexfloat", false}, {"0X.8P-1", "hexfloat", false}, {"-0x1p-2", "hexfloat", false},
		{`"plain"`, "dq", false}, {`'plain'`, "sq", false}, {`""`, "dq", false}, {`''`, "sq", false}, {`"a\"b"`, "dq-esc", false}, {`'a\'b'`, "sq-esc", false}, {`"a'b"`, "dq", false}, {`'a"b'`, "sq", false},
		{`"tab\there"`, "dq-esc", false}, {`"nl\nhere"`, "dq-esc", false}, {`"back\\slash"`, "dq-esc", false}, {`"hex\x41"`, "dq-esc", false}, {`"oct\101"`, "dq-esc", false}, {`"ué"`, "dq-esc", false}, {`"U\U0001F600"`, "dq-esc", false},
		{`"é漢字😀"`, "dq-unicode", false}, {`'\a\b\f\r\v'`, "sq-esc", false}, {`"// not a comment"`, "dq", false}, {`"/* nor this */"`, "dq", false}, {`"x;}then{"`, "dq", false},
		{"true", "bool", false}, {"FALSE", "bool", false}, {"tRuE", "bool", false},
	}
	// every single-byte escape in hex and octal notation, both quote styles, alone and between letters
	for b := 0; b < 256; b++ {
		lits = append(lits,
			c05Lit{fmt.Sprintf(`"\x%02x"`, b), "dq-esc-byte", false}, c05Lit{fmt.Sprintf(`'\%03o'`, b), "sq-esc-byte", false},
			c05Lit{fmt.Sprintf(`'a\x%02Xb'`, b), "sq-esc-byte", false}, c05Lit{fmt.Sprintf(`"a\%03ob"`, b), "dq-esc-byte", false})
	}
	for _, u := range []string{`\u0041`, `\u00e9`, `\u6f22`, `\U0001F600`, `\u0000`, `\uFFFD`, `\u007f`, `\u0080`} {
		lits = append(lits, c05Lit{`"` + u + `"`, "dq-esc-unicode", false}, c05Lit{`'x` + u + `y'`, "sq-esc-unicode", false})
	}
	// raw control characters inside the quotes (a multi-line literal of a CRLF file, a raw tab): the text between the
	// quotes is the value, byte for byte
	for _, raw := range []string{"a\rb", "a\r\nb", "a\nb", "a\tb", "\r", "x\r\n\r\ny", "a\fb", "a\u00a0b"} {
		lits = append(lits, c05Lit{`"` + raw + `"`, "dq-raw-control", false}, c05Lit{`'` + raw + `'`, "sq-raw-control", false})
	}
	lits = append(lits, c05DocLiterals()...)
	var n int64
	for i, l := range lits {
		id := fmt.Sprintf("c05/lit/%d", i)
		if rep.ReplayFilter != "" && rep.ReplayFilter != id {
			continue
		}
		// expected Go value
		var sink, want string
		t := l.text
		if iv, err := strconv.ParseInt(t, 0, 64); err == nil && !strings.ContainsAny(t, "_") {
			sink, want = "K.I", ref.IntV(iv).String()
		} else if fv, err := strconv.ParseFloat(t, 64); err == nil && !strings.ContainsAny(strings.ToLower(t), "in") {
			sink, want = "K.F", ref.FloatV(fv).String()
		} else if t[0] == '"' || t[0] == '\'' {
			s, ok := c05Unquote(t)
			if !ok {
				continue
			}
			sink, want = "K.S", ref.StrV(s).String()
		} else if strings.EqualFold(t, "true") || strings.EqualFold(t, "false") {
			sink, want = "K.B", ref.BoolV(strings.EqualFold(t, "true")).String()
		} else {
			continue // not a single literal in Go terms (e.g. 0x15e-2 is a subtraction)
		}
		n++
		text := fmt.Sprintf("rule r { when K.K == 0 then %s = %s; K.K = 1; }", sink, t)
		lib, err := hx.BuildText(text)
		sigBase := fmt.Sprintf("C05:literal:%s:%q", l.class, t)
		if strings.Contains(l.class, "-esc-byte") {
			sigBase = "C05:literal:" + l.class // 1024 members of one family: one signature
		}
		if err != nil {
			mu.Lock()
			rep.Violation("C05:literal-rejected:"+fmt.Sprintf("%q", t), fmt.Sprintf("literal %s (%s, documented=%v) is rejected by the builder: %v", t, l.class, l.fromDoc, firstLineOf(err.Error())), map[string]interface{}{"case": id, "grl": text})
			mu.Unlock()
			continue
		}
		kb, err := lib.NewKnowledgeBaseInstance(hx.KBName, hx.KBVer)
		if err != nil {
			mu.Lock()
			rep.Violation(sigBase+":instance-failed", err.Error(), map[string]interface{}{"case": id, "grl": text})
			mu.Unlock()
			continue
		}
		w := ref.NewWorld()
		k := facts.New()
		// poison the sinks so that a zero literal is observable
		k.I, k.F, k.S, k.B = 77, 77.5, "poison", strings.EqualFold(t, "false")
		w.Objs["K"] = k
		tr := hx.RunOn(&hx.Program{ByName: map[string]*grl.Rule{}}, kb, w, hx.RunOpts{MaxCycle: 3, NoSnapshots: true}, nil)
		var got string
		switch sink {
		case "K.I":
			got = ref.IntV(k.I).String()
		case "K.F":
			got = ref.FloatV(k.F).String()
		case "K.S":
			got = ref.StrV(k.S).String()
		default:
			got = ref.BoolV(k.B).String()
		}
		if tr.Err != nil || got != want {
			mu.Lock()
			rep.Violation(sigBase+":wrong-value", fmt.Sprintf("literal %s: Go value %s, engine stored %s (err %v)", t, want, got, tr.Err), map[string]interface{}{"case": id, "grl": text})
			mu.Unlock()
		}
	}
	return n
}

func firstLineOf(s string) string {
	if i := strings.IndexByte(s, '\n'); i >= 0 {
		return s[:i]
	}
	return s
}
