package checks

import (
	"bufio"
	"context"
	"encoding/json"
	"fmt"
	"os"
	"os/exec"
	"reflect"
	"runtime"
	"strconv"
	"strings"
	"sync"
	"time"
	"unsafe"

	"github.com/hyperjumptech/grule-rule-engine/ast"
	"github.com/hyperjumptech/grule-rule-engine/builder"
	"github.com/hyperjumptech/grule-rule-engine/engine"
	"github.com/hyperjumptech/grule-rule-engine/pkg"

	"verif/internal/ev"
	"verif/internal/facts"
	"verif/internal/grl"
	"verif/internal/hx"
	"verif/internal/ref"
	"verif/internal/sched"
)

// ---------- pointer graph ----------

var c09SkipTypes = map[string]bool{"reflect.Value": true, "sync.Mutex": true}

// c09Reach collects the addresses of every struct (through pointers), map and slice backing array
// reachable from root through exported AND unexported fields. Fact-side values (reflect.Value,
// ValueNode, DataContext) and immutable payloads (strings) are not followed.
func c09Reach(root reflect.Value) map[uintptr]string {
	out := map[uintptr]string{}
	var walk func(v reflect.Value, path string)
	walk = func(v reflect.Value, path string) {
		if !v.IsValid() {
			return
		}
		if c09SkipTypes[v.Type().String()] {
			return
		}
		switch v.Kind() {
		case reflect.Ptr:
			if v.IsNil() {
				return
			}
			if v.Elem().Kind() == reflect.Struct {
				p := v.Pointer()
				if _, ok := out[p]; ok {
					return
				}
				out[p] = path + ":" + v.Elem().Type().Name()
			}
			walk(v.Elem(), path)
		case reflect.Interface:
			if v.IsNil() {
				return
			}
			tn := v.Type().String()
			if strings.Contains(tn, "ValueNode") || strings.Contains(tn, "IDataContext") {
				return
			}
			walk(v.Elem(), path)
		case reflect.Struct:
			t := v.Type()
			for i := 0; i < t.NumField(); i++ {
				f := v.Field(i)
				if !f.CanInterface() && f.CanAddr() {
					f = reflect.NewAt(f.Type(), unsafe.Pointer(f.UnsafeAddr())).Elem()
				}
				walk(f, path+"."+t.Field(i).Name)
			}
		case reflect.Slice:
			if v.Len() > 0 {
				out[v.Pointer()] = path + ":slice"
			}
			for i := 0; i < v.Len(); i++ {
				walk(v.Index(i), path+"[]")
			}
		case reflect.Map:
			if v.IsNil() {
				return
			}
			out[v.Pointer()] = path + ":map"
			iter := v.MapRange()
			for iter.Next() {
				walk(iter.Key(), path+"{key}")
				walk(iter.Value(), path+"{}")
			}
		}
	}
	walk(root, "kb")
	return out
}

func c09Shared(a, b map[uintptr]string) []string {
	var s []string
	for p, where := range a {
		if w2, ok := b[p]; ok {
			s = append(s, where+" == "+w2)
		}
	}
	return s
}

// ---------- scenarios for the scheduler ----------

const c09Lib1 = `rule r1 { when F.I < 2 && F.Heavy(F.I) >= 1 then F.I = F.I + 1; F.S = F.S + F.K; }`
const c09Lib2 = c09Lib1 + "\n" + `rule r2 salience 5 { when F.K == 1 && F.I2 == 0 then F.I2 = 1; Retract("r1"); }`

type c09Obs struct {
	Events  []string
	Err     string
	Final   string
	InstErr string
}

type c09Listener struct {
	obs *c09Obs
	y   func(string)
}

func (l *c09Listener) BeginCycle(ctx context.Context, c uint64) {
	l.obs.Events = append(l.obs.Events, fmt.Sprintf("B%d", c))
	l.y("listener.BeginCycle")
}
func (l *c09Listener) EvaluateRuleEntry(ctx context.Context, c uint64, e *ast.RuleEntry, cand bool) {
	l.obs.Events = append(l.obs.Events, fmt.Sprintf("V%d:%s:%v", c, e.RuleName, cand))
	l.y("listener.EvaluateRuleEntry")
}
func (l *c09Listener) ExecuteRuleEntry(ctx context.Context, c uint64, e *ast.RuleEntry) {
	l.obs.Events = append(l.obs.Events, fmt.Sprintf("X%d:%s", c, e.RuleName))
	l.y("listener.ExecuteRuleEntry")
}

// c09Body: [NewKnowledgeBaseInstance; Execute(own facts)] of thread tid.
// se != nil: the threads share ONE *GruleEngine value (the engine type documents no per-run state; its
// configuration is read-only during a run), each run carrying its own listener through the context.
func c09Body(lib *ast.KnowledgeLibrary, tid int, obs *c09Obs, yield func(string), se *hx.SharedEngine) {
	defer func() {
		if r := recover(); r != nil {
			obs.Err = fmt.Sprintf("PANIC %v", r)
		}
	}()
	kb, err := lib.NewKnowledgeBaseInstance(hx.KBName, hx.KBVer)
	if err != nil {
		obs.InstErr = err.Error()
		return
	}
	f := facts.New()
	f.K = int64(tid)
	f.I = int64(tid % 2)
	dc := ast.NewDataContext()
	dc.Add("F", f)
	if se != nil {
		ctx, leave := se.Enter(context.Background(), &c09Listener{obs: obs, y: yield})
		err = se.Eng.ExecuteWithContext(ctx, dc, kb)
		leave()
	} else {
		eng := &engine.GruleEngine{MaxCycle: 6, Listeners: []engine.GruleEngineListener{&c09Listener{obs: obs, y: yield}}}
		err = eng.Execute(dc, kb)
	}
	if err != nil {
		obs.Err = firstLineOf(err.Error())
	}
	obs.Final = fmt.Sprintf("I=%d I2=%d S=%q heavy=%d", f.I, f.I2, f.S, f.H().HeavyCalls)
}

func (o c09Obs) String() string {
	return fmt.Sprintf("%s | err=%s insterr=%s | %s", hx.Evs(o.Events), o.Err, o.InstErr, o.Final)
}

var c09Coarse = map[string]bool{"ast.KnowledgeBase.Clone": true, "ast.WorkingMemory.Clone": true, "ast.RuleEntry.Clone": true, "ast.RuleEntry.Evaluate": true, "ast.RuleEntry.Execute": true,
	"listener.BeginCycle": true, "listener.EvaluateRuleEntry": true, "listener.ExecuteRuleEntry": true, "ast.WorkingMemory.ResetAll": true, "ast.KnowledgeBase.Reset": true, "ast.KnowledgeBase.RetractRule": true, "ast.Expression.Clone": true}

type c09WorkerOut struct {
	Executions int      `json:"executions"`
	MaxPoints  int      `json:"max_points"`
	Outcomes   int      `json:"outcomes"`
	Truncated  bool     `json:"truncated"`
	Violations []string `json:"violations"`
	Schedules  [][]int  `json:"schedules"`
	Nondet     int      `json:"nondeterminism"`
}

// C09Worker explores one shard: args = scenario threads bound shard nshards coarse maxexec
func C09Worker(args []string) {
	if len(args) < 7 {
		fmt.Println(`{"violations":["bad worker arguments"]}`)
		return
	}
	libText := c09Lib1
	if strings.HasPrefix(args[0], "lib2") {
		libText = c09Lib2
	}
	fresh := strings.HasSuffix(args[0], "-fresh") // every execution starts from a library nobody has used yet
	nthreads, _ := strconv.Atoi(args[1])
	bound, _ := strconv.Atoi(args[2])
	shard, _ := strconv.Atoi(args[3])
	nshards, _ := strconv.Atoi(args[4])
	coarse := args[5] == "coarse"
	maxExec, _ := strconv.Atoi(args[6])
	lib, err := hx.BuildText(libText)
	out := c09WorkerOut{}
	if err != nil {
		out.Violations = append(out.Violations, "harness: build failed: "+err.Error())
		b, _ := json.Marshal(out)
		fmt.Println(string(b))
		return
	}
	// sequential reference
	want := make([]string, nthreads)
	for t := 0; t < nthreads; t++ {
		var o c09Obs
		c09Body(lib, t, &o, func(string) {}, nil)
		want[t] = o.String()
	}
	var cur *sched.Run
	hx.SetPointFn(func(label string) {
		if cur != nil && (!coarse || c09Coarse[label]) {
			cur.Yield(label)
		}
	})
	defer hx.SetPointFn(nil)
	var obs []c09Obs
	mkBodies := func() []func(r *sched.Run) {
		obs = make([]c09Obs, nthreads)
		lib := lib
		if fresh {
			if l2, err := hx.BuildText(libText); err == nil {
				lib = l2
			}
		}
		se := hx.NewSharedEngine(6, false) // one engine value for all threads of this execution
		bodies := make([]func(r *sched.Run), nthreads)
		for t := 0; t < nthreads; t++ {
			t := t
			bodies[t] = func(r *sched.Run) {
				cur = r
				c09Body(lib, t, &obs[t], func(l string) {
					if !coarse || c09Coarse[l] {
						r.Yield(l)
					}
				}, se)
			}
		}
		return bodies
	}
	outcomes := map[string]bool{}
	st := &sched.Stats{}
	// determinism self-check: the default schedule twice, identical labels
	r1 := sched.Execute(nil, mkBodies())
	l1 := labelsOf(r1)
	r2 := sched.Execute(nil, mkBodies())
	if l1 != labelsOf(r2) {
		out.Nondet++
		out.Violations = append(out.Violations, "harness_nondeterminism: the default schedule produced different yield-point sequences on replay")
	}
	sched.Explore(mkBodies, bound, shard, nshards, maxExec, st, func(r *sched.Run) bool {
		if r.Failure != "" {
			out.Nondet++
			out.Violations = append(out.Violations, "harness_nondeterminism: "+r.Failure)
			return len(out.Violations) < 5
		}
		key := ""
		for t := 0; t < nthreads; t++ {
			got := obs[t].String()
			key += got + "\n"
			if got != want[t] {
				if len(out.Violations) < 5 {
					out.Violations = append(out.Violations, fmt.Sprintf("thread %d observed\n   %s\n  sequentially it observes\n   %s", t, got, want[t]))
					out.Schedules = append(out.Schedules, r.Choices())
				}
			}
		}
		outcomes[key] = true
		return len(out.Violations) < 5
	})
	out.Executions = st.Executions
	out.MaxPoints = st.MaxPoints
	out.Truncated = st.Truncated
	out.Outcomes = len(outcomes)
	b, _ := json.Marshal(out)
	fmt.Println(string(b))
}

func labelsOf(r *sched.Run) string {
	var b strings.Builder
	for _, p := range r.Points {
		b.WriteString(p.Label)
		b.WriteString(fmt.Sprint(p.Enabled))
		b.WriteString(";")
	}
	return b.String()
}

// C09Race runs the same thread bodies free (real goroutines); built with -race by the wrapper.
func C09Race(args []string) {
	lib, err := hx.BuildText(c09Lib2)
	if err != nil {
		fmt.Println("build failed:", err)
		os.Exit(3)
	}
	iters := 200
	if len(args) > 0 {
		iters, _ = strconv.Atoi(args[0])
	}
	bad := 0
	for _, procs := range []int{1, 2, 4, 16} {
		runtime.GOMAXPROCS(procs)
		for it := 0; it < iters; it++ {
			n := 4
			obs := make([]c09Obs, n)
			var wg sync.WaitGroup
			var se *hx.SharedEngine
			if it%2 == 1 {
				se = hx.NewSharedEngine(6, false) // odd iterations: the goroutines share one engine value
			}
			if it%4 < 2 {
				// a FRESH library: the goroutines are the first users of everything the library builds lazily
				if l2, err := hx.BuildText(c09Lib2); err == nil {
					lib = l2
				}
			}
			for t := 0; t < n; t++ {
				wg.Add(1)
				go func(t int) {
					defer wg.Done()
					c09Body(lib, t, &obs[t], func(string) {}, se)
				}(t)
			}
			wg.Wait()
			for t := 0; t < n; t++ {
				var o c09Obs
				c09Body(lib, t, &o, func(string) {}, nil)
				if o.String() != obs[t].String() {
					bad++
					if bad < 4 {
						fmt.Printf("MISMATCH procs=%d thread %d: %s vs sequential %s\n", procs, t, obs[t].String(), o.String())
					}
				}
			}
		}
	}
	// the built-in surface (string / slice / map methods, built-in functions, JSON facts, time values)
	sink, err := hx.BuildText(c09Sink)
	if err != nil {
		fmt.Println("build of the built-in surface library failed:", err)
		os.Exit(3)
	}
	if ref0 := c09SinkBody(sink, 0, 0); !strings.HasPrefix(ref0, "fired=7 err=\"\"") {
		fmt.Println("VACUOUS built-in surface library: not all 7 rules fire sequentially:", ref0)
		os.Exit(5)
	}
	for _, procs := range []int{2, 16} {
		runtime.GOMAXPROCS(procs)
		for it := 0; it < iters; it++ {
			n := 4
			got := make([]string, n)
			var wg sync.WaitGroup
			for t := 0; t < n; t++ {
				wg.Add(1)
				go func(t int) {
					defer wg.Done()
					got[t] = c09SinkBody(sink, t, it*10+procs)
				}(t)
			}
			wg.Wait()
			for t := 0; t < n; t++ {
				if want := c09SinkBody(sink, t, it*10+procs); want != got[t] {
					bad++
					if bad < 4 {
						fmt.Printf("MISMATCH (built-in surface) procs=%d thread %d: %s vs sequential %s\n", procs, t, got[t], want)
					}
				}
			}
		}
	}
	fmt.Printf("race-pass iterations=%d (+%d on the built-in surface library) mismatches=%d\n", iters*4, iters*2, bad)
	if bad > 0 {
		os.Exit(4)
	}
}

type c09CorpusLine struct {
	Kind                 string                 `json:"kind"` // violation | sample | counts
	Sig                  string                 `json:"sig,omitempty"`
	What                 string                 `json:"what,omitempty"`
	ID                   string                 `json:"id,omitempty"`
	Data                 map[string]interface{} `json:"data,omitempty"`
	Progs, Graphs, Behav int64
}

// C09Corpus is the child process for obligations (1) and (2): it creates and runs instances from
// many goroutines, so a fatal runtime error (concurrent map access) kills only this child.
func C09Corpus(args []string) {
	tier := "quick"
	if len(args) > 0 {
		tier = args[0]
	}
	filter := ""
	if len(args) > 1 {
		filter = args[1]
	}
	var omu sync.Mutex
	emit := func(l c09CorpusLine) {
		b, _ := json.Marshal(l)
		omu.Lock()
		fmt.Println(string(b))
		omu.Unlock()
	}
	report := func(sig, what, id string) { emit(c09CorpusLine{Kind: "violation", Sig: sig, What: what, ID: id}) }
	bud := NewBudget(150 * time.Second)
	if tier == "thorough" {
		bud = NewBudget(8 * time.Minute)
	}
	rep := &c09FakeRep{filter: filter, sample: func(m map[string]interface{}) { emit(c09CorpusLine{Kind: "sample", Data: m}) }}
	var mu sync.Mutex
	// ---- (1) faithful copy + (2) isolation on a corpus of programs ----
	var progs []*hx.Program
	n := 0
	general2(tier, 6, func(c Case) {
		n++
		step := 7
		if tier == "thorough" {
			step = 3
		}
		if n%step == 0 || strings.Contains(c.ID, "/12.12/") {
			progs = append(progs, hx.NewProgram(c.Rules, grl.Style{}))
		}
	})
	depMatrix(3, 4, func(c Case) {
		n++
		if n%11 == 0 && !strings.Contains(c.ID, "json") && !strings.Contains(c.ID, "toplevel") {
			progs = append(progs, hx.NewProgram(c.Rules, grl.Style{}))
		}
	})
	// rule names that differ only in letter case are different names
	progs = append(progs, hx.NewProgram([]*grl.Rule{
		grl.R("Ab", nil, "F.I < 1", "F.I = F.I + 1", `Retract("Ab")`),
		grl.R("aB", nil, "F.I2 < 1", "F.I2 = F.I2 + 1", `Retract("aB")`),
		grl.R("AB", grl.Sal(1), "F.K < 1", "F.K = F.K + 1", `Retract("AB")`)}, grl.Style{}))
	var nProgs, nGraphs, nBehav int64
	ParallelEach(len(progs), func(pi int) {
		p := progs[pi]
		id := fmt.Sprintf("c09/prog/%d", pi)
		if rep.filter != "" && rep.filter != id {
			return
		}
		if bud.Over() {
			return
		}
		if !hx.OrderLive() {
			// without order control two runs of one program may break salience ties differently
			sals := map[int64]bool{}
			for _, r := range p.Rules {
				if sals[salOf(r)] {
					return
				}
				sals[salOf(r)] = true
			}
		}
		b, err := hx.Build(p)
		if err != nil {
			report("harness:build-failed:"+id, err.Error(), id)
			return
		}
		mu.Lock()
		nProgs++
		mu.Unlock()
		// whatever order the blueprint's rule map is visited in (Clone, GetSnapshot), an instance comes out
		for ord := 0; ord < b.CloneOrders(); ord++ {
			if _, err := b.InstanceOrd(ord); err != nil {
				report("C09:instance-creation-fails:for-some-visiting-order-of-the-rule-map", fmt.Sprintf("order %d of %d: %v\n  grl: %s", ord, b.CloneOrders(), err, p.Text), id)
				break
			}
		}
		blueprint := b.Lib.GetKnowledgeBase(hx.KBName, hx.KBVer)
		bpKey0 := hx.MemoDump(blueprint)
		insts := make([]*ast.KnowledgeBase, 3)
		for i := range insts {
			k, err := b.Instance()
			if err != nil {
				report("C09:instance-creation-fails", fmt.Sprintf("%v\n  grl: %s", err, p.Text), id)
				return
			}
			insts[i] = k
		}
		mkWorld := gen2World(0)
		if strings.Contains(p.Text, "G.") {
			mkWorld = func() *ref.World {
				w := depBaseWorld()
				w.Objs["F"].I = 4
				w.Objs["F"].P = &facts.Sub{V: 4, Q: &facts.Sub{V: 7}}
				w.Objs["F"].Arr = []int64{4, 1, 2}
				w.Objs["F"].M = map[string]int64{"a": 4}
				w.Objs["F"].KS = "a"
				w.Objs["F"].MP = map[string]*facts.Sub{"a": {V: 4}}
				w.Objs["F"].PArr = []*facts.Sub{{V: 4}, {V: 1}}
				return w
			}
		}
		// faithful: instance trace == blueprint executed directly (on a second library so that the
		// blueprint under test stays untouched)
		b2, _ := hx.Build(p)
		bpTrace := hx.RunOn(p, b2.Lib.GetKnowledgeBase(hx.KBName, hx.KBVer), mkWorld(), hx.RunOpts{MaxCycle: 6, NoSnapshots: true}, nil)
		trA := hx.RunOn(p, insts[0], mkWorld(), hx.RunOpts{MaxCycle: 6, NoSnapshots: true}, nil)
		if hx.Evs(trA.Events) != hx.Evs(bpTrace.Events) || trA.FinalDump != bpTrace.FinalDump {
			report("C09:instance-behaves-differently-from-blueprint", fmt.Sprintf("instance: %v\nblueprint: %v\n  grl: %s", trA.Events, bpTrace.Events, p.Text), id)
		}
		// pointer graphs after A has executed (memo values, flags set)
		graphs := []map[uintptr]string{c09Reach(reflect.ValueOf(blueprint))}
		for _, k := range insts {
			graphs = append(graphs, c09Reach(reflect.ValueOf(k)))
		}
		names := []string{"blueprint", "instance A", "instance B", "instance C"}
		for i := 0; i < len(graphs); i++ {
			for j := i + 1; j < len(graphs); j++ {
				mu.Lock()
				nGraphs++
				mu.Unlock()
				if sh := c09Shared(graphs[i], graphs[j]); len(sh) > 0 {
					first := sh[0]
					report("C09:shared-mutable-state:"+c09PathClass(first), fmt.Sprintf("%s and %s share %d mutable objects, e.g. %s\n  grl: %s", names[i], names[j], len(sh), first, p.Text), id)
				}
			}
		}
		// behavioural isolation: after executing / retracting / removing in A, blueprint and B keep their state
		keyB0 := hx.MemoDump(insts[1])
		for _, r := range p.Rules {
			insts[0].RetractRule(r.Name)
		}
		insts[0].RemoveRuleEntry(p.Rules[0].Name)
		mu.Lock()
		nBehav++
		mu.Unlock()
		if hx.MemoDump(blueprint) != bpKey0 {
			report("C09:operation-on-instance-changes-blueprint", "state key of the blueprint changed after execute/retract/remove on an instance\n  grl: "+p.Text, id)
		}
		if hx.MemoDump(insts[1]) != keyB0 {
			report("C09:operation-on-instance-changes-other-instance", "state key of instance B changed after execute/retract/remove on instance A\n  grl: "+p.Text, id)
		}
		trB := hx.RunOn(p, insts[1], mkWorld(), hx.RunOpts{MaxCycle: 6, NoSnapshots: true}, nil)
		if hx.Evs(trB.Events) != hx.Evs(bpTrace.Events) {
			report("C09:operation-on-instance-changes-other-instance", fmt.Sprintf("instance B after operations on A: %v, expected %v\n  grl: %s", trB.Events, bpTrace.Events, p.Text), id)
		}
		// one data context serves instance A, then instance B (the caller puts the initial values back into the same
		// fact objects): B behaves like the blueprint - nothing of A (its working memory, its built-in function
		// holder) is reachable from B through the data context. Programs announcing changes with Forget / Changed.
		if strings.Contains(p.Text, "Forget(") || strings.Contains(p.Text, "Changed(") {
			w0 := mkWorld()
			if len(w0.Vars) == 0 && len(w0.JSON) == 0 {
				if dc, err := hx.NewDataContext(w0); err == nil {
					ia, errA := b.Instance()
					ib, errB := b.Instance()
					if errA == nil && errB == nil {
						first := hx.RunOn(p, ia, w0, hx.RunOpts{MaxCycle: 6, NoSnapshots: true, DataCtx: dc}, nil)
						if !first.Completed && first.Panic == nil {
							init := mkWorld()
							for name, f := range w0.Objs {
								if g, ok := init.Objs[name]; ok {
									*f = *g
								}
							}
							second := hx.RunOn(p, ib, w0, hx.RunOpts{MaxCycle: 6, NoSnapshots: true, DataCtx: dc}, nil)
							mu.Lock()
							nBehav++
							mu.Unlock()
							if hx.Evs(second.Events) != hx.Evs(bpTrace.Events) {
								report("C09:instance-reaches-another-instance-through-a-shared-data-context", fmt.Sprintf("instance B executed with the data context that served instance A before (initial values put back): %v\n  the blueprint: %v\n  grl: %s", second.Events, bpTrace.Events, p.Text), id)
							}
						}
					}
				}
			}
		}
		// the blueprint carries run-time state at the moment an instance is taken: it was executed directly and every
		// rule is retracted on it. An instance is a copy of the RULES: it behaves like the fresh blueprint did.
		if lb, err := hx.Build(p); err == nil {
			bp := lb.Lib.GetKnowledgeBase(hx.KBName, hx.KBVer)
			hx.RunOn(p, bp, mkWorld(), hx.RunOpts{MaxCycle: 6, NoSnapshots: true}, nil)
			for _, r := range p.Rules {
				bp.RetractRule(r.Name)
			}
			mu.Lock()
			nBehav++
			mu.Unlock()
			if inst, err := lb.Instance(); err != nil {
				report("C09:instance-of-a-used-blueprint-fails", err.Error()+"\n  grl: "+p.Text, id)
			} else if tr := hx.RunOn(p, inst, mkWorld(), hx.RunOpts{MaxCycle: 6, NoSnapshots: true}, nil); hx.Evs(tr.Events) != hx.Evs(bpTrace.Events) {
				report("C09:instance-inherits-run-time-state-of-the-blueprint", fmt.Sprintf("an instance taken from a blueprint that had been executed and whose rules are retracted: %v, the fresh blueprint: %v\n  grl: %s", tr.Events, bpTrace.Events, p.Text), id)
			}
		}
		// the library evolves BETWEEN instantiations (instances were created above): a rule is removed from the
		// library, later another one is built into it; every later NewKnowledgeBaseInstance succeeds and the
		// instance behaves like the same rules built fresh; an instance obtained earlier is unaffected
		extra := grl.R("zz_extra", grl.Sal(-1000), "F.U8 == 0", "F.U8 = 1")
		rest := append([]*grl.Rule{}, p.Rules[1:]...)
		for step, rules := range [][]*grl.Rule{rest, append(append([]*grl.Rule{}, rest...), extra)} {
			what := "after a library-level RemoveRuleEntry that followed earlier instantiations"
			if step == 0 {
				b.Lib.RemoveRuleEntry(p.Rules[0].Name, hx.KBName, hx.KBVer)
			} else {
				what = "after a further rule was built into the library that had been instantiated before"
				if err := builder.NewRuleBuilder(b.Lib).BuildRuleFromResource(hx.KBName, hx.KBVer, pkg.NewBytesResource([]byte(grl.PrintRules([]*grl.Rule{extra}, grl.Style{})))); err != nil {
					report("C09:build-into-instantiated-library-fails", err.Error()+"\n  grl: "+p.Text, id)
					break
				}
			}
			wantEvents := "B1 ret:nil"
			rp := hx.NewProgram(rules, grl.Style{})
			if len(rules) > 0 {
				rb, err := hx.Build(rp)
				if err != nil {
					break
				}
				wantEvents = hx.Evs(hx.RunOn(rp, rb.Lib.GetKnowledgeBase(hx.KBName, hx.KBVer), mkWorld(), hx.RunOpts{MaxCycle: 6, NoSnapshots: true}, nil).Events)
			}
			k, err := b.Instance()
			if err != nil {
				report("C09:instance-creation-fails:library-changed-between-instantiations", fmt.Sprintf("%v (%s)\n  grl: %s", err, what, p.Text), id)
				break
			}
			if got := hx.Evs(hx.RunOn(rp, k, mkWorld(), hx.RunOpts{MaxCycle: 6, NoSnapshots: true}, nil).Events); got != wantEvents {
				report("C09:instance-behaves-differently-from-blueprint:library-changed-between-instantiations", fmt.Sprintf("instance created %s: %s\n  the same rules built fresh: %s\n  grl: %s", what, got, wantEvents, p.Text), id)
			}
			mu.Lock()
			nBehav++
			mu.Unlock()
		}
		if got := hx.Evs(hx.RunOn(p, insts[2], mkWorld(), hx.RunOpts{MaxCycle: 6, NoSnapshots: true}, nil).Events); got != hx.Evs(bpTrace.Events) {
			report("C09:library-change-affects-existing-instance", fmt.Sprintf("instance C (created before the library changed): %s, expected %v\n  grl: %s", got, bpTrace.Events, p.Text), id)
		}
		if pi%60 == 0 {
			rep.sample(map[string]interface{}{"case": id, "grl": p.Text, "graph_sizes": []int{len(graphs[0]), len(graphs[1])}})
		}
	})

	emit(c09CorpusLine{Kind: "counts", Progs: nProgs, Graphs: nGraphs, Behav: nBehav})
}

type c09FakeRep struct {
	filter string
	sample func(map[string]interface{})
}

// ---------- the check ----------

func C09(rep *ev.Reporter, tier string) {
	bud := NewBudget(150 * time.Second)
	if tier == "thorough" {
		bud = NewBudget(12 * time.Minute)
	}
	var mu sync.Mutex
	report := func(sig, what, id string) {
		mu.Lock()
		rep.Violation(sig, what, map[string]interface{}{"case": id})
		mu.Unlock()
	}
	// ---- (1) faithful copy + (2) isolation on a corpus of programs: in a child process ----
	var nProgs, nGraphs, nBehav int64
	selfExe, _ := os.Executable()
	if rep.ReplayFilter == "" || strings.HasPrefix(rep.ReplayFilter, "c09/prog/") {
		cmd := exec.Command(selfExe, "C09-corpus", "x", tier, rep.ReplayFilter)
		var stderr strings.Builder
		cmd.Stderr = &stderr
		op, err := cmd.Output()
		scn := bufio.NewScanner(strings.NewReader(string(op)))
		scn.Buffer(make([]byte, 1<<20), 1<<26)
		for scn.Scan() {
			var l c09CorpusLine
			if json.Unmarshal([]byte(scn.Text()), &l) != nil {
				continue
			}
			switch l.Kind {
			case "violation":
				report(l.Sig, l.What, l.ID)
			case "sample":
				rep.Sample(l.Data)
			case "counts":
				nProgs, nGraphs, nBehav = l.Progs, l.Graphs, l.Behav
			}
		}
		if err != nil {
			fatal := ""
			for _, ln := range strings.Split(stderr.String(), "\n") {
				if strings.HasPrefix(ln, "fatal error") || strings.HasPrefix(ln, "panic:") {
					fatal = ln
					break
				}
			}
			report("C09:runtime-abort-under-concurrent-instance-use:"+strings.ReplaceAll(strings.TrimPrefix(fatal, "fatal error: "), " ", "-"), fmt.Sprintf("creating and executing instances of independent libraries from several goroutines aborted the process: %v %s\n%s", err, fatal, trunc(stderr.String(), 1200)), "c09/prog/abort")
		}
	}
	// ---- (3) schedules: worker processes, GOMAXPROCS=1 each ----
	type scen struct {
		name           string
		lib            string
		threads, bound int
		coarse         string
		maxExec        int
	}
	scens := []scen{{"2 threads, 1-rule library, every yield point, <=2 preemptions", "lib1", 2, 2, "fine", 0},
		{"2 threads, 2-rule library (second rule retracts the first), coarse yield points, <=3 preemptions", "lib2", 2, 3, "coarse", 0},
		{"2 threads, 2-rule library, every yield point, <=2 preemptions", "lib2", 2, 2, "fine", 0},
		{"2 threads on a library nobody has used yet (fresh per execution), 2-rule library, coarse yield points, <=2 preemptions", "lib2-fresh", 2, 2, "coarse", 0}}
	if tier == "thorough" {
		scens = append(scens,
			scen{"3 threads, 1-rule library, every yield point, <=2 preemptions", "lib1", 3, 2, "fine", 0},
			scen{"3 threads, 2-rule library, coarse yield points, <=2 preemptions", "lib2", 3, 2, "coarse", 0},
			scen{"2 threads, 2-rule library, coarse yield points, <=4 preemptions", "lib2", 2, 4, "coarse", 0},
			scen{"3 threads, 2-rule library, coarse yield points, <=3 preemptions", "lib2", 3, 3, "coarse", 0},
			scen{"3 threads, 2-rule library, every yield point, <=2 preemptions", "lib2", 3, 2, "fine", 0})
	}
	self := selfExe
	totalExec, totalOutcomes := 0, 0
	var scenSummaries []map[string]interface{}
	if rep.ReplayFilter == "" || strings.HasPrefix(rep.ReplayFilter, "c09/sched/") {
		for si, sc := range scens {
			nsh := runtime.NumCPU()
			outs := make([]c09WorkerOut, nsh)
			var wg sync.WaitGroup
			for sh := 0; sh < nsh; sh++ {
				wg.Add(1)
				go func(sh int) {
					defer wg.Done()
					cmd := exec.Command(self, "C09-worker", "x", sc.lib, strconv.Itoa(sc.threads), strconv.Itoa(sc.bound), strconv.Itoa(sh), strconv.Itoa(nsh), sc.coarse, strconv.Itoa(sc.maxExec))
					cmd.Env = append(os.Environ(), "GOMAXPROCS=1")
					op, err := cmd.Output()
					if err != nil {
						outs[sh].Violations = append(outs[sh].Violations, fmt.Sprintf("harness: worker failed: %v", err))
						return
					}
					sc := bufio.NewScanner(strings.NewReader(string(op)))
					sc.Buffer(make([]byte, 1<<20), 1<<26)
					for sc.Scan() {
						if strings.HasPrefix(sc.Text(), "{") {
							json.Unmarshal([]byte(sc.Text()), &outs[sh])
						}
					}
				}(sh)
			}
			wg.Wait()
			ex, oc, mp := 0, 0, 0
			trunc := false
			for sh, o := range outs {
				ex += o.Executions
				if o.Outcomes > oc {
					oc = o.Outcomes
				}
				if o.MaxPoints > mp {
					mp = o.MaxPoints
				}
				trunc = trunc || o.Truncated
				for vi, v := range o.Violations {
					id := fmt.Sprintf("c09/sched/%d/%d/%d", si, sh, vi)
					if strings.HasPrefix(v, "harness") {
						fmt.Printf("HARNESS-PROBLEM property=C09 %s\n", v)
						rep.Coverage["harness_problem"] = v
						continue
					}
					schedule := ""
					if vi < len(o.Schedules) {
						schedule = fmt.Sprint(o.Schedules[vi])
					}
					report("C09:interleaving-changes-result:"+sc.lib, fmt.Sprintf("%s: %s\n  schedule (choice sequence): %s", sc.name, v, schedule), id)
				}
			}
			totalExec += ex
			totalOutcomes += oc
			scenSummaries = append(scenSummaries, map[string]interface{}{"scenario": sc.name, "schedules": ex, "choice_points_per_schedule": mp, "distinct_outcomes": oc, "truncated": trunc, "preemption_bound": sc.bound})
			if trunc {
				rep.Exhaustive = false
			}
		}
	}
	// ---- free-running -race pass (detector for unsynchronised accesses the scheduler cannot see) ----
	raceNote := "not run"
	if rb := os.Getenv("VERIF_C09_RACE_BIN"); rb != "" && rep.ReplayFilter == "" {
		iters := "50"
		if tier == "thorough" {
			iters = "200"
		}
		cmd := exec.Command(rb, "C09-race", "x", iters)
		cmd.Env = append(os.Environ(), "GORACE=halt_on_error=1 exitcode=66")
		op, err := cmd.CombinedOutput()
		s := string(op)
		switch {
		case strings.Contains(s, "fatal error: concurrent map"):
			report("C09:data-race:runtime-abort-concurrent-map-access", "the Go runtime aborted concurrent [NewKnowledgeBaseInstance; Execute] bodies (each on its own instance and facts):\n"+trunc(s, 1500), "c09/race")
			raceNote = "RUNTIME ABORT"
		case strings.Contains(s, "VACUOUS"):
			report("harness:C09-race-pass-vacuous", trunc(s, 600), "c09/race")
			raceNote = "vacuous"
		case strings.Contains(s, "WARNING: DATA RACE"):
			report("C09:data-race:"+c09RaceClass(s), "the Go race detector reports a data race in concurrent [NewKnowledgeBaseInstance; Execute] bodies:\n"+trunc(s, 1500), "c09/race")
			raceNote = "DATA RACE"
		case err != nil:
			if strings.Contains(s, "MISMATCH") {
				report("C09:concurrent-result-differs-from-sequential", trunc(s, 800), "c09/race")
			} else {
				fmt.Printf("HARNESS-PROBLEM property=C09 race pass failed to run: %v %s\n", err, trunc(s, 300))
			}
			raceNote = "failed: " + trunc(s, 200)
		default:
			raceNote = strings.TrimSpace(s)
		}
	}
	rep.Coverage["programs"] = nProgs
	rep.Coverage["pointer_graph_pairs_compared"] = nGraphs
	rep.Coverage["behavioural_isolation_checks"] = nBehav
	rep.Coverage["evaluations"] = int64(totalExec) + nGraphs + nBehav
	rep.Coverage["states"] = nGraphs + nBehav
	rep.Coverage["transitions"] = totalExec
	rep.Coverage["traces_validated_against_impl"] = totalExec
	rep.Coverage["distinct_nontrivial"] = totalExec
	rep.Coverage["schedule_exploration"] = scenSummaries
	rep.Coverage["race_pass"] = raceNote
	if bud.Hit() {
		rep.Exhaustive = false
		rep.Coverage["caps_hit"] = "time budget"
	}
	rep.Coverage["rule"] = "(1) faithful copy: for every program of a corpus drawn from the general 2-rule alphabet and the dependency matrix NewKnowledgeBaseInstance succeeds and the instance's listener trace and final facts equal the blueprint's own. (2) isolation: the sets of struct/map/slice addresses reachable (reflection incl. unexported working-memory maps) from the blueprint and from each of 3 instances, after one instance has executed, are pairwise disjoint; state keys (retract/delete flags, memo flags and values) of blueprint and instance B are unchanged after execute + RetractRule + RemoveRuleEntry on instance A, and B still behaves like the blueprint. (3) concurrency: cooperative scheduler with yield points at every method entry of packages ast/engine and pkg.CloneTable (injected by overlay) and at every listener callback; N threads each doing [NewKnowledgeBaseInstance; Execute(own facts)] with facts that differ per thread; ALL interleavings with at most the stated number of preemptions (depth-first, sharded by first deviation over 16 single-threaded worker processes); oracle: each thread's trace, error and final facts equal its sequential run and instance creation never fails. Plus a free-running pass of the same bodies, and of a 7-rule library that exercises every built-in string/slice/map method, the built-in function families, JSON facts and time values with per-thread facts, under the Go race detector with GOMAXPROCS 1,2,4,16. transitions = schedules executed; every schedule is a distinct interleaving."
	rep.Assumptions = append(rep.Assumptions, "sequentially consistent interleavings at method granularity; finer-grained races are the race detector pass's job", "map iteration order inside Clone is fixed (sorted) by the overlay so that yield-point sequences are reproducible")
}

func c09PathClass(s string) string {
	p := strings.SplitN(s, " == ", 2)[0]
	if i := strings.LastIndex(p, ":"); i >= 0 {
		return p[i+1:] + "@" + lastField(p[:i])
	}
	return p
}

func lastField(p string) string {
	if i := strings.LastIndex(p, "."); i >= 0 {
		return p[i+1:]
	}
	return p
}

func c09RaceClass(s string) string {
	for _, l := range strings.Split(s, "\n") {
		l = strings.TrimSpace(l)
		if strings.HasPrefix(l, "github.com/hyperjumptech/grule-rule-engine/") {
			l = strings.TrimPrefix(l, "github.com/hyperjumptech/grule-rule-engine/")
			if i := strings.Index(l, "("); i > 0 {
				l = l[:i]
			}
			return l
		}
	}
	return "unknown-site"
}

// c09Sink exercises the built-in surface (every string / slice / map method, the built-in functions, JSON
// facts, time values) so that the race pass also covers package-level state behind those entry points.
const c09Sink = `
rule s1 salience 9 { when F.S.MatchString(F.KS) || F.S.Contains("zz") || F.S.HasPrefix("zz") || F.S.HasSuffix("zz") || F.S.In("q", "r")
  then F.I2 = F.S.Len() + F.S.Count("a") + F.S.Index("b") + F.S.LastIndex("b") + F.S.Compare("ab"); Retract("s1"); }
rule s2 salience 8 { when F.SArr.Len() > 1 then F.SArr[0] = F.S.ToUpper() + F.S.ToLower() + F.S.Repeat(2) + F.S.Replace("a", "z") + F.S.Trim(); F.In = F.S.Split("b").Len(); Retract("s2"); }
rule s3 salience 7 { when F.Arr.Len() > 0 && F.M.Len() > 0 then F.Arr.Append(4); F.I8 = F.Arr.Len(); F.M["n"] = F.M["a"] + F.Arr[F.K]; Retract("s3"); }
rule s4 salience 6 { when IsNil(F.PI) || IsZero(F.I16) then F.F = Max(1.5, 2.5) + Min(1.0, 2.0) + Abs(-1.5) + Sqrt(4.0) + Pow(2.0, 3.0) + Floor(1.5) + Ceil(1.5) + Round(1.5) + Mod(5.0, 3.0) + Trunc(2.5); Retract("s4"); }
rule s5 salience 5 { when GetTimeYear(MakeTime(2020, 1, 2, 3, 4, 5)) == 2020 && IsTimeBefore(F.T, Now()) && GetTimeMonth(F.T) > 0 then F.P.S = TimeFormat(F.T, "2006") + F.KS; F.I32 = GetTimeDay(F.T) + GetTimeHour(F.T) + GetTimeMinute(F.T) + GetTimeSecond(F.T); Retract("s5"); }
rule s6 salience 4 { when J.n >= 1 && J.a[0] > 0 && J.s.Len() > 0 && J.o.b then J.n = J.n + J.a[1]; J.s = J.s + F.KS; Retract("s6"); }
rule s7 salience 3 { when StringContains(F.S, "a") && F.Add(F.I, 1) > 0 then F.S = F.Cat(F.S, "!", F.KS); Changed("F.S"); Forget("F.I"); Retract("s7"); }
`

// C09SinkOnce runs the sink body once (development aid and sequential reference).
func C09SinkOnce(tid int) string {
	lib, err := hx.BuildText(c09Sink)
	if err != nil {
		return "build: " + err.Error()
	}
	return c09SinkBody(lib, tid, 0)
}

func c09SinkBody(lib *ast.KnowledgeLibrary, tid, iter int) (out string) {
	defer func() {
		if r := recover(); r != nil {
			out = fmt.Sprintf("PANIC %v", r)
		}
	}()
	kb, err := lib.NewKnowledgeBaseInstance(hx.KBName, hx.KBVer)
	if err != nil {
		return "instance: " + err.Error()
	}
	f := facts.New()
	f.K = int64(tid % 3)
	f.I = int64(tid)
	f.S = fmt.Sprintf("ab%dab", tid)
	f.KS = fmt.Sprintf("^ab%d.*%d?$", tid, iter) // a pattern no other thread / iteration uses
	f.SArr = []string{"p", "q"}
	f.Arr = []int64{1, 2, 3}
	f.M = map[string]int64{"a": int64(tid)}
	f.P = &facts.Sub{}
	f.T = time.Date(2001, 2, 3, 4, 5, 6, 0, time.UTC)
	dc := ast.NewDataContext()
	dc.Add("F", f)
	if err := dc.AddJSON("J", []byte(fmt.Sprintf(`{"n": %d, "a": [1, 2], "s": "js", "o": {"b": true}}`, tid+1))); err != nil {
		return "json: " + err.Error()
	}
	var evs []string
	eng := &engine.GruleEngine{MaxCycle: 12, Listeners: []engine.GruleEngineListener{&c09Listener{obs: &c09Obs{}, y: func(string) {}}}}
	lst := eng.Listeners[0].(*c09Listener)
	errs := ""
	if err := eng.Execute(dc, kb); err != nil {
		errs = firstLineOf(err.Error())
	}
	evs = lst.obs.Events
	n := 0
	for _, e := range evs {
		if strings.HasPrefix(e, "X") {
			n++
		}
	}
	jn := dc.Get("J")
	js := ""
	if jn != nil {
		js = fmt.Sprint(jn.Value().Interface())
	}
	return fmt.Sprintf("fired=%d err=%q I2=%d In=%d I8=%d I32=%d F=%v S=%q SArr=%q Arr=%v M=%v P.S=%q J=%s", n, errs, f.I2, f.In, f.I8, f.I32, f.F, f.S, f.SArr, f.Arr, f.M, f.P.S, js)
}
