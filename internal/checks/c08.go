package checks

import (
	"fmt"
	"regexp"

	"github.com/hyperjumptech/grule-rule-engine/ast"
	"strings"
	"sync/atomic"
	"time"

	"verif/internal/ev"
	"verif/internal/facts"
	"verif/internal/grl"
	"verif/internal/hx"
	"verif/internal/ref"
)

// one call of a history
type c08Call struct {
	name   string
	fetch  bool
	k      int64 // world selector F.K
	i      int64 // initial F.I
	max    uint64
	cancel int // poll index at which the context flips (0 = never)
	// a name "remove:<rule>" is not a call: RemoveRuleEntry(<rule>) on the instance (fresh comparison
	// instances get the same removals)
}

type c08Set struct {
	name  string
	rules func() []*grl.Rule
	calls []c08Call
}

func c08World(k, i int64) *ref.World {
	w := ref.NewWorld()
	f := facts.New()
	f.K, f.I = k, i
	// used by the "errors-after-success" set: the key exists for even selectors only, and the
	// slice is long enough for index 0 only when the selector is < 10
	if k%2 == 0 {
		f.M = map[string]int64{"k": 5}
	} else {
		f.M = map[string]int64{}
	}
	f.Arr = []int64{1}
	if k >= 10 {
		f.Arr = []int64{1, 2, 3}
	}
	f.B = k >= 10
	if k%2 == 0 {
		zero := int64(0)
		f.PI = &zero // the selector of rule psel: a valid index for even selectors, a nil pointer otherwise
	}
	if k == 77 {
		// the "clock" set: this fact is a little older than the moment of the call, and younger than every
		// earlier call of the history (the harness pauses 2 ms before each such call)
		time.Sleep(2 * time.Millisecond)
		f.T = time.Now().Add(-time.Millisecond)
	}
	w.Objs["F"] = f
	w.Objs["V"] = facts.New() // a result fact that rules only write to
	// the "json-kinds" set: the KIND of a JSON member differs from call to call
	switch k {
	case 40:
		w.JSON["J"] = map[string]interface{}{"ok": true, "n": 1.0}
	case 41:
		w.JSON["J"] = map[string]interface{}{"ok": "yes", "n": "one"}
	case 42:
		w.JSON["J"] = map[string]interface{}{"ok": false, "n": 2.0}
	case 43:
		w.JSON["J"] = map[string]interface{}{"ok": 1.0, "n": true}
	}
	return w
}

var c08Sets = []c08Set{
	{"complete+selfretract", func() []*grl.Rule {
		return []*grl.Rule{
			grl.R("inc", nil, "F.I < 2", "F.I = F.I + 1"),
			grl.R("done", grl.Sal(10), "F.K == 1 && F.I == 1", "Complete()"),
			grl.R("self", grl.Sal(5), "F.K == 3 && F.I2 < 1", `Retract("self")`, "F.I2 = F.I2 + 1"),
			grl.R("verdict", grl.Sal(-3), "F.I >= 2", "V.I2 = 7", `V.S = "approved"`, `Retract("verdict")`),
		}
	}, []c08Call{
		{"exec-normal", false, 0, 0, 10, 0}, {"exec-normal-i1", false, 0, 1, 10, 0}, {"exec-complete", false, 1, 0, 10, 0}, {"exec-selfretract", false, 3, 0, 10, 0},
		{"exec-cancel@2", false, 0, 0, 10, 2}, {"exec-cancel@5", false, 3, 0, 10, 5}, {"exec-limit", false, 0, 0, 1, 0},
		{"exec-selfretract-then-limit", false, 3, 0, 1, 0}, {"exec-selfretract-then-cancel@12", false, 3, 0, 10, 12},
		{"fetch-k0", true, 0, 0, 0, 0}, {"fetch-k3", true, 3, 0, 0, 0}, {"fetch-k1-i1", true, 1, 1, 0, 0},
		{"remove:done", false, 0, 0, 0, 0}, {"remove:verdict", false, 0, 0, 0, 0},
	}},
	{"actionerror+limit+retractother", func() []*grl.Rule {
		return []*grl.Rule{
			grl.R("inc", nil, "F.I < 2", "F.I = F.I + 1"),
			grl.R("bad", grl.Sal(10), "F.K == 2 && F.I == 1 || F.K == 5 && F.I2 == 1", "F.I2 = 5", "F.P.V = 1"),
			grl.R("kill", grl.Sal(7), "F.K >= 4 && F.I2 == 0", `Retract("inc")`, "F.I2 = 1"),
		}
	}, []c08Call{
		{"exec-normal", false, 0, 0, 10, 0}, {"exec-actionerror", false, 2, 0, 10, 0}, {"exec-retractother", false, 4, 0, 10, 0},
		{"exec-limit", false, 0, 0, 1, 0}, {"exec-cancel@3", false, 0, 0, 10, 3},
		{"exec-retractother-then-actionerror", false, 5, 0, 10, 0}, {"exec-retractother-then-limit", false, 4, 0, 1, 0}, {"exec-retractother-then-cancel@12", false, 4, 0, 10, 12},
		{"fetch-k0", true, 0, 0, 0, 0}, {"fetch-k4", true, 4, 0, 0, 0}, {"fetch-k2-i1", true, 2, 1, 0, 0},
	}},
	{"forget+memo", func() []*grl.Rule {
		return []*grl.Rule{
			grl.R("bump", nil, "F.I < 2 && F.K == 0", "F.Bump()", `Forget("F.I")`, `Forget("F.Bump()")`),
			grl.R("heavy", grl.Sal(3), "F.Heavy(F.I) == 4 && F.I2 == 0", "F.I2 = 1"),
			grl.R("sum", grl.Sal(-1), "F.Add(F.I, F.I2) == 3 && F.K < 2", "F.K = 2"),
		}
	}, []c08Call{
		{"exec-i0", false, 0, 0, 10, 0}, {"exec-i1", false, 0, 1, 10, 0}, {"exec-k1", false, 1, 1, 10, 0}, {"exec-limit", false, 0, 0, 1, 0}, {"exec-cancel@4", false, 0, 0, 10, 4},
		{"fetch-i1", true, 0, 1, 0, 0}, {"fetch-i0", true, 0, 0, 0, 0},
	}},
	{"same-statement", func() []*grl.Rule {
		// the identical call statement (and an identical assignment) in the action lists of several rules
		return []*grl.Rule{
			grl.R("a", grl.Sal(2), "F.K == 0", "F.Bump()", "F.I2 = F.I2 + 1", `Retract("a")`),
			grl.R("b", grl.Sal(1), "F.K < 2", "F.Bump()", "F.I2 = F.I2 + 1", `Retract("b")`),
			grl.R("c", nil, "F.I >= 0", "F.I2 = F.I2 + 1", "F.Bump()", `Retract("c")`),
		}
	}, []c08Call{
		{"exec-k0", false, 0, 0, 10, 0}, {"exec-k1", false, 1, 0, 10, 0}, {"exec-k2", false, 2, 5, 10, 0}, {"exec-k0-limit", false, 0, 0, 1, 0}, {"fetch-k0", true, 0, 0, 0, 0},
		{"remove:a", false, 0, 0, 0, 0},
	}},
	{"json-kinds", func() []*grl.Rule {
		// conditions that are a bare member (boolean in one call, text or a number in another), and a comparison whose
		// operand changes kind
		return []*grl.Rule{
			grl.R("bare", nil, "J.ok", "V.I = V.I + 1", `Retract("bare")`),
			grl.R("neg", grl.Sal(1), "!J.ok", "V.I2 = V.I2 + 1", `Retract("neg")`),
			grl.R("num", grl.Sal(2), "J.n == 1", "V.K = V.K + 1", `Retract("num")`),
		}
	}, []c08Call{
		{"exec-bool-true", false, 40, 0, 10, 0}, {"exec-text", false, 41, 0, 10, 0}, {"exec-bool-false", false, 42, 0, 10, 0}, {"exec-number", false, 43, 0, 10, 0},
		{"fetch-bool-true", true, 40, 0, 0, 0}, {"fetch-text", true, 41, 0, 0, 0},
	}},
	{"clock", func() []*grl.Rule {
		// Now() is variable-free but not constant: every call sees the clock of ITS moment
		return []*grl.Rule{
			grl.R("late", nil, "F.T < Now()", "F.I2 = 1", `Retract("late")`),
			grl.R("early", grl.Sal(1), "F.T > Now()", "F.I = 1", `Retract("early")`),
		}
	}, []c08Call{
		{"exec-clock", false, 77, 0, 5, 0}, {"fetch-clock", true, 77, 0, 0, 0}, {"exec-clock-limit", false, 77, 0, 1, 0},
	}},
	{"errors-after-success", func() []*grl.Rule {
		return []*grl.Rule{
			grl.R("por", nil, `(F.M["k"] > 1) || F.I2 == 7`, "F.I2 = F.I2 + 1", `Retract("por")`),
			grl.R("pand", grl.Sal(2), `(F.M["k"] > 1) && F.B`, "F.I = F.I + 10", `Retract("pand")`),
			grl.R("walk", grl.Sal(-1), "F.Arr[F.I] > 0 && F.I < 4", "F.I = F.I + 1"),
			grl.R("psel", grl.Sal(-2), "F.Arr[F.PI] > 0 && F.I2 < 100", "F.I2 = F.I2 + 100", `Retract("psel")`),
		}
	}, []c08Call{
		{"exec-key-present", false, 0, 0, 10, 0}, {"exec-key-missing", false, 1, 0, 10, 0}, {"exec-key-present-long-slice", false, 10, 0, 10, 0}, {"exec-key-missing-long-slice", false, 11, 0, 10, 0},
		{"exec-key-present-limit", false, 10, 0, 2, 0}, {"exec-key-present-cancel@9", false, 10, 0, 10, 9},
		{"fetch-key-present", true, 0, 0, 0, 0}, {"fetch-key-missing", true, 1, 0, 0, 0}, {"fetch-key-present-long", true, 10, 0, 0, 0}, {"fetch-key-missing-long", true, 11, 0, 0, 0},
	}},
}

// c08Observe performs one call on kb and returns a canonical observation.
var c08Stamp = regexp.MustCompile(`T:2\d{3}-[0-9T:.-]+Z`)

// c08Observe performs one call on kb and returns a canonical observation (the wall-clock stamp of the
// "clock" set's fact is masked: it differs from call to call by construction).
func c08Observe(b *hx.Built, c c08Call, order int, kb *ast.KnowledgeBase) string {
	return c08Stamp.ReplaceAllString(c08ObserveRaw(b, c, order, kb), "T:<stamp>")
}

func c08ObserveRaw(b *hx.Built, c c08Call, order int, kb *ast.KnowledgeBase) string {
	w := c08World(c.k, c.i)
	if c.fetch {
		nperm := hx.NPerms(len(kb.RuleEntries))
		ch := order
		if ch >= nperm {
			ch = nperm - 1
		}
		res := hx.Fetch(kb, w, false, ch)
		return fmt.Sprintf("fetch names=%v err=%v panic=%v facts=%s", res.Names, res.Err, res.Panic, w.Dump())
	}
	o := hx.RunOpts{MaxCycle: c.max, KB: kb, DefaultChoice: order, NoSnapshots: true}
	if c.cancel > 0 {
		o.Ctx = hx.NewPollCtx(c.cancel, nil)
	}
	tr := hx.RunOn(b.Prog, kb, w, o, nil)
	errs := "nil"
	if tr.Err != nil {
		errs = tr.Err.Error()
	}
	return fmt.Sprintf("events=%s err=%s panic=%v final=%s", hx.Evs(tr.Events), errs, tr.Panic, tr.FinalDump)
}

func C08(rep *ev.Reporter, tier string) {
	bud := NewBudget(150 * time.Second)
	maxLen := 3
	if tier == "thorough" {
		bud = NewBudget(9 * time.Minute)
		maxLen = 4
	}
	type hist struct {
		set   int
		calls []int
		order int
	}
	var hs []hist
	for si, s := range c08Sets {
		var rec func(cur []int)
		rec = func(cur []int) {
			if len(cur) >= 2 {
				for _, o := range []int{0, 5, 3} {
					hs = append(hs, hist{si, append([]int{}, cur...), o})
				}
			}
			if len(cur) == maxLen {
				return
			}
			for ci := range s.calls {
				rec(append(cur, ci))
			}
		}
		rec(nil)
	}
	var nHist, nCalls, nontrivial int64
	builts := make([]*hx.Built, len(c08Sets))
	for i, s := range c08Sets {
		b, err := hx.Build(hx.NewProgram(s.rules(), grl.Style{}))
		if err != nil {
			rep.Violation("harness:build-failed:"+s.name, err.Error(), nil)
			return
		}
		builts[i] = b
	}
	ParallelEach(len(hs), func(i int) {
		h := hs[i]
		s := c08Sets[h.set]
		var names []string
		for _, ci := range h.calls {
			names = append(names, s.calls[ci].name)
		}
		caseID := fmt.Sprintf("c08/%s/%s/o%d", s.name, strings.Join(names, ">"), h.order)
		if rep.ReplayFilter != "" && rep.ReplayFilter != caseID {
			return
		}
		if bud.Over() {
			return
		}
		b := builts[h.set]
		run := func() (sig, what string) {
			kb, err := b.Instance()
			if err != nil {
				return "C08:instance-failed", err.Error()
			}
			var removed []string
			for n, ci := range h.calls {
				c := s.calls[ci]
				if rm, ok := strings.CutPrefix(c.name, "remove:"); ok {
					kb.RemoveRuleEntry(rm)
					removed = append(removed, rm)
					continue
				}
				if c.cancel > 0 && !hx.OrderLive() {
					continue // which rule meets the flipping poll depends on the (then uncontrolled) rule order
				}
				obsUsed := c08Observe(b, c, h.order, kb)
				fresh, err := b.Instance()
				if err != nil {
					return "C08:instance-failed", err.Error()
				}
				for _, r := range removed {
					fresh.RemoveRuleEntry(r)
				}
				obsFresh := c08Observe(b, c, h.order, fresh)
				atomic.AddInt64(&nCalls, 2)
				if obsUsed != obsFresh {
					prev := "none"
					if n > 0 {
						prev = strings.Join(names[:n], ">")
					}
					kind := "execute"
					if c.fetch {
						kind = "fetch"
					}
					return fmt.Sprintf("C08:%s-differs-after:%s:then:%s", kind, s.name+"/"+lastOf(names[:n]), c.name),
						fmt.Sprintf("call %d (%s) on the reused instance (earlier calls: %s) differs from the same call on a fresh instance\n  reused: %s\n  fresh : %s", n+1, c.name, prev, obsUsed, obsFresh)
				}
			}
			return "", ""
		}
		sig, what := run()
		atomic.AddInt64(&nHist, 1)
		atomic.AddInt64(&nontrivial, 1)
		if sig != "" {
			s2, _ := run()
			if s2 != sig {
				fmt.Printf("HARNESS-NONDETERMINISM property=C08 case=%s\n", caseID)
				return
			}
			rep.Violation(sig, what+"\n  case: "+caseID+"\n  grl: "+strings.ReplaceAll(b.Prog.Text, "\n", "\n       "), map[string]interface{}{"case": caseID, "grl": b.Prog.Text, "history": names, "order_choice": h.order})
		}
		if i < 3 {
			rep.Sample(map[string]interface{}{"case": caseID, "grl": b.Prog.Text, "history": names})
		}
	})
	rep.Coverage["evaluations"] = nCalls
	rep.Coverage["states"] = nHist
	rep.Coverage["transitions"] = nCalls / 2
	rep.Coverage["traces_validated_against_impl"] = nCalls
	rep.Coverage["distinct_nontrivial"] = nontrivial
	rep.Coverage["order_controlled"] = hx.OrderLive()
	if !hx.OrderLive() {
		rep.Exhaustive = false
		rep.Coverage["order_note"] = "the rule-order hook is not live on this tree: rule orders were NOT enumerated (each run took whatever order the Go runtime chose)"
	}
	if bud.Hit() {
		rep.Exhaustive = false
		rep.Coverage["caps_hit"] = "time budget"
	}
	rep.Coverage["rule"] = fmt.Sprintf("every call history of length 2..%d over the call alphabet of each of 5 rule sets (one reads the clock through Now(), whose value belongs to the moment of each call; another has conditions that evaluate on some facts and fail with an error on others, parenthesised and shared between rules) (Execute ending normally / by Complete / by action error / at the cycle limit / by cancellation at poll p / after a rule retracted itself or another; FetchMatchingRules; each with its own facts; instance-level RemoveRuleEntry as a step between calls) under 3 static rule orders; states = histories, transitions = calls on the reused instance. Differential oracle: listener trace, return value and final facts of the n-th call on the reused instance equal those of the same call on a new instance. Every history has >=1 earlier call, so every one is non-trivial.", maxLen)
}

func lastOf(s []string) string {
	if len(s) == 0 {
		return "-"
	}
	return s[len(s)-1]
}
