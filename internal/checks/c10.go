package checks

import (
	"fmt"
	"github.com/hyperjumptech/grule-rule-engine/ast"
	"sort"
	"strings"
	"time"

	"verif/internal/ev"
	"verif/internal/facts"
	"verif/internal/grl"
	"verif/internal/hx"
	"verif/internal/ref"
)

func judgeC10(c *Case, tr *hx.Trace, w *ref.World) []Verdict {
	var out []Verdict
	v := Verdict{}
	add := func(sig, what string) { out = append(out, Verdict{Sig: sig, What: what}) }
	if tr.Panic != nil {
		return []Verdict{{Sig: "C10:panic", What: fmt.Sprintf("engine panicked: %v", tr.Panic)}}
	}
	retractSeen := false
	completeAt := -1
	retractedSoFar := map[string]bool{}
	for ci, cy := range tr.Cycles {
		last := ci == len(tr.Cycles)-1
		if completeAt >= 0 {
			add("C10:cycle-after-Complete", fmt.Sprintf("Complete() was called in cycle %d but cycle %d began", completeAt, cy.N))
			break
		}
		var rep []string
		for _, e := range cy.Evals {
			rep = append(rep, e.Rule)
			if retractedSoFar[e.Rule] {
				add("C10:retracted-rule-evaluated", fmt.Sprintf("cycle %d evaluated %s which was retracted earlier in this run", cy.N, e.Rule))
			}
		}
		sort.Strings(rep)
		cutShort := last && tr.Err != nil && !hx.IsLimitErr(tr.Err)
		if !cutShort {
			for _, a := range cy.ActiveModel {
				found := false
				for _, r := range rep {
					if r == a {
						found = true
					}
				}
				if !found {
					add("C10:non-retracted-rule-not-evaluated", fmt.Sprintf("cycle %d did not evaluate %s, which nobody retracted (retracted so far: %v)", cy.N, a, sortedKeys(retractedSoFar)))
				}
			}
		}
		for _, e := range cy.Evals {
			rr := cy.RefAt[e.Rule]
			if rr.Err == nil && !retractedSoFar[e.Rule] && rr.True != e.Cand {
				if retractSeen {
					add("C10:rule-status-disturbed-after-retract", fmt.Sprintf("cycle %d: %s reported candidate=%v but its condition is %v on the current facts", cy.N, e.Rule, e.Cand, rr.True))
				} else {
					v.Foreign++
				}
			}
		}
		if cy.Exec != "" {
			if retractedSoFar[cy.Exec] {
				add("C10:retracted-rule-fired", fmt.Sprintf("cycle %d fired %s which was retracted earlier", cy.N, cy.Exec))
			}
			if cy.PostChecked && !cy.PostOK && cy.ModelErr == nil {
				add("C10:actions-after-retract-or-complete-not-all-run", fmt.Sprintf("cycle %d (%s): facts differ from the model's post-state (all actions of the rule, including those after Retract/Complete, must run):\n%s", cy.N, cy.Exec, cy.PostDiff))
			}
			for _, n := range cy.Effect.Retract {
				found := false
				for _, r := range c.Rules {
					if r.Name == n {
						found = true
					}
				}
				if found {
					retractedSoFar[n] = true
					retractSeen = true
					if !last {
						v.Nontrivial = true
					}
				}
			}
			if cy.Effect.Complete {
				completeAt = int(cy.N)
				v.Nontrivial = true
				if tr.Err != nil {
					add("C10:error-after-Complete", fmt.Sprintf("Complete() in cycle %d but Execute returned %v", cy.N, tr.Err))
				}
			}
		}
	}
	out = append(out, v)
	return out
}

func C10(rep *ev.Reporter, tier string) {
	bud := NewBudget(150 * time.Second)
	maxLen := 3
	if tier == "thorough" {
		bud = NewBudget(9 * time.Minute)
		maxLen = 4
	}
	world := func() *ref.World {
		w := ref.NewWorld()
		w.Objs["F"] = facts.New()
		return w
	}
	conds := map[string]string{"r1": "F.I < 2", "r2": "F.I2 < 2", "r3": "F.I + F.I2 < 3"}
	incr := map[string]string{"r1": "F.I = F.I + 1", "r2": "F.I2 = F.I2 + 1", "r3": "F.I = F.I + 1"}
	item := func(self string, others []string, code string) string {
		switch code {
		case "a":
			return incr[self]
		case "Rs":
			return fmt.Sprintf(`Retract("%s")`, self)
		case "Ro":
			return fmt.Sprintf(`Retract("%s")`, others[0])
		case "Ro2":
			return fmt.Sprintf(`Retract("%s")`, others[len(others)-1])
		case "Ru":
			return `Retract("Unknown")`
		case "Rc":
			// the name of ANOTHER rule in another letter case: names are case-sensitive, so this is an unknown name
			return fmt.Sprintf(`Retract("%s")`, strings.ToUpper(others[0]))
		case "Rf":
			return `Retract("F")` // no rule has this name - it is the key of the fact in the data context
		case "C":
			return "Complete()"
		case "H":
			return "F.Hook(1)" // a fact method that adds two more facts to the RUNNING data context
		}
		panic(code)
	}
	codes := []string{"a", "Rs", "Ro", "Ru", "C", "Ro2"}
	hook := func(dc ast.IDataContext, id int64) {
		dc.Add("Extra", facts.New())
		dc.AddJSON("ExtraJ", []byte(`{"a":1}`))
	}
	var seqs [][]string
	var rec func(cur []string)
	rec = func(cur []string) {
		if len(cur) > 0 {
			seqs = append(seqs, append([]string{}, cur...))
		}
		if len(cur) == maxLen {
			return
		}
		for _, c := range append(append([]string{}, codes[:5]...), "H", "Rf", "Rc") {
			rec(append(cur, c))
		}
	}
	rec(nil)
	small := [][]string{{"a"}, {"Rs"}, {"a", "Ro"}, {"Ro", "a"}, {"C", "a"}, {"a", "Rs"}, {"Ru", "a"}, {"Ro", "Ro"}, {"C", "H", "a"}}
	mk := func(name string, others []string, seq []string, sal *int64) *grl.Rule {
		var acts []string
		for _, c := range seq {
			acts = append(acts, item(name, others, c))
		}
		return grl.R(name, sal, conds[name], acts...)
	}
	gen := func(emit func(Case)) {
		for _, salHi := range []bool{false, true} {
			var s1 *int64
			if salHi {
				s1 = grl.Sal(3)
			}
			for i, q1 := range seqs {
				for j, q2 := range small {
					emit(Case{ID: fmt.Sprintf("c10/k2/%d.%d/hi%v", i, j, salHi), Rules: []*grl.Rule{mk("r1", []string{"r2"}, q1, s1), mk("r2", []string{"r1"}, q2, nil)},
						Worlds: []func() *ref.World{world}, WorldNames: []string{"zero"}, Opts: hx.RunOpts{MaxCycle: 8, OnHook: hook}, Reuse: true, Histories: true,
						Meta: map[string]string{"r1": strings.Join(q1, ","), "r2": strings.Join(q2, ",")}})
				}
			}
			// k = 3: r1 over all sequences of length <= 2 incl. Ro2, r2/r3 over small sets
			var seq3 [][]string
			for _, a := range codes {
				seq3 = append(seq3, []string{a})
				for _, b := range codes {
					seq3 = append(seq3, []string{a, b})
				}
			}
			for i, q1 := range seq3 {
				for j, q2 := range small[:6] {
					for k, q3 := range small[:4] {
						emit(Case{ID: fmt.Sprintf("c10/k3/%d.%d.%d/hi%v", i, j, k, salHi),
							Rules:  []*grl.Rule{mk("r1", []string{"r2", "r3"}, q1, s1), mk("r2", []string{"r3", "r1"}, q2, nil), mk("r3", []string{"r1", "r2"}, q3, nil)},
							Worlds: []func() *ref.World{world}, WorldNames: []string{"zero"}, Opts: hx.RunOpts{MaxCycle: 8, OnHook: hook},
							Meta: map[string]string{"r1": strings.Join(q1, ","), "r2": strings.Join(q2, ","), "r3": strings.Join(q3, ",")}})
					}
				}
			}
		}
	}
	RunFamily(rep, gen, 20000, bud, judgeC10)
	rep.Coverage["rule"] = "every rule set of 2 rules (r1: every action list of length <= 2 (thorough 3) over {assignment, Retract(self), Retract(other), Retract(\"Unknown\"), Complete(), a fact method that adds facts to the running data context}; r2: 8 lists) and of 3 rules (r1: every list of length <= 2 incl. Retract(second other); r2: 6, r3: 4 lists), equal saliences and r1 dominant, every rule order at every cycle; every 2-rule run additionally as the second Execute of one instance (new data context and facts). Oracle: model retract set / complete flag followed along the trace: a retracted rule is never evaluated or fired again in the run, every other rule is evaluated in every cycle with the status of its fresh evaluation, an unknown name changes nothing, all actions of the rule (also those after Retract/Complete) run, no cycle begins after Complete and Execute returns nil. Non-trivial: a Retract of an existing rule followed by a further cycle, or a Complete."
}
