package checks

import (
	"fmt"
	"strings"

	"verif/internal/facts"
	"verif/internal/grl"
	"verif/internal/hx"
	"verif/internal/ref"
)

var gen2Conds = []string{
	"F.I < 2",
	"F.B",
	"F.I < 2 && F.B",
	"F.S.Len() < 2",
	"F.Arr[0] < 2",
	"F.Add(F.I, 1) < 3",
	"F.I == 1",
	"!F.B",
	"F.I >= 2 || F.B",
	`F.S == "a"`,
	`F.M["a"] == 0`,
	"F.P.V < 2",
}

// %s = own name, %o = other rule's name
var gen2Acts = [][]string{
	{"F.I = F.I + 1"},
	{"F.B = !F.B"},
	{"F.I = F.I + 1", `Retract("%s")`},
	{`Retract("%o")`, "F.B = true"},
	{"F.Arr[0] = F.Arr[0] + 1"},
	{"F.I = 5", "Complete()"},
	{`F.S = F.S + "a"`},
	{`F.M["a"] = F.M["a"] + 1`},
	{"F.P.V += 1"},
	{"F.Bump()", `Forget("F.I")`, `Forget("F.Bump()")`},
	{"F.I = F.Add(F.I, 1)"},
	{"F.I2 = F.I2 + 1", "F.I = F.I2"},
}

func gen2World(v int64) func() *ref.World {
	return func() *ref.World {
		w := ref.NewWorld()
		f := facts.New()
		f.I = v
		f.B = v == 1
		if v == 1 {
			f.S = "a"
		}
		f.Arr = []int64{v}
		f.M = map[string]int64{"a": v}
		f.P = &facts.Sub{V: v}
		w.Objs["F"] = f
		return w
	}
}

func gen2Rule(name, other string, ci, ai int) *grl.Rule {
	r := &grl.Rule{Name: name, When: grl.E(gen2Conds[ci])}
	for _, a := range gen2Acts[ai] {
		a = strings.ReplaceAll(a, "%s", name)
		a = strings.ReplaceAll(a, "%o", other)
		r.Then = append(r.Then, grl.A(a))
	}
	return r
}

// general2 emits all 2-rule sets over the (condition x action-list) alphabet.
func general2(tier string, maxCycle uint64, emit func(Case)) {
	nc, na := 6, 6
	if tier == "thorough" {
		nc, na = len(gen2Conds), len(gen2Acts)
	}
	worlds := []func() *ref.World{gen2World(0), gen2World(1)}
	for c1 := 0; c1 < nc; c1++ {
		for a1 := 0; a1 < na; a1++ {
			for c2 := 0; c2 < nc; c2++ {
				for a2 := 0; a2 < na; a2++ {
					for _, s2 := range []int64{0, 1} {
						r1 := gen2Rule("ra", "rb", c1, a1)
						r2 := gen2Rule("rb", "ra", c2, a2)
						r1.HasSal, r1.Sal = true, 1
						r2.HasSal, r2.Sal = true, s2
						emit(Case{ID: fmt.Sprintf("gen2/%d.%d/%d.%d/s%d", c1, a1, c2, a2, s2), Rules: []*grl.Rule{r1, r2}, Worlds: worlds, WorldNames: []string{"v0", "v1"},
							Opts: hx.RunOpts{MaxCycle: maxCycle},
							Meta: map[string]string{"loc": "general2", "alias": "-", "form": fmt.Sprintf("a%d,a%d", a1, a2), "shape": fmt.Sprintf("c%d,c%d", c1, c2)}})
					}
				}
			}
		}
	}
}
