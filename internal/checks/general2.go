package checks

import (
	"fmt"
	"strings"

	"verif/internal/facts"
	"verif/internal/grl"
	"verif/internal/hx"
	"verif/internal/ref"
)

var gen2Conds = []string{
	"F.I < 2",
	"F.B",
	"F.I < 2 && F.B",
	"F.S.Len() < 2",
	"F.Arr[0] < 2",
	"F.Add(F.I, 1) < 3",
	"F.I == 1",
	"!F.B",
	"F.I >= 2 || F.B",
	`F.S == "a"`,
	`F.M["a"] == 0`,
	"F.P.V < 2",
	"F.K + 1 < 3 && F.SelArr[F.K + 1] < 60",
	"(F.I >= 1)",
	"!(F.I >= 1)",
}

// %s = own name, %o = other rule's name
var gen2Acts = [][]string{
	{"F.I = F.I + 1"},
	{"F.B = !F.B"},
	{"F.I = F.I + 1", `Retract("%s")`},
	{`Retract("%o")`, "F.B = true"},
	{"F.Arr[0] = F.Arr[0] + 1"},
	{"F.I = 5", "Complete()"},
	{`F.S = F.S + "a"`},
	{`F.M["a"] = F.M["a"] + 1`},
	{"F.P.V += 1"},
	{"F.Bump()", `Forget("F.I")`, `Forget("F.Bump()")`},
	{"F.I = F.Add(F.I, 1)"},
	{"F.I2 = F.I2 + 1", "F.I = F.I2"},
	{"F.I2 = F.I2 + F.SelArr[F.K + 1]", "F.K = F.K + 1"},
	{`Retract("%o")`},                  // changes no variable at all
	{`Retract("%o")`, `Retract("%s")`}, // neither
}

func gen2World(v int64) func() *ref.World {
	return func() *ref.World {
		w := ref.NewWorld()
		f := facts.New()
		f.I = v
		f.B = v == 1
		if v == 1 {
			f.S = "a"
		}
		f.Arr = []int64{v}
		f.SelArr = []int64{v + 1, v + 3, 50, 51, 52, 53, 54, 55, 56}
		f.M = map[string]int64{"a": v}
		f.P = &facts.Sub{V: v}
		w.Objs["F"] = f
		return w
	}
}

func gen2Rule(name, other string, ci, ai int) *grl.Rule {
	r := &grl.Rule{Name: name, When: grl.E(gen2Conds[ci])}
	for _, a := range gen2Acts[ai] {
		a = strings.ReplaceAll(a, "%s", name)
		a = strings.ReplaceAll(a, "%o", other)
		r.Then = append(r.Then, grl.A(a))
	}
	return r
}

// general2 emits all 2-rule sets over the (condition x action-list) alphabet.
func general2(tier string, maxCycle uint64, emit func(Case)) {
	conds, acts := []int{0, 1, 2, 3, 4, 5, 12, 13, 14}, []int{0, 1, 2, 3, 4, 5, 12, 13, 14}
	if tier == "thorough" {
		conds, acts = nil, nil
		for i := range gen2Conds {
			conds = append(conds, i)
		}
		for i := range gen2Acts {
			acts = append(acts, i)
		}
	}
	worlds := []func() *ref.World{gen2World(0), gen2World(1)}
	for _, c1 := range conds {
		for _, a1 := range acts {
			for _, c2 := range conds {
				for _, a2 := range acts {
					for _, s2 := range []int64{0, 1} {
						r1 := gen2Rule("ra", "rb", c1, a1)
						r2 := gen2Rule("rb", "ra", c2, a2)
						r1.HasSal, r1.Sal = true, 1
						r2.HasSal, r2.Sal = true, s2
						emit(Case{ID: fmt.Sprintf("gen2/%d.%d/%d.%d/s%d", c1, a1, c2, a2, s2), Rules: []*grl.Rule{r1, r2}, Worlds: worlds, WorldNames: []string{"v0", "v1"},
							Opts: hx.RunOpts{MaxCycle: maxCycle},
							Meta: map[string]string{"loc": "general2", "alias": "-", "form": fmt.Sprintf("a%d,a%d", a1, a2), "shape": fmt.Sprintf("c%d,c%d", c1, c2)}})
					}
				}
			}
		}
	}
}

// general3 emits all 3-rule sets over a reduced (condition x action-list) alphabet (thorough only).
func general3(maxCycle uint64, emit func(Case)) {
	conds, acts := []int{0, 2, 4, 5, 12}, []int{0, 2, 3, 5, 12}
	worlds := []func() *ref.World{gen2World(0), gen2World(1)}
	type kind struct{ c, a int }
	var kinds []kind
	for _, c := range conds {
		for _, a := range acts {
			kinds = append(kinds, kind{c, a})
		}
	}
	names := []string{"ra", "rb", "rc"}
	for i, k1 := range kinds {
		for j, k2 := range kinds {
			for l, k3 := range kinds {
				if (i+j+l)%3 != 0 {
					continue // a fixed third of the 15 625 triples (keeps the tier inside its budget)
				}
				mk := func(n int, k kind) *grl.Rule {
					r := &grl.Rule{Name: names[n], When: grl.E(gen2Conds[k.c])}
					for _, a := range gen2Acts[k.a] {
						a = strings.ReplaceAll(a, "%s", names[n])
						a = strings.ReplaceAll(a, "%o", names[(n+1)%3])
						r.Then = append(r.Then, grl.A(a))
					}
					return r
				}
				r1, r2, r3 := mk(0, k1), mk(1, k2), mk(2, k3)
				r1.HasSal, r1.Sal = true, 1
				emit(Case{ID: fmt.Sprintf("gen3/%d.%d.%d", i, j, l), Rules: []*grl.Rule{r1, r2, r3}, Worlds: worlds, WorldNames: []string{"v0", "v1"},
					Opts: hx.RunOpts{MaxCycle: maxCycle},
					Meta: map[string]string{"loc": "general3", "alias": "-", "form": fmt.Sprintf("a%d,a%d,a%d", k1.a, k2.a, k3.a), "shape": fmt.Sprintf("c%d,c%d,c%d", k1.c, k2.c, k3.c)}})
			}
		}
	}
}
