package checks

import (
	"fmt"
	"sync"
	"time"

	"verif/internal/ev"
	"verif/internal/hx"
	"verif/internal/ref"
)

// judgeC01: whenever a rule fires it is active and its condition, evaluated from scratch by the
// reference evaluator on the facts of that moment, is true.
func judgeC01(c *Case, tr *hx.Trace, w *ref.World) []Verdict {
	var out []Verdict
	v := Verdict{}
	if tr.Panic != nil {
		return []Verdict{{Sig: "C01:panic", What: fmt.Sprintf("engine panicked: %v", tr.Panic)}}
	}
	for _, cy := range tr.Cycles {
		if cy.Exec == "" {
			continue
		}
		if cy.N > 1 {
			v.Nontrivial = true // a firing after at least one earlier firing: remembered values are in play
		}
		if !cy.ExecActive {
			out = append(out, Verdict{Sig: depSig("C01:fired-inactive-rule", c.Meta), What: fmt.Sprintf("cycle %d: rule %s fired although it is retracted/removed", cy.N, cy.Exec)})
			continue
		}
		if cy.ExecRefE != nil {
			if _, ok := cy.ExecRefE.(*ref.ErrEval); ok {
				out = append(out, Verdict{Sig: depSig("C01:fired-with-failing-condition", c.Meta), What: fmt.Sprintf("cycle %d: rule %s fired although its condition fails to evaluate on the current facts: %v", cy.N, cy.Exec, cy.ExecRefE)})
			}
			continue
		}
		if !cy.ExecRef {
			out = append(out, Verdict{Sig: depSig("C01:fired-with-false-condition", c.Meta), What: fmt.Sprintf("cycle %d: rule %s fired although its condition is false on the current facts", cy.N, cy.Exec)})
		}
	}
	out = append(out, v)
	return out
}

// judgeC02: every active rule whose condition is true is reported as candidate in every cycle;
// nil return without Complete means no active rule's condition holds on the final facts.
func judgeC02(c *Case, tr *hx.Trace, w *ref.World) []Verdict {
	var out []Verdict
	v := Verdict{}
	if tr.Panic != nil {
		return []Verdict{{Sig: "C02:panic", What: fmt.Sprintf("engine panicked: %v", tr.Panic)}}
	}
	last := len(tr.Cycles) - 1
	for ci, cy := range tr.Cycles {
		reported := map[string]bool{}
		cand := map[string]bool{}
		for _, e := range cy.Evals {
			reported[e.Rule] = true
			cand[e.Rule] = e.Cand
		}
		incomplete := ci == last && tr.Err != nil // the cycle was cut short by an error return
		for _, name := range cy.ActiveModel {
			rr := cy.RefAt[name]
			if rr.Err != nil || !rr.True {
				continue
			}
			if cy.N > 1 {
				v.Nontrivial = true
			}
			if !reported[name] {
				if !incomplete {
					out = append(out, Verdict{Sig: depSig("C02:active-rule-not-evaluated", c.Meta), What: fmt.Sprintf("cycle %d: active rule %s (condition true) was not evaluated", cy.N, name)})
				}
				continue
			}
			if !cand[name] {
				out = append(out, Verdict{Sig: depSig("C02:satisfied-rule-not-candidate", c.Meta), What: fmt.Sprintf("cycle %d: rule %s is satisfied on the current facts but was reported as non-candidate", cy.N, name)})
			}
		}
	}
	if tr.Err == nil && !tr.Completed && len(tr.FinalCands) > 0 {
		out = append(out, Verdict{Sig: depSig("C02:nil-return-before-quiescence", c.Meta), What: fmt.Sprintf("Execute returned nil without Complete but rules %v are satisfied on the final facts", tr.FinalCands)})
	}
	out = append(out, v)
	return out
}

func c0102(rep *ev.Reporter, tier string, judge func(c *Case, tr *hx.Trace, w *ref.World) []Verdict) {
	nShapes, maxCycle := 99, uint64(4)
	bud := NewBudget(300 * time.Second)
	if tier == "thorough" {
		nShapes, maxCycle = 99, 6
		bud = NewBudget(9 * time.Minute)
	}
	locCount := map[string]int{}
	var locMu sync.Mutex
	gen := func(emit00 func(Case)) {
		emit0 := func(c Case) {
			if c.Meta != nil {
				locMu.Lock()
				locCount[c.Meta["loc"]]++
				locMu.Unlock()
			}
			emit00(c)
		}
		emit := func(c Case) {
			c.ReuseDC = true // applies to programs calling Forget / Changed
			c.Histories = true
			c.JSONProv = true
			emit0(c)
		}
		depMatrix(nShapes, maxCycle, emit)
		// aliased fact states (no further dimensions: the signatures stay one per location and same / other path)
		depAliasMatrix(maxCycle, func(c Case) { c.NoSplit = true; emit0(c) })
		general2(tier, maxCycle, emit)
		sharedRoles(8, emit)
		forgetCall(8, emit)
		forgetCallStr(8, emit)
		if tier == "thorough" {
			general3(5, emit)
		}
		// the same dependency matrix on knowledge bases that went through binary store + load (the
		// loader, not the builder, rebuilds the variable index there); quick: every 3rd cell
		n := 0
		depMatrix(nShapes, maxCycle, func(c Case) {
			n++
			if tier == "quick" && n%3 != 0 {
				return
			}
			c.ID = "reloaded/" + c.ID
			c.Reloaded = true
			if c.Meta != nil {
				m := map[string]string{}
				for k, v := range c.Meta {
					m[k] = v
				}
				m["loc"] = "reloaded-" + m["loc"]
				c.Meta = m
			}
			emit(c)
		})
		forgetCall(8, func(c Case) {
			c.ID = "reloaded/" + c.ID
			c.Reloaded = true
			m := map[string]string{}
			for k, v := range c.Meta {
				m[k] = v
			}
			m["loc"] = "reloaded-" + m["loc"]
			c.Meta = m
			emit(c)
		})
	}
	RunFamily(rep, gen, 1500, bud, judge)
	rep.Coverage["cases_by_location"] = locCount
	rep.Coverage["wide_program_runs"] = wideFamily(rep, rep.ID, judge)
	rep.Assumptions = append(rep.Assumptions,
		"fact states in which two names or two syntactic paths denote ONE Go object are included as a family of their own (coarse signatures): invalidation is by variable name, the other-path cells are a known finding, the same-path cells are controls; aliasing through selectors of one container is part of the main matrix",
		"fact methods in conditions are pure functions of their arguments; hidden receiver state changes are announced with Forget/Changed",
		"reference evaluator implements the documented semantics with standard-library reflection only")
}

func C01(rep *ev.Reporter, tier string) {
	c0102(rep, tier, judgeC01)
	rep.Coverage["rule"] = "dependency matrix: every (writer rule, reader rule) pair over 9 locations x every pair of syntactic paths denoting the location x 6 assignment forms (+Forget/Changed, pointer swap, container reads) x read shapes x direction of the flip x 3 salience relations, plus all 2-rule sets over a general condition/action alphabet, plus the matrix again on knowledge bases obtained by binary store + load; every rule order at every cycle, state-pruned. Oracle at every ExecuteRuleEntry: the reference evaluator run from scratch on the live facts says the fired rule's condition is true and the rule is active. Non-trivial: a firing in cycle >=2 (remembered values in play)."
}

func C02(rep *ev.Reporter, tier string) {
	c0102(rep, tier, judgeC02)
	rep.Coverage["rule"] = "same families as C01; oracle at every cycle start: every model-active rule whose condition is true per the reference evaluator is evaluated and reported as candidate; nil return without Complete implies no active rule is satisfied on the final facts. Non-trivial: a satisfied rule in cycle >=2."
}
