package checks

import (
	"fmt"

	"verif/internal/ev"
	"verif/internal/facts"
	"verif/internal/grl"
	"verif/internal/hx"
	"verif/internal/ref"
)

// wideFamily: knowledge bases of 24 rules (whatever grows with the number of rules - maps, candidate lists, caches
// with a threshold - is past its small-case behaviour). All 24! visiting orders cannot be enumerated; every program
// runs under four fixed orders per cycle (sorted, reversed, rotated, evens before odds) and is judged by the
// property's own judge against the lockstep reference model.
func wideFamily(rep *ev.Reporter, prop string, judge func(c *Case, tr *hx.Trace, w *ref.World) []Verdict) (runs int64) {
	var firings int64
	defer func() { rep.Coverage["wide_program_firings"] = firings }()
	const n = 24
	name := func(i int) string { return fmt.Sprintf("r%02d", i) }
	world := func() *ref.World {
		w := ref.NewWorld()
		f := facts.New()
		f.Arr = make([]int64, n)
		w.Objs["F"] = f
		return w
	}
	progs := map[string]func() []*grl.Rule{
		// a chain: rule i hands over to rule i+1; saliences run against the chain
		"chain": func() []*grl.Rule {
			var rs []*grl.Rule
			for i := 0; i < n; i++ {
				rs = append(rs, grl.R(name(i), grl.Sal(int64(i)), fmt.Sprintf("F.I == %d", i), fmt.Sprintf("F.I = %d", i+1)))
			}
			return rs
		},
		// all satisfied at once, distinct saliences in a scrambled relation to the names: descending salience decides
		"layers": func() []*grl.Rule {
			var rs []*grl.Rule
			for i := 0; i < n; i++ {
				rs = append(rs, grl.R(name(i), grl.Sal(int64((i*7)%n)), fmt.Sprintf("F.Arr[%d] == 0", i), fmt.Sprintf("F.Arr[%d] = 1", i), fmt.Sprintf(`F.S = F.S + "%d,"`, i)))
			}
			return rs
		},
		// one shared condition, equal saliences: exactly one firing per cycle, 24 cycles
		"shared": func() []*grl.Rule {
			var rs []*grl.Rule
			for i := 0; i < n; i++ {
				rs = append(rs, grl.R(name(i), nil, "F.I < 24 && F.Arr[F.I] == 0", "F.Arr[F.I] = 1", "F.I = F.I + 1"))
			}
			return rs
		},
		// each rule retracts its successor and itself: half of the rules never fire
		"retracting": func() []*grl.Rule {
			var rs []*grl.Rule
			for i := 0; i < n; i++ {
				rs = append(rs, grl.R(name(i), grl.Sal(int64(n-i)), "F.K >= 0", fmt.Sprintf("F.Arr[%d] = 1", i), fmt.Sprintf(`Retract("%s")`, name((i+1)%n)), fmt.Sprintf(`Retract("%s")`, name(i))))
			}
			return rs
		},
	}
	orders := map[string]func(keys []string) []int{
		"sorted": func(keys []string) []int {
			p := make([]int, len(keys))
			for i := range p {
				p[i] = i
			}
			return p
		},
		"reversed": func(keys []string) []int {
			p := make([]int, len(keys))
			for i := range p {
				p[i] = len(keys) - 1 - i
			}
			return p
		},
		"rotated": func(keys []string) []int {
			p := make([]int, len(keys))
			for i := range p {
				p[i] = (i + 7) % len(keys)
			}
			return p
		},
		"evens-first": func(keys []string) []int {
			var p []int
			for i := 0; i < len(keys); i += 2 {
				p = append(p, i)
			}
			for i := 1; i < len(keys); i += 2 {
				p = append(p, i)
			}
			return p
		},
	}
	for pn, mk := range progs {
		rules := mk()
		b, err := hx.Build(hx.NewProgram(rules, grl.Style{}))
		if err != nil {
			rep.Violation("harness:build-failed:wide/"+pn, err.Error(), nil)
			continue
		}
		c := &Case{ID: "wide/" + pn, Rules: rules, Meta: map[string]string{"loc": "wide-" + pn, "alias": "-", "form": "24-rules", "shape": pn}}
		for on, of := range orders {
			id := fmt.Sprintf("%s/wide/%s/%s", prop, pn, on)
			if rep.ReplayFilter != "" && rep.ReplayFilter != id {
				continue
			}
			once := func() []Verdict {
				w := world()
				tr := hx.Run(b, w, hx.RunOpts{MaxCycle: 30, OrderFn: of})
				return judge(c, tr, w)
			}
			runs++
			{
				w := world()
				firings += int64(hx.Run(b, w, hx.RunOpts{MaxCycle: 30, OrderFn: of}).Fired)
			}
			for _, v := range once() {
				if v.Sig == "" {
					continue
				}
				same := false
				for _, v2 := range once() {
					if v2.Sig == v.Sig {
						same = true
					}
				}
				if !same {
					fmt.Printf("HARNESS-NONDETERMINISM property=%s case=%s sig=%s\n", prop, id, v.Sig)
					continue
				}
				rep.Violation(v.Sig+":wide-program", v.What+"\n  case: "+id+" (24 rules, visiting order "+on+")", map[string]interface{}{"case": id, "grl": b.Prog.Text})
			}
		}
	}
	return
}
