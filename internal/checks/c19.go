package checks

import (
	"fmt"
	"math"
	"math/big"
	"reflect"
	"sort"
	"strings"
	"sync"
	"sync/atomic"
	"time"

	"github.com/hyperjumptech/grule-rule-engine/pkg"

	"verif/internal/ev"
	"verif/internal/facts"
	"verif/internal/grl"
	"verif/internal/hx"
	"verif/internal/ref"
)

type c19Val struct {
	rv    reflect.Value
	math  *big.Rat // exact mathematical value (numbers)
	label string
	f64ok bool // exactly representable in float64
	isInt bool
}

var c19Kinds = []reflect.Kind{reflect.Int, reflect.Int8, reflect.Int16, reflect.Int32, reflect.Int64,
	reflect.Uint, reflect.Uint8, reflect.Uint16, reflect.Uint32, reflect.Uint64, reflect.Float32, reflect.Float64}

func c19Candidates() []*big.Rat {
	var out []*big.Rat
	addI := func(i int64) { out = append(out, new(big.Rat).SetInt64(i)) }
	addF := func(f float64) {
		r, _ := new(big.Rat).SetString(big.NewFloat(f).Text('g', 60))
		r2 := new(big.Rat)
		r2.SetFloat64(f)
		_ = r
		out = append(out, r2)
	}
	for _, i := range []int64{0, 1, -1, 2, -2, 127, 128, -128, -129, 255, 256, 32767, 32768, -32768, 65535, 65536, 1<<31 - 1, 1 << 31, -(1 << 31), 1<<32 - 1, 1 << 32,
		1<<53 - 1, 1 << 53, 1<<53 + 1, -(1<<53 + 1), math.MaxInt64, math.MinInt64, 16777216, 16777217} {
		addI(i)
	}
	for _, f := range []float64{0.5, -0.5, 1.5, 1e-9, float64(float32(1e-9)), math.MaxFloat32, -math.MaxFloat32, 9.223372036854775807e18} {
		addF(f)
	}
	return out
}

// c19Make builds a value of kind k holding exactly r, if possible.
func c19Make(k reflect.Kind, r *big.Rat) (reflect.Value, bool) {
	t := map[reflect.Kind]reflect.Type{reflect.Int: reflect.TypeOf(int(0)), reflect.Int8: reflect.TypeOf(int8(0)), reflect.Int16: reflect.TypeOf(int16(0)), reflect.Int32: reflect.TypeOf(int32(0)), reflect.Int64: reflect.TypeOf(int64(0)),
		reflect.Uint: reflect.TypeOf(uint(0)), reflect.Uint8: reflect.TypeOf(uint8(0)), reflect.Uint16: reflect.TypeOf(uint16(0)), reflect.Uint32: reflect.TypeOf(uint32(0)), reflect.Uint64: reflect.TypeOf(uint64(0)),
		reflect.Float32: reflect.TypeOf(float32(0)), reflect.Float64: reflect.TypeOf(float64(0))}[k]
	v := reflect.New(t).Elem()
	switch k {
	case reflect.Int, reflect.Int8, reflect.Int16, reflect.Int32, reflect.Int64:
		if !r.IsInt() || !r.Num().IsInt64() {
			return v, false
		}
		i := r.Num().Int64()
		if v.OverflowInt(i) {
			return v, false
		}
		v.SetInt(i)
	case reflect.Uint, reflect.Uint8, reflect.Uint16, reflect.Uint32, reflect.Uint64:
		if !r.IsInt() || !r.Num().IsInt64() || r.Sign() < 0 { // within the int64 range
			return v, false
		}
		u := uint64(r.Num().Int64())
		if v.OverflowUint(u) {
			return v, false
		}
		v.SetUint(u)
	case reflect.Float32:
		f, exact := r.Float32()
		if !exact {
			return v, false
		}
		v.SetFloat(float64(f))
	case reflect.Float64:
		f, exact := r.Float64()
		if !exact {
			return v, false
		}
		v.SetFloat(f)
	}
	return v, true
}

func c19Wrap(v reflect.Value, mode int) reflect.Value {
	switch mode {
	case 1: // *T
		p := reflect.New(v.Type())
		p.Elem().Set(v)
		return p
	case 2: // **T
		p := reflect.New(v.Type())
		p.Elem().Set(v)
		pp := reflect.New(p.Type())
		pp.Elem().Set(p)
		return pp
	case 3: // interface{} holding T
		var i interface{} = v.Interface()
		return reflect.ValueOf(&i).Elem()
	}
	return v
}

type c19Ops struct{ lt, eq, gt, le, ge, ne bool }

func c19Apply(l, r reflect.Value) (o c19Ops, err error) {
	defer func() {
		if x := recover(); x != nil {
			err = fmt.Errorf("panic: %v", x)
		}
	}()
	get := func(f func(a, b reflect.Value) (reflect.Value, error)) bool {
		v, e := f(l, r)
		if e != nil {
			if err == nil {
				err = e
			}
			return false
		}
		if v.Kind() != reflect.Bool {
			if err == nil {
				err = fmt.Errorf("non-boolean result %v", v)
			}
			return false
		}
		return v.Bool()
	}
	o.lt = get(pkg.EvaluateLesserThan)
	o.eq = get(pkg.EvaluateEqual)
	o.gt = get(pkg.EvaluateGreaterThan)
	o.le = get(pkg.EvaluateLesserThanEqual)
	o.ge = get(pkg.EvaluateGreaterThanEqual)
	o.ne = get(pkg.EvaluateNotEqual)
	return
}

// c19Laws checks the laws on one ordered pair; cmp is the expected ordering (-1,0,1) or 2 when not judged.
func c19Laws(o, m c19Ops, cmp int, ordered bool) string {
	if ordered {
		n := 0
		for _, b := range []bool{o.lt, o.eq, o.gt} {
			if b {
				n++
			}
		}
		if n != 1 {
			return fmt.Sprintf("trichotomy (lt=%v eq=%v gt=%v)", o.lt, o.eq, o.gt)
		}
		if o.le != (o.lt || o.eq) {
			return fmt.Sprintf("le-is-lt-or-eq (le=%v lt=%v eq=%v)", o.le, o.lt, o.eq)
		}
		if o.ge != (o.gt || o.eq) {
			return fmt.Sprintf("ge-is-gt-or-eq (ge=%v gt=%v eq=%v)", o.ge, o.gt, o.eq)
		}
		if o.lt != m.gt || o.gt != m.lt || o.le != m.ge || o.ge != m.le {
			return fmt.Sprintf("mirror (l?r: %+v, r?l: %+v)", o, m)
		}
	}
	if o.ne != !o.eq {
		return fmt.Sprintf("ne-is-not-eq (ne=%v eq=%v)", o.ne, o.eq)
	}
	if o.eq != m.eq || o.ne != m.ne {
		return fmt.Sprintf("mirror-eq (l?r: %+v, r?l: %+v)", o, m)
	}
	if cmp != 2 {
		if o.eq != (cmp == 0) || (ordered && (o.lt != (cmp < 0) || o.gt != (cmp > 0))) {
			return fmt.Sprintf("value-dependence (expected ordering %d, got %+v)", cmp, o)
		}
	}
	return ""
}

func C19(rep *ev.Reporter, tier string) {
	var apps, pairs, nontrivial int64
	var mu sync.Mutex
	report := func(sig, what string, replay map[string]interface{}) {
		mu.Lock()
		rep.Violation(sig, what, replay)
		mu.Unlock()
	}
	// ---- numbers ----
	cands := c19Candidates()
	var nums []c19Val
	for _, k := range c19Kinds {
		for _, r := range cands {
			v, ok := c19Make(k, r)
			if !ok {
				continue
			}
			_, f64ok := r.Float64()
			nums = append(nums, c19Val{rv: v, math: r, label: fmt.Sprintf("%s(%s)", k, r.RatString()), f64ok: f64ok, isInt: k != reflect.Float32 && k != reflect.Float64})
		}
	}
	wrapName := []string{"T", "*T", "**T", "iface"}
	wrapPairs := [][2]int{{0, 0}, {1, 0}, {0, 1}, {2, 1}, {3, 0}, {0, 3}, {3, 3}, {1, 2}}
	if tier == "thorough" {
		wrapPairs = nil // all 16 wrapper pairs
		for a := 0; a < 4; a++ {
			for b := 0; b < 4; b++ {
				wrapPairs = append(wrapPairs, [2]int{a, b})
			}
		}
	}
	ParallelEach(len(nums), func(i int) {
		l := nums[i]
		for _, r := range nums {
			cmp := 2
			if (l.f64ok && r.f64ok) || (l.isInt && r.isInt) {
				cmp = l.math.Cmp(r.math)
			}
			for _, wp := range wrapPairs {
				lv, rv := c19Wrap(l.rv, wp[0]), c19Wrap(r.rv, wp[1])
				id := fmt.Sprintf("num/%s/%s/%s/%s", l.label, wrapName[wp[0]], r.label, wrapName[wp[1]])
				if rep.ReplayFilter != "" && rep.ReplayFilter != id {
					continue
				}
				o, err := c19Apply(lv, rv)
				m, err2 := c19Apply(rv, lv)
				atomic.AddInt64(&apps, 12)
				atomic.AddInt64(&pairs, 1)
				if l.rv.Kind() != r.rv.Kind() || wp[0] != wp[1] {
					atomic.AddInt64(&nontrivial, 1)
				}
				if err != nil || err2 != nil {
					report(fmt.Sprintf("C19:error:number:%s(%s)x%s(%s)", l.rv.Kind(), wrapName[wp[0]], r.rv.Kind(), wrapName[wp[1]]), fmt.Sprintf("%s: %v %v", id, err, err2), map[string]interface{}{"case": id})
					continue
				}
				if law := c19Laws(o, m, cmp, true); law != "" {
					report(fmt.Sprintf("C19:%s:number:%sx%s", strings.SplitN(law, " ", 2)[0], c19Fam(l.rv.Kind()), c19Fam(r.rv.Kind())), fmt.Sprintf("%s: %s", id, law), map[string]interface{}{"case": id})
				}
			}
		}
	})
	// ---- strings ----
	// incl. text that is not valid UTF-8 (Latin-1 bytes, a multi-byte character cut in the middle, binary keys) and
	// characters beyond the basic plane: strings are ordered byte-wise
	strs := []string{"", "a", "A", "ab", "b", "é", "\x00", "a\x00", "aa", "\xff", "\xfe", "caf\xe9", "caf\xe8", "\xe6\x97", "日本", "\ufffd", "😀", "z"}
	for _, a := range strs {
		for _, b := range strs {
			for _, wp := range wrapPairs[:4] {
				id := fmt.Sprintf("str/%q/%s/%q/%s", a, wrapName[wp[0]], b, wrapName[wp[1]])
				if rep.ReplayFilter != "" && rep.ReplayFilter != id {
					continue
				}
				lv, rv := c19Wrap(reflect.ValueOf(a), wp[0]), c19Wrap(reflect.ValueOf(b), wp[1])
				o, err := c19Apply(lv, rv)
				m, err2 := c19Apply(rv, lv)
				apps += 12
				pairs++
				nontrivial++
				if err != nil || err2 != nil {
					report("C19:error:string", fmt.Sprintf("%s: %v %v", id, err, err2), map[string]interface{}{"case": id})
					continue
				}
				if law := c19Laws(o, m, strings.Compare(a, b), true); law != "" {
					report("C19:"+strings.SplitN(law, " ", 2)[0]+":string", fmt.Sprintf("%s: %s", id, law), map[string]interface{}{"case": id})
				}
			}
		}
	}
	// ---- bools (only == and != are defined) ----
	for _, a := range []bool{false, true} {
		for _, b := range []bool{false, true} {
			for _, wp := range wrapPairs[:4] {
				id := fmt.Sprintf("bool/%v/%s/%v/%s", a, wrapName[wp[0]], b, wrapName[wp[1]])
				if rep.ReplayFilter != "" && rep.ReplayFilter != id {
					continue
				}
				lv, rv := c19Wrap(reflect.ValueOf(a), wp[0]), c19Wrap(reflect.ValueOf(b), wp[1])
				eq, e1 := pkg.EvaluateEqual(lv, rv)
				ne, e2 := pkg.EvaluateNotEqual(lv, rv)
				eqm, e3 := pkg.EvaluateEqual(rv, lv)
				apps += 3
				pairs++
				nontrivial++
				if e1 != nil || e2 != nil || e3 != nil {
					report("C19:error:bool", fmt.Sprintf("%s: %v %v %v", id, e1, e2, e3), map[string]interface{}{"case": id})
					continue
				}
				if eq.Bool() != (a == b) || ne.Bool() == eq.Bool() || eqm.Bool() != eq.Bool() {
					report("C19:bool-eq-ne", fmt.Sprintf("%s: eq=%v ne=%v mirrored eq=%v", id, eq.Bool(), ne.Bool(), eqm.Bool()), map[string]interface{}{"case": id})
				}
			}
		}
	}
	// ---- times ----
	type tv struct {
		t     time.Time
		label string
	}
	base := time.Date(2024, 2, 29, 12, 0, 0, 123456789, time.UTC)
	zone := time.FixedZone("X", 5*3600)
	now := time.Now() // carries a monotonic reading
	times := []tv{
		{base, "base-utc"}, {base.In(zone), "base-fixedzone"}, {base.In(time.Local), "base-local"}, {base.Add(time.Nanosecond), "base+1ns"}, {base.Add(-time.Nanosecond), "base-1ns"},
		{base.Add(time.Nanosecond).In(zone), "base+1ns-fixedzone"}, {time.Time{}, "zero"}, {time.Unix(0, 0), "epoch-local"}, {time.Unix(0, 0).UTC(), "epoch-utc"},
		// instants outside the range a 64-bit count of nanoseconds since 1970 can hold (1677..2262)
		{time.Date(9999, 12, 31, 23, 59, 59, 0, time.UTC), "year-9999"}, {time.Date(2300, 1, 1, 0, 0, 0, 0, time.UTC), "year-2300"}, {time.Date(1492, 10, 12, 0, 0, 0, 0, time.UTC), "year-1492"}, {time.Date(2262, 4, 11, 23, 47, 16, 854775807, time.UTC), "last-int64-nanosecond"}, {time.Date(2262, 4, 11, 23, 47, 16, 854775808, time.UTC), "one-past-int64-nanoseconds"},
		{now, "now-monotonic"}, {now.Round(0), "now-stripped"}, {now.UTC(), "now-utc"}, {now.In(zone), "now-fixedzone"},
	}
	for _, a := range times {
		for _, b := range times {
			for _, wp := range wrapPairs[:4] {
				id := fmt.Sprintf("time/%s/%s/%s/%s", a.label, wrapName[wp[0]], b.label, wrapName[wp[1]])
				if rep.ReplayFilter != "" && rep.ReplayFilter != id {
					continue
				}
				lv, rv := c19Wrap(reflect.ValueOf(a.t), wp[0]), c19Wrap(reflect.ValueOf(b.t), wp[1])
				o, err := c19Apply(lv, rv)
				m, err2 := c19Apply(rv, lv)
				apps += 12
				pairs++
				nontrivial++
				cls := "same-representation"
				if a.label != b.label {
					cls = "different-representation"
				}
				if err != nil || err2 != nil {
					report("C19:error:time", fmt.Sprintf("%s: %v %v", id, err, err2), map[string]interface{}{"case": id})
					continue
				}
				cmp := 0
				if a.t.Before(b.t) {
					cmp = -1
				} else if a.t.After(b.t) {
					cmp = 1
				}
				if law := c19Laws(o, m, cmp, true); law != "" {
					report("C19:"+strings.SplitN(law, " ", 2)[0]+":time:"+cls, fmt.Sprintf("%s: %s", id, law), map[string]interface{}{"case": id})
				}
			}
		}
	}
	// ---- the same laws through GRL conditions over typed fact fields ----
	grlN := c19GRL(rep, tier, report)
	grlN += c19Forms(rep, report)
	// times and strings through GRL conditions (F.T ? G.T, F.S ? G.S)
	{
		ops := []string{"<", "==", ">", "<=", ">=", "!="}
		var rules []*grl.Rule
		for oi, op := range ops {
			rules = append(rules, grl.R(fmt.Sprintf("t%d", oi), nil, "F.T "+op+" G.T", "F.I2 = 1"))
			rules = append(rules, grl.R(fmt.Sprintf("s%d", oi), nil, "F.S "+op+" G.S", "F.I2 = 1"))
		}
		if b, err := hx.Build(hx.NewProgram(rules, grl.Style{})); err == nil {
			run := func(id string, set func(f, g *facts.Fact), cmp int, fam string) {
				if rep.ReplayFilter != "" && rep.ReplayFilter != id {
					return
				}
				w := ref.NewWorld()
				f, g := facts.New(), facts.New()
				set(f, g)
				w.Objs["F"], w.Objs["G"] = f, g
				kb, err := b.Instance()
				if err != nil {
					return
				}
				res := hx.Fetch(kb, w, false, 0)
				got := map[string]bool{}
				for _, n := range res.Names {
					got[n] = true
				}
				p := fam[:1]
				var o c19Ops
				o.lt, o.eq, o.gt, o.le, o.ge, o.ne = got[p+"0"], got[p+"1"], got[p+"2"], got[p+"3"], got[p+"4"], got[p+"5"]
				m := c19Ops{lt: o.gt, gt: o.lt, le: o.ge, ge: o.le, eq: o.eq, ne: o.ne}
				grlN += 6
				if law := c19Laws(o, m, cmp, true); law != "" {
					report("C19:grl:"+strings.SplitN(law, " ", 2)[0]+":"+fam, fmt.Sprintf("%s: %s", id, law), map[string]interface{}{"case": id})
				}
			}
			for _, a := range times {
				for _, bb := range times {
					a, bb := a, bb
					cmp := 0
					if a.t.Before(bb.t) {
						cmp = -1
					} else if a.t.After(bb.t) {
						cmp = 1
					}
					run("grl/time/"+a.label+"/"+bb.label, func(f, g *facts.Fact) { f.T, g.T = a.t, bb.t }, cmp, "time")
				}
			}
			for _, a := range strs {
				for _, bb := range strs {
					a, bb := a, bb
					run(fmt.Sprintf("grl/string/%q/%q", a, bb), func(f, g *facts.Fact) { f.S, g.S = a, bb }, strings.Compare(a, bb), "string")
				}
			}
		}
	}
	rep.Coverage["evaluations"] = apps
	rep.Coverage["states"] = pairs
	rep.Coverage["transitions"] = apps
	rep.Coverage["traces_validated_against_impl"] = grlN
	rep.Coverage["distinct_nontrivial"] = nontrivial
	rep.Coverage["number_values"] = len(nums)
	rep.Coverage["grl_condition_evaluations"] = grlN
	var ex []string
	for i := 0; i < len(nums); i += 37 {
		ex = append(ex, nums[i].label)
	}
	sort.Strings(ex)
	rep.Sample(map[string]interface{}{"number_operands_every_37th": ex})
	rep.Coverage["rule"] = "complete table: every ordered pair of number operands (12 Go kinds x every boundary value exactly representable in the kind and inside the int64 range: 0, +-1, +-2, width limits and their neighbours, +-(2^53+-1), Max/MinInt64, 2^24(+1), fractions, 1e-9, +-MaxFloat32) x wrapper pairs (T, *T, **T, interface{}), every pair of 9 strings, 2 bools, 18 time values (same instant in UTC / fixed zone / Local / with monotonic reading / stripped, +-1ns, zero, epoch, years 1492 / 2300 / 9999 and the two instants around the end of the int64-nanosecond range) - all six operators each way on pkg.Evaluate*; states = operand pairs, transitions = operator applications. Laws: trichotomy, <= is < or ==, >= is > or ==, != is not ==, mirror under swap, and the outcome equals the comparison of the exact mathematical values (big.Rat) whenever both are exactly representable in float64 or both are integers. Plus the same laws through GRL conditions over typed fact fields (every kind pair x 3 value pairs x 6 operators, FetchMatchingRules). Non-trivial: operands of different kinds/wrappers, strings, times."
	rep.Assumptions = append(rep.Assumptions, "uint64 values above MaxInt64 are outside the quantifier; NaN operands are judged through GRL conditions only (all operators but != false)", "for int x float pairs not exactly representable in float64 only the consistency laws are judged (the documented int->float promotion is lossy there)")
}

func c19Fam(k reflect.Kind) string {
	switch k {
	case reflect.Float32, reflect.Float64:
		return "float"
	case reflect.Uint, reflect.Uint8, reflect.Uint16, reflect.Uint32, reflect.Uint64:
		return "uint"
	}
	return "int"
}

var c19Fields = []string{"I", "I8", "I16", "I32", "In", "U", "U8", "U16", "U32", "Un", "F", "F32"}

func c19Set(f *facts.Fact, field string, v float64) bool {
	rv := reflect.ValueOf(f).Elem().FieldByName(field)
	switch rv.Kind() {
	case reflect.Int, reflect.Int8, reflect.Int16, reflect.Int32, reflect.Int64:
		if v != math.Trunc(v) || math.IsInf(v, 0) || rv.OverflowInt(int64(v)) {
			return false
		}
		rv.SetInt(int64(v))
	case reflect.Uint, reflect.Uint8, reflect.Uint16, reflect.Uint32, reflect.Uint64:
		if v != math.Trunc(v) || math.IsInf(v, 0) || v < 0 || rv.OverflowUint(uint64(v)) {
			return false
		}
		rv.SetUint(uint64(v))
	default:
		if rv.Kind() == reflect.Float32 && float64(float32(v)) != v && !math.IsNaN(v) {
			return false
		}
		rv.SetFloat(v)
	}
	return true
}

// c19GRL checks the laws through real GRL conditions: 6 rules (one per operator) per field pair.
func c19GRL(rep *ev.Reporter, tier string, report func(sig, what string, replay map[string]interface{})) int64 {
	valuePairs := [][2]float64{{1, 2}, {2, 1}, {100, 100}, {0, 0}, {127, 127}, {1.5, 1}, {-1, 1}, {-128, 127}, {255, 256}}
	if tier == "thorough" {
		valuePairs = append(valuePairs, [2]float64{32767, 32768}, [2]float64{-32768, -32769}, [2]float64{65535, 65536}, [2]float64{2147483647, 2147483648}, [2]float64{4294967295, 4294967296}, [2]float64{0.5, 0.5}, [2]float64{-0.5, 0}, [2]float64{16777216, 16777217}, [2]float64{9007199254740992, 9007199254740993})
	}
	// NaN and the infinities (float fields only; c19Set refuses them for integer kinds): the consistency laws
	// hold for them in Go - none of <, ==, > holds with a NaN operand, so <= and >= are false and != is true
	nan, inf := math.NaN(), math.Inf(1)
	valuePairs = append(valuePairs, [2]float64{nan, 1}, [2]float64{1, nan}, [2]float64{nan, nan}, [2]float64{inf, nan}, [2]float64{inf, inf}, [2]float64{-inf, inf}, [2]float64{1, -inf})
	var n int64
	type job struct{ lf, rf string }
	var jobs []job
	for _, lf := range c19Fields {
		for _, rf := range c19Fields {
			jobs = append(jobs, job{lf, rf})
		}
	}
	ops := []string{"<", "==", ">", "<=", ">=", "!="}
	ParallelEach(len(jobs), func(i int) {
		j := jobs[i]
		var rules []*grl.Rule
		for oi, op := range ops {
			rules = append(rules, grl.R(fmt.Sprintf("op%d", oi), nil, fmt.Sprintf("F.%s %s G.%s", j.lf, op, j.rf), "F.I2 = 1"))
		}
		b, err := hx.Build(hx.NewProgram(rules, grl.Style{}))
		if err != nil {
			report("harness:build-failed:c19grl", err.Error(), nil)
			return
		}
		for _, vp := range valuePairs {
			id := fmt.Sprintf("grl/F.%s=%v/G.%s=%v", j.lf, vp[0], j.rf, vp[1])
			if rep.ReplayFilter != "" && rep.ReplayFilter != id {
				continue
			}
			w := ref.NewWorld()
			f, g := facts.New(), facts.New()
			if !c19Set(f, j.lf, vp[0]) || !c19Set(g, j.rf, vp[1]) {
				continue
			}
			w.Objs["F"], w.Objs["G"] = f, g
			kb, err := b.Instance()
			if err != nil {
				report("C19:instance-failed", err.Error(), nil)
				return
			}
			res := hx.Fetch(kb, w, true, 0)
			atomic.AddInt64(&n, 6)
			if res.Err != nil || res.Panic != nil {
				report("C19:grl-error:"+j.lf+"x"+j.rf, fmt.Sprintf("%s: %v %v", id, res.Err, res.Panic), map[string]interface{}{"case": id})
				continue
			}
			got := map[string]bool{}
			for _, nme := range res.Names {
				got[nme] = true
			}
			var o c19Ops
			o.lt, o.eq, o.gt, o.le, o.ge, o.ne = got["op0"], got["op1"], got["op2"], got["op3"], got["op4"], got["op5"]
			cmp := 0
			if vp[0] < vp[1] {
				cmp = -1
			} else if vp[0] > vp[1] {
				cmp = 1
			}
			m := c19Ops{lt: o.gt, gt: o.lt, le: o.ge, ge: o.le, eq: o.eq, ne: o.ne} // mirror checked on pkg level
			if math.IsNaN(vp[0]) || math.IsNaN(vp[1]) {
				// unordered pair: none of <, ==, > (hence neither <= nor >=), and != holds
				if o.lt || o.eq || o.gt || o.le || o.ge || !o.ne {
					report("C19:grl:nan-operand:"+j.lf+"x"+j.rf, fmt.Sprintf("%s: with a NaN operand every operator but != is false in Go (and <= is < or ==, >= is > or ==, != is not ==); got %+v", id, o), map[string]interface{}{"case": id})
				}
				continue
			}
			if law := c19Laws(o, m, cmp, true); law != "" {
				report("C19:grl:"+strings.SplitN(law, " ", 2)[0]+":"+j.lf+"x"+j.rf, fmt.Sprintf("%s: %s", id, law), map[string]interface{}{"case": id})
			}
		}
	})
	return n
}

// c19Forms: the outcome of a comparison does not depend on the FORM of an operand - a field, the same number
// written as a literal, a bracketed or computed expression, a value behind a pointer - nor on which side the
// literal stands. Every ordered pair of 10 signed 64-bit values incl. the ends of the range and pairs whose
// difference does not fit 64 bits x 5 forms of either operand x 6 operators, through real GRL conditions.
// Oracle: Go's comparison of the two values.
func c19Forms(rep *ev.Reporter, report func(sig, what string, replay map[string]interface{})) int64 {
	vals := []int64{0, 1, -2, 7, math.MaxInt64, -math.MaxInt64, math.MinInt64, 5000000000000000000, -5000000000000000000, math.MaxInt32}
	// form(side, value) -> GRL text, or "" when the value cannot be written that way
	forms := []struct {
		name string
		text func(obj string, v int64) string
	}{
		{"field", func(obj string, v int64) string { return obj + ".I" }},
		{"literal", func(obj string, v int64) string {
			if v == math.MinInt64 {
				return "" // not writable as a literal
			}
			return fmt.Sprint(v)
		}},
		{"bracketed-field", func(obj string, v int64) string { return "(" + obj + ".I)" }},
		{"field-plus-zero", func(obj string, v int64) string { return obj + ".I + 0" }},
		{"behind-pointer", func(obj string, v int64) string { return obj + ".PI" }},
	}
	ops := []string{"<", "==", ">", "<=", ">=", "!="}
	type job struct{ a, b int64 }
	var jobs []job
	for _, a := range vals {
		for _, b := range vals {
			jobs = append(jobs, job{a, b})
		}
	}
	var n int64
	ParallelEach(len(jobs), func(i int) {
		j := jobs[i]
		var rules []*grl.Rule
		want := map[string]bool{}
		label := map[string]string{}
		for li, lf := range forms {
			for ri, rf := range forms {
				lt, rt := lf.text("F", j.a), rf.text("G", j.b)
				if lt == "" || rt == "" {
					continue
				}
				for oi, op := range ops {
					name := fmt.Sprintf("r%d_%d_%d", li, ri, oi)
					cond := lt + " " + op + " " + rt
					rules = append(rules, grl.R(name, nil, cond, "F.I2 = 1"))
					label[name] = lf.name + " " + op + " " + rf.name + ": " + cond
					switch op {
					case "<":
						want[name] = j.a < j.b
					case "==":
						want[name] = j.a == j.b
					case ">":
						want[name] = j.a > j.b
					case "<=":
						want[name] = j.a <= j.b
					case ">=":
						want[name] = j.a >= j.b
					default:
						want[name] = j.a != j.b
					}
				}
			}
		}
		id := fmt.Sprintf("grl/forms/%d/%d", j.a, j.b)
		if rep.ReplayFilter != "" && rep.ReplayFilter != id {
			return
		}
		b, err := hx.Build(hx.NewProgram(rules, grl.Style{}))
		if err != nil {
			report("harness:build-failed:c19forms", id+": "+err.Error(), nil)
			return
		}
		kb, err := b.Instance()
		if err != nil {
			report("C19:instance-failed", err.Error(), nil)
			return
		}
		w := ref.NewWorld()
		f, g := facts.New(), facts.New()
		f.I, g.I = j.a, j.b
		pa, pb := j.a, j.b
		f.PI, g.PI = &pa, &pb
		w.Objs["F"], w.Objs["G"] = f, g
		res := hx.Fetch(kb, w, true, 0)
		atomic.AddInt64(&n, int64(len(rules)))
		if res.Err != nil || res.Panic != nil {
			report("C19:grl-error:operand-forms", fmt.Sprintf("%s: %v %v", id, res.Err, res.Panic), map[string]interface{}{"case": id})
			return
		}
		got := map[string]bool{}
		for _, nme := range res.Names {
			got[nme] = true
		}
		for _, r := range rules {
			if got[r.Name] != want[r.Name] {
				p := strings.SplitN(label[r.Name], ":", 2)
				report("C19:grl:outcome-depends-on-operand-form:"+p[0], fmt.Sprintf("%s (F.I = %d, G.I = %d):%s evaluates to %v, the values compare %v", id, j.a, j.b, p[1], got[r.Name], want[r.Name]), map[string]interface{}{"case": id})
			}
		}
	})
	return n
}
