package checks

import (
	"bytes"
	"context"
	"encoding/json"
	"fmt"
	"os"
	"os/exec"
	"sort"
	"strings"
	"sync"
	"time"

	"github.com/hyperjumptech/grule-rule-engine/ast"
	"github.com/hyperjumptech/grule-rule-engine/builder"
	"github.com/hyperjumptech/grule-rule-engine/pkg"

	"verif/internal/ev"
	"verif/internal/facts"
	"verif/internal/grl"
	"verif/internal/hx"
	"verif/internal/ref"
)

// rule texts: id -> (name, GRL)
var c16Texts = map[string]struct{ name, grl string }{
	"X1": {"X", `rule X salience 2 { when F.I2 < 1 then F.I2 = F.I2 + 1; F.S = F.S + "x1"; }`},
	"X2": {"X", `rule X salience 2 { when F.I2 < 1 then F.I2 = F.I2 + 1; F.S = F.S + "x2"; }`},
	"Y":  {"Y", `rule Y { when F.K < 1 then F.K = F.K + 1; F.S = F.S + "y"; }`},
	// a rule with a syntax error; only ever built as the tail of a resource whose other rules are duplicates,
	// so that the resource adds nothing whatever the builder does with the rules preceding an error
	"BAD": {"", `rule Z { when F.K < then F.K = F.K + 1; }`},
}

type c16KBKey struct{ name, ver string }

type c16Op struct {
	kind string // build removelib storeload
	kb   int
	arg  string // text ids joined by "+" / rule name
}

func (o c16Op) String() string { return fmt.Sprintf("%s[%d](%s)", o.kind, o.kb, o.arg) }

// model state per knowledge base
type c16KBState struct {
	active map[string]string // rule name -> text id
	dirty  bool              // a build was rejected here
	exists bool
	stored int               // checkpoint (store without load): 0 none, 1 taken and nothing changed since, 2 taken and the knowledge base changed afterwards
	inst   int               // an instance was created and executed in the middle of the history: 0 never, 1 and nothing changed since, 2 and the knowledge base changed afterwards
	ckpt   map[string]string // rules in the last checkpoint stream (nil: none taken)
	tomb   string            // names removed through the library so far, sorted (implementation state the active set does not show: tombstones)
}

type c16State struct{ kbs []c16KBState }

func (s *c16State) clone() *c16State {
	c := &c16State{}
	for _, k := range s.kbs {
		n := c16KBState{active: map[string]string{}, dirty: k.dirty, exists: k.exists, stored: k.stored, inst: k.inst, tomb: k.tomb}
		for a, b := range k.active {
			n.active[a] = b
		}
		if k.ckpt != nil {
			n.ckpt = map[string]string{}
			for a, b := range k.ckpt {
				n.ckpt[a] = b
			}
		}
		c.kbs = append(c.kbs, n)
	}
	return c
}

func (s *c16State) key() string {
	var parts []string
	for _, k := range s.kbs {
		var a []string
		for n, t := range k.active {
			a = append(a, n+"="+t)
		}
		sort.Strings(a)
		ck := "-"
		if k.ckpt != nil {
			var c []string
			for n, t := range k.ckpt {
				c = append(c, n+"="+t)
			}
			sort.Strings(c)
			ck = "[" + strings.Join(c, ",") + "]"
		}
		parts = append(parts, fmt.Sprintf("%v/%v/%v/%v/%s/%s/%s", k.exists, k.dirty, k.stored, k.inst, strings.Join(a, ","), ck, k.tomb))
	}
	return strings.Join(parts, " | ")
}

// apply returns the new model state and whether a build must be rejected.
func (s *c16State) apply(o c16Op) (ns *c16State, wantErr bool) {
	ns = s.clone()
	k := &ns.kbs[o.kb]
	switch o.kind {
	case "build":
		k.exists = true
		for _, id := range strings.Split(o.arg, "+") {
			t := c16Texts[id]
			if id == "BAD" {
				wantErr = true
				k.dirty = true
				continue
			}
			if _, dup := k.active[t.name]; dup {
				wantErr = true
				k.dirty = true
				continue
			}
			k.active[t.name] = id
			if k.stored == 1 {
				k.stored = 2
			}
			if k.inst == 1 {
				k.inst = 2
			}
		}
	case "buildmulti":
		// BuildRuleFromResources: one resource per part, in order; the call ends at the first failing resource
		k.exists = true
		for _, id := range strings.Split(o.arg, "|") {
			t := c16Texts[id]
			if _, dup := k.active[t.name]; dup {
				wantErr = true
				k.dirty = true
				break
			}
			k.active[t.name] = id
			if k.stored == 1 {
				k.stored = 2
			}
			if k.inst == 1 {
				k.inst = 2
			}
		}
	case "removelib":
		if _, ok := k.active[o.arg]; ok && k.stored == 1 {
			k.stored = 2
		}
		if _, ok := k.active[o.arg]; ok && k.inst == 1 {
			k.inst = 2
		}
		if _, ok := k.active[o.arg]; ok && !strings.Contains(k.tomb, o.arg) {
			t := append(strings.Fields(k.tomb), o.arg)
			sort.Strings(t)
			k.tomb = strings.Join(t, " ")
		}
		delete(k.active, o.arg)
	case "store":
		k.stored = 1
		k.ckpt = map[string]string{}
		for a, b := range k.active {
			k.ckpt[a] = b
		}
	case "loadkeep":
		// the checkpoint stream loaded with overwrite=false over the knowledge base that exists: refused, nothing changes
		wantErr = true
	case "loadover":
		// ... with overwrite=true: the library entry becomes what the stream holds
		k.active = map[string]string{}
		for a, b := range k.ckpt {
			k.active[a] = b
		}
		k.stored = 0
		k.inst = 0
	case "instantiate":
		k.inst = 1
	case "storeload":
		k.stored = 0 // the library entry is replaced by the loaded object
		k.inst = 0
	}
	return
}

func c16World() *ref.World {
	w := ref.NewWorld()
	w.Objs["F"] = facts.New()
	return w
}

// c16Observe: FetchMatchingRules + Execute of one instance.
func c16Observe(kb *ast.KnowledgeBase) string {
	res := hx.Fetch(kb, c16World(), false, 0)
	names := append([]string{}, res.Names...)
	w := c16World()
	tr := hx.RunOn(&hx.Program{ByName: map[string]*grl.Rule{}}, kb, w, hx.RunOpts{MaxCycle: 6, NoSnapshots: true}, nil)
	var evs []string
	for _, e := range tr.Events {
		if !strings.Contains(e, "Deleted_") {
			evs = append(evs, e)
		}
	}
	return fmt.Sprintf("fetch=%v err=%v | %s | S=%q panic=%v", names, res.Err, hx.Evs(evs), w.Objs["F"].S, tr.Panic)
}

var c16RefCache sync.Map

// c16Reference: behaviour of the given texts built alone in a fresh library.
func c16Reference(ids []string) string {
	sort.Strings(ids)
	key := strings.Join(ids, "+")
	if v, ok := c16RefCache.Load(key); ok {
		return v.(string)
	}
	out := "fetch=[] err=<nil> | B1 ret:nil | S=\"\" panic=<nil>"
	if len(ids) > 0 {
		lib := ast.NewKnowledgeLibrary()
		rb := builder.NewRuleBuilder(lib)
		for _, id := range ids {
			if err := rb.BuildRuleFromResource("R", "1", pkg.NewBytesResource([]byte(c16Texts[id].grl))); err != nil {
				return "reference build failed: " + err.Error()
			}
		}
		kb, err := lib.NewKnowledgeBaseInstance("R", "1")
		if err != nil {
			return "reference instance failed: " + err.Error()
		}
		out = c16Observe(kb)
	}
	c16RefCache.Store(key, out)
	return out
}

func c16ActiveIDs(k c16KBState, without string) []string {
	var ids []string
	for n, t := range k.active {
		if n != without {
			ids = append(ids, t)
		}
	}
	sort.Strings(ids)
	return ids
}

// c16Replay runs a history on a fresh library; returns the library and, per op, the build error.
func c16Replay(keys []c16KBKey, hist []c16Op) (*ast.KnowledgeLibrary, []error, error) {
	lib := ast.NewKnowledgeLibrary()
	errs := make([]error, len(hist))
	streams := map[int][]byte{}
	for i, o := range hist {
		kk := keys[o.kb]
		switch o.kind {
		case "build":
			var parts []string
			for _, id := range strings.Split(o.arg, "+") {
				parts = append(parts, c16Texts[id].grl)
			}
			func() {
				defer func() {
					if r := recover(); r != nil {
						errs[i] = fmt.Errorf("panic: %v", r)
					}
				}()
				errs[i] = builder.NewRuleBuilder(lib).BuildRuleFromResource(kk.name, kk.ver, pkg.NewBytesResource([]byte(strings.Join(parts, "\n"))))
			}()
		case "buildmulti":
			var rs []pkg.Resource
			for _, id := range strings.Split(o.arg, "|") {
				rs = append(rs, pkg.NewBytesResource([]byte(c16Texts[id].grl)))
			}
			func() {
				defer func() {
					if r := recover(); r != nil {
						errs[i] = fmt.Errorf("panic: %v", r)
					}
				}()
				errs[i] = builder.NewRuleBuilder(lib).BuildRuleFromResources(kk.name, kk.ver, rs)
			}()
		case "removelib":
			lib.RemoveRuleEntry(o.arg, kk.name, kk.ver)
		case "store":
			var buf bytes.Buffer
			if err := lib.StoreKnowledgeBaseToWriter(&buf, kk.name, kk.ver); err != nil {
				return lib, errs, fmt.Errorf("store: %w", err)
			}
			streams[o.kb] = buf.Bytes()
		case "loadkeep":
			_, errs[i] = lib.LoadKnowledgeBaseFromReader(bytes.NewReader(streams[o.kb]), false)
		case "loadover":
			if _, err := lib.LoadKnowledgeBaseFromReader(bytes.NewReader(streams[o.kb]), true); err != nil {
				return lib, errs, fmt.Errorf("load (overwrite) of the checkpoint stream: %w", err)
			}
		case "instantiate":
			// an instance is created and used in the MIDDLE of the history (whatever the library caches
			// on that occasion is in place for the operations that follow)
			if inst, err := lib.NewKnowledgeBaseInstance(kk.name, kk.ver); err == nil {
				c16Observe(inst)
			}
		case "storeload":
			var buf bytes.Buffer
			if err := lib.StoreKnowledgeBaseToWriter(&buf, kk.name, kk.ver); err != nil {
				return lib, errs, fmt.Errorf("store: %w", err)
			}
			if _, err := lib.LoadKnowledgeBaseFromReader(bytes.NewReader(buf.Bytes()), true); err != nil {
				return lib, errs, fmt.Errorf("load of the just stored stream: %w", err)
			}
		}
	}
	return lib, errs, nil
}

func C16(rep *ev.Reporter, tier string) {
	bud := NewBudget(150 * time.Second)
	depth := 4
	if tier == "thorough" {
		bud = NewBudget(9 * time.Minute)
		depth = 6
	}
	type space struct {
		name string
		keys []c16KBKey
	}
	spaces := []space{
		{"two-versions", []c16KBKey{{"A", "1"}, {"A", "2"}}},
		{"separator-collision", []c16KBKey{{"a:b", "c"}, {"a", "b:c"}}},
	}
	var states, transitions, histories int
	var mu sync.Mutex
	report := func(sig, what string, hist []c16Op, sp string) {
		var hs []string
		for _, o := range hist {
			hs = append(hs, o.String())
		}
		mu.Lock()
		rep.Violation(sig, what+"\n  history ("+sp+"): "+strings.Join(hs, " ; "), map[string]interface{}{"case": "c16/" + sp + "/" + strings.Join(hs, ";"), "history": hs})
		mu.Unlock()
	}
	for _, sp := range spaces {
		var ops []c16Op
		for kb := range sp.keys {
			// incl. resources that pair a rule with a verbatim copy of itself or with a rule the knowledge base may hold already
			for _, t := range []string{"X1", "X2", "Y", "X1+X2", "Y+X1", "X1+X1"} {
				ops = append(ops, c16Op{"build", kb, t})
			}
			ops = append(ops, c16Op{"build", kb, "X2+BAD"}) // enabled only while X exists (see below)
			ops = append(ops, c16Op{"buildmulti", kb, "X2|Y"}, c16Op{"buildmulti", kb, "Y|X1"})
			for _, n := range []string{"X", "Y"} {
				ops = append(ops, c16Op{"removelib", kb, n})
			}
			ops = append(ops, c16Op{"storeload", kb, ""})
			ops = append(ops, c16Op{"store", kb, ""}) // checkpoint: store without loading
			ops = append(ops, c16Op{"loadkeep", kb, ""}, c16Op{"loadover", kb, ""})
			ops = append(ops, c16Op{"instantiate", kb, ""})
		}
		init := &c16State{}
		for range sp.keys {
			init.kbs = append(init.kbs, c16KBState{active: map[string]string{}})
		}
		type node struct {
			st   *c16State
			hist []c16Op
		}
		seen := map[string]bool{init.key(): true}
		frontier := []node{{init, nil}}
		states++
		for d := 0; d < depth && len(frontier) > 0; d++ {
			type job struct {
				n  node
				op c16Op
			}
			var jobs []job
			for _, n := range frontier {
				for _, o := range ops {
					k := n.st.kbs[o.kb]
					if (o.kind == "storeload" || o.kind == "removelib" || o.kind == "store" || o.kind == "instantiate") && !k.exists {
						continue
					}
					if _, hasX := k.active["X"]; o.arg == "X2+BAD" && !hasX {
						continue
					}
					if (o.kind == "loadkeep" || o.kind == "loadover") && k.ckpt == nil {
						continue
					}
					jobs = append(jobs, job{n, o})
				}
			}
			results := make([]*node, len(jobs))
			ParallelEach(len(jobs), func(ji int) {
				j := jobs[ji]
				hist := append(append([]c16Op{}, j.n.hist...), j.op)
				var hs []string
				for _, o := range hist {
					hs = append(hs, o.String())
				}
				caseID := "c16/" + sp.name + "/" + strings.Join(hs, ";")
				if rep.ReplayFilter != "" && !strings.HasPrefix(rep.ReplayFilter, caseID) {
					// still need the successor for deeper replays
				}
				if bud.Over() {
					return
				}
				ns, wantErr := j.n.st.apply(j.op)
				results[ji] = &node{ns, hist}
				if rep.ReplayFilter != "" && rep.ReplayFilter != caseID {
					return
				}
				opClass := j.op.kind
				if (j.op.kind == "build" || j.op.kind == "buildmulti") && wantErr {
					opClass = "rejected-build"
				}
				type viol struct{ sig, what string }
				checkWith := func(keys []c16KBKey) []viol {
					var vs []viol
					add := func(sig, what string, _ []c16Op, _ string) { vs = append(vs, viol{sig, what}) }
					report := add
					_ = report
					lib, errs, rerr := c16Replay(keys, hist)
					if rerr != nil {
						report("C16:store-load-fails:after-"+c16HistClass(j.n.hist, j.op), rerr.Error(), hist, sp.name)
						return vs
					}
					if j.op.kind == "build" || j.op.kind == "buildmulti" {
						got := errs[len(hist)-1]
						if (got != nil) != wantErr {
							report("C16:build-error-mismatch:"+j.op.arg, fmt.Sprintf("model says duplicate=%v, BuildRuleFromResource returned %v", wantErr, got), hist, sp.name)
						}
					}
					for ki, kk := range keys {
						ks := ns.kbs[ki]
						if !ks.exists {
							continue
						}
						want := c16Reference(c16ActiveIDs(ks, ""))
						cls := c16HistClass(j.n.hist, j.op)
						if ki != j.op.kb {
							cls = "other-kb:" + cls
						}
						inst, err := lib.NewKnowledgeBaseInstance(kk.name, kk.ver)
						if err != nil {
							report("C16:instance-fails:after-"+cls, fmt.Sprintf("NewKnowledgeBaseInstance(%s,%s): %v", kk.name, kk.ver, err), hist, sp.name)
							continue
						}
						if got := c16Observe(inst); got != want {
							report("C16:behaviour-differs:after-"+cls, fmt.Sprintf("knowledge base %s/%s (model: active %v) behaves\n   %s\n  but its active rule texts built alone behave\n   %s", kk.name, kk.ver, c16ActiveIDs(ks, ""), got, want), hist, sp.name)
							continue
						}
						// removal while the instance is executing (from a listener callback at the start of
						// cycle 1 / cycle 2): from then on the rule is neither evaluated nor fired
						for name := range ks.active {
							for _, at := range []string{"B1", "B2"} {
								ix, _ := lib.NewKnowledgeBaseInstance(kk.name, kk.ver)
								w := c16World()
								removed := false
								var after []string
								hx.RunOn(&hx.Program{ByName: map[string]*grl.Rule{}}, ix, w, hx.RunOpts{MaxCycle: 6, NoSnapshots: true, OnEvent: func(e string) {
									if removed && (strings.HasSuffix(e, ":"+name) || strings.Contains(e, ":"+name+":") || strings.Contains(e, "Deleted_"+name)) {
										after = append(after, e)
									}
									if e == at && !removed {
										ix.RemoveRuleEntry(name)
										removed = true
									}
								}}, nil)
								if len(after) > 0 {
									report("C16:rule-removed-during-execute-still-evaluated-or-fired:"+at, fmt.Sprintf("RemoveRuleEntry(%s) was called on the running instance at %s, yet these events followed: %v", name, at, after), hist, sp.name)
								}
							}
						}
						// instance-level removal affects only that instance
						for name := range ks.active {
							i1, _ := lib.NewKnowledgeBaseInstance(kk.name, kk.ver)
							i2, _ := lib.NewKnowledgeBaseInstance(kk.name, kk.ver)
							i1.RemoveRuleEntry(name)
							if got := c16Observe(i1); got != c16Reference(c16ActiveIDs(ks, name)) {
								report("C16:instance-removal-ineffective:"+opClass, fmt.Sprintf("after RemoveRuleEntry(%s) on an instance it behaves %s", name, got), hist, sp.name)
							}
							if got := c16Observe(i2); got != want {
								report("C16:instance-removal-leaks-to-other-instance:"+opClass, fmt.Sprintf("removing %s on one instance changed another: %s", name, got), hist, sp.name)
							}
							i3, err := lib.NewKnowledgeBaseInstance(kk.name, kk.ver)
							if err != nil || c16Observe(i3) != want {
								report("C16:instance-removal-leaks-to-blueprint:"+opClass, fmt.Sprintf("removing %s on an instance changed the library's blueprint (%v)", name, err), hist, sp.name)
							}
						}
					}
					return vs
				}
				vs := checkWith(sp.keys)

				if len(vs) > 0 && sp.name == "separator-collision" {
					// the same history on two knowledge bases whose keys do not collide: what also
					// fails there is reported as such, the rest is the key collision
					plain := map[string]bool{}
					for _, v := range checkWith([]c16KBKey{{"A", "1"}, {"A", "2"}}) {
						plain[v.sig] = true
					}
					var out []viol
					collided := false
					for _, v := range vs {
						if plain[v.sig] {
							out = append(out, v)
						} else if !collided {
							collided = true
							out = append(out, viol{`C16:knowledge-base-key-collision:"a:b"|"c"~"a"|"b:c"`, "knowledge bases (a:b, c) and (a, b:c) are one library entry (key \"a:b:c\"): " + v.what})
						}
					}
					vs = out
				}
				for _, v := range vs {
					report(v.sig, v.what, hist, sp.name)
				}
			})
			var next []node
			for _, r := range results {
				if r == nil {
					continue
				}
				transitions++
				histories++
				k := r.st.key()
				if !seen[k] {
					seen[k] = true
					states++
					next = append(next, *r)
					if states%40 == 1 {
						var hs []string
						for _, o := range r.hist {
							hs = append(hs, o.String())
						}
						rep.Sample(map[string]interface{}{"space": sp.name, "history": hs, "model_state": k})
					}
				}
			}
			frontier = next
		}
	}
	rep.Coverage["states"] = states
	rep.Coverage["transitions"] = transitions
	rep.Coverage["evaluations"] = histories
	rep.Coverage["traces_validated_against_impl"] = histories
	rep.Coverage["distinct_nontrivial"] = histories
	rep.Coverage["depth"] = depth
	if bud.Hit() {
		rep.Exhaustive = false
		rep.Coverage["caps_hit"] = "time budget"
	}
	if bin := os.Getenv("VERIF_C16_POINTS_BIN"); bin != "" && rep.ReplayFilter == "" {
		cctx, ccancel := context.WithTimeout(context.Background(), 4*time.Minute)
		op, err := exec.CommandContext(cctx, bin, "C16-worker", "x").Output()
		ccancel()
		var co c16ConcOut
		if err != nil || json.Unmarshal([]byte(strings.TrimSpace(lastLine(string(op)))), &co) != nil {
			fmt.Printf("note: the concurrent-scenario worker did not deliver (%v); skipped\n", err)
		} else {
			rep.Coverage["concurrent_add_remove_scenarios"] = co.Scenarios
			for _, v := range co.Violations {
				rep.Violation("C16:concurrent-add-remove-not-linearizable", v, map[string]interface{}{"case": "c16/concurrent"})
			}
			for _, sc := range co.Scenarios {
				if n, ok := sc["schedules"].(float64); ok {
					transitions += int(n)
				}
			}
		}
	}
	rep.Coverage["rule"] = fmt.Sprintf("breadth-first search over operation histories (depth <= %d) on one library with two knowledge bases, in two spaces: (A,1)/(A,2) and the separator-collision pair (a:b,c)/(a,b:c). Operations per knowledge base: build X1, build X2 (same name, other body), build Y, build 'X1 X2' in one resource, build a duplicate of X followed by a rule with a syntax error (while X exists), BuildRuleFromResources over two resources ('X2','Y' and 'Y','X1': the call ends at the first rejected resource), library-level RemoveRuleEntry(X|Y), store + load with overwrite, store alone (checkpoint), create + execute an instance in the middle of the history. States are deduplicated on the MODEL state (active rules per knowledge base + whether a build was rejected there + whether a checkpoint store was taken / an instance was created, and whether the knowledge base changed after it); every transition replays its history on a fresh library with the real builder/serializer. After every step: build error iff the model says duplicate; for every knowledge base a fresh instance can be created and its FetchMatchingRules + Execute observation equals that of the model's active rule texts built alone; instance-level removal changes only that instance; a rule removed from the running instance in a listener callback (cycle 1 or 2) is neither evaluated nor fired from then on. states/transitions are those of the library model; every transition is non-trivial (it is validated against the implementation). Plus concurrent AddRuleEntry / RemoveRuleEntry on one knowledge base under the cooperative scheduler (yield points at method entries and Lock calls, 2 threads, <= 3 preemptions): returned errors and final rule map of every interleaving equal those of a sequential order.", depth)
}

// c16HistClass names the operation kinds that matter for a signature: the last op and whether a
// rejected build / library removal happened before it.
func c16HistClass(prev []c16Op, last c16Op) string {
	var flags []string
	st := map[int]map[string]bool{}
	rejected, removed := false, false
	for _, o := range append(append([]c16Op{}, prev...), last) {
		if st[o.kb] == nil {
			st[o.kb] = map[string]bool{}
		}
		switch o.kind {
		case "build":
			for _, id := range strings.Split(o.arg, "+") {
				n := c16Texts[id].name
				if st[o.kb][n] {
					rejected = true
				} else {
					st[o.kb][n] = true
				}
			}
		case "removelib":
			if st[o.kb][o.arg] {
				removed = true
				delete(st[o.kb], o.arg)
			}
		}
	}
	if rejected {
		flags = append(flags, "rejected-build")
	}
	if removed {
		flags = append(flags, "library-removal")
	}
	return last.kind + "+" + strings.Join(flags, "+")
}

func lastLine(s string) string {
	s = strings.TrimSpace(s)
	if i := strings.LastIndexByte(s, '\n'); i >= 0 {
		return s[i+1:]
	}
	return s
}
