package checks

import (
	"fmt"
	"strings"

	"verif/internal/ev"
	"verif/internal/grl"
	"verif/internal/hx"
)

// c06CompleteOutside: Complete() reached from OUTSIDE an action list - the caller completes the data context before
// Execute, a fact method called in a condition does it, a fact method called in an action does it, a listener does
// it - at every probe invocation / listener event of the fault-free run. "Returns nil ... after Complete": once
// Complete() was called Execute returns nil, and at most the firing that the current cycle was about to make (none,
// when the call came from an action) follows.
func c06CompleteOutside(rep *ev.Reporter) (runs, nontrivial int64) {
	type rs = []*grl.Rule
	progs := map[string]func() rs{
		"count": func() rs {
			return rs{grl.R("c", nil, "F.Chk(1) && F.I < 4", "F.I = F.I + 1", "F.Act(1)")}
		},
		"two": func() rs {
			return rs{grl.R("a", grl.Sal(5), "F.Chk(1) && F.I < 2", "F.Act(1)", "F.I = F.I + 1"),
				grl.R("b", nil, "F.I2 < 3 && F.Chk(2)", "F.I2 = F.I2 + 1", "F.Act(2)")}
		},
		"loop": func() rs {
			return rs{grl.R("l", nil, "F.Chk(1)", "F.I = F.I + 1", "F.Act(1)")}
		},
	}
	for name, mk := range progs {
		b, err := hx.Build(hx.NewProgram(mk(), grl.Style{}))
		if err != nil {
			rep.Violation("harness:build-failed:c06outside", err.Error(), nil)
			continue
		}
		base := hx.Run(b, c06World(), hx.RunOpts{MaxCycle: 6, NoSnapshots: true})
		nProbes, nEvents := 0, len(base.Events)
		for _, e := range base.Events {
			if strings.HasPrefix(e, "act:") || strings.HasPrefix(e, "chk:") {
				nProbes++
			}
		}
		one := func(mode string, at int) {
			id := fmt.Sprintf("c06/complete-from-outside/%s/%s@%d", name, mode, at)
			if rep.ReplayFilter != "" && rep.ReplayFilter != id {
				return
			}
			judge := func() (string, string, bool) {
				w := c06World()
				dc, err := hx.NewDataContext(w)
				if err != nil {
					return "harness:data-context", err.Error(), false
				}
				called := -1 // index into the event list at which Complete() was called
				where := ""
				var trp *hx.Trace
				o := hx.RunOpts{MaxCycle: 6, NoSnapshots: true, DataCtx: dc}
				evN := 0
				o.OnEvent = func(e string) {
					evN++
					if mode == "listener" && evN == at && called < 0 {
						dc.Complete()
						called = evN
						where = "listener:" + e
					}
				}
				o.OnProbe = func(kind string, pid int64, n int) {
					if mode == "probe" && n == at && called < 0 {
						dc.Complete()
						called = evN
						where = kind
					}
				}
				if mode == "pre" {
					dc.Complete()
					called = 0
					where = "pre"
				}
				trp = hx.Run(b, w, o)
				if called < 0 {
					return "", "", false
				}
				// executions announced after the call
				after := 0
				for i, e := range trp.Events {
					if i >= called && len(e) > 1 && e[0] == 'X' && e[1] >= '0' && e[1] <= '9' {
						after++
					}
				}
				allowed := 1
				if where == "act" || strings.HasPrefix(where, "listener:X") {
					allowed = 0 // a rule was executing (or had just been announced): it runs to its end, nothing follows
					if strings.HasPrefix(where, "listener:X") {
						allowed = 0
					}
				}
				if trp.Panic != nil {
					return "C06:panic:complete-from-outside", fmt.Sprint(trp.Panic), true
				}
				if trp.Err != nil && hx.IsLimitErr(trp.Err) && uint64(trp.Fired) >= 6 && after == 0 {
					// the budget was used up when Complete() came: "one more firing would be needed" applies as well
					return "", "", true
				}
				if trp.Err != nil {
					return "C06:error-after-complete:complete-from-outside:" + strings.SplitN(where, ":", 2)[0], fmt.Sprintf("Complete() was called (%s, event %d) yet Execute returned %v (events %v)", where, called, trp.Err, trp.Events), true
				}
				if after > allowed {
					return "C06:run-continues-after-complete:complete-from-outside:" + strings.SplitN(where, ":", 2)[0], fmt.Sprintf("Complete() was called (%s, event %d); %d rule executions followed (at most %d may: the firing the current cycle was about to make) (events %v)", where, called, after, allowed, trp.Events), true
				}
				return "", "", true
			}
			sig, what, nt := judge()
			runs++
			if nt {
				nontrivial++
			}
			if sig != "" {
				if s2, _, _ := judge(); s2 != sig {
					fmt.Printf("HARNESS-NONDETERMINISM property=C06 case=%s sig=%s\n", id, sig)
					return
				}
				rep.Violation(sig, what+"\n  case: "+id+"\n  grl: "+b.Prog.Text, map[string]interface{}{"case": id, "grl": b.Prog.Text})
			}
		}
		one("pre", 0)
		for at := 1; at <= nProbes; at++ {
			one("probe", at)
		}
		for at := 1; at <= nEvents; at++ {
			one("listener", at)
		}
	}
	return
}
