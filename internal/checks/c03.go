package checks

import (
	"fmt"
	"time"

	"verif/internal/ev"
	"verif/internal/facts"
	"verif/internal/grl"
	"verif/internal/hx"
	"verif/internal/ref"
)

// ---- shared small alphabets over F.I / F.B ----

type ruleKind struct {
	cond string
	acts []string // %s = own rule name, %d = probe id
}

var c03Kinds = []ruleKind{
	{"F.I < 2", []string{"F.I = F.I + 1", "F.Act(%d)"}},
	{"F.B", []string{"F.B = false", "F.Act(%d)"}},
	{"F.I == 0 || F.B", []string{"F.I = F.I + 1", "F.B = false", "F.Act(%d)"}},
	{"!F.B && F.I < 3", []string{"F.Act(%d)", "F.I = F.I + 2"}},
	{"F.I >= 0", []string{"Retract(\"%s\")", "F.B = !F.B", "F.Act(%d)"}},
	// facts changed ONLY through a slice element / a map entry (no plain variable assignment in the action)
	{"F.Arr[0] < 2", []string{"F.Arr[0] = F.Arr[0] + 1"}},
	{`F.M["a"] < 1 && F.Arr[0] > 0`, []string{`F.M["a"] = F.M["a"] + 1`}},
	// Complete() in the MIDDLE of the action list: "applied completely" also holds for the last rule of a run
	{"F.I < 3", []string{"F.I = F.I + 1", "Complete()", "F.B = !F.B", "F.Act(%d)"}},
	// a condition that FAILS to evaluate (missing map key) until another rule's action repairs it: from then
	// on the rule is a satisfied active rule like any other
	{`F.M["z"] >= 1 && F.I < 3`, []string{"F.I = F.I + 1", "F.Act(%d)"}},
	{"F.I2 == 0", []string{`F.M["z"] = 1`, "F.I2 = 1"}},
	// the same with a condition that PANICS (integer modulo by zero) until repaired
	{"7 % F.In == 1 && F.I < 3", []string{"F.I = F.I + 1", "F.Act(%d)"}},
	{"F.I2 == 0 || F.I2 == 1", []string{"F.In = 2", "F.I2 = F.I2 + 2"}},
	// a condition over a getter whose value the rule changes through a Go method and announces with Changed()
	// (the family runs such programs also as the second run on one data context with a fresh instance)
	{"F.GetI() < 2", []string{"F.Bump()", `Changed("F.GetI()")`, `Forget("F.Bump()")`, "F.Act(%d)"}}, // Forget re-arms the (remembered) call used as an action
}

func mkRule(name string, k ruleKind, id int) *grl.Rule {
	r := &grl.Rule{Name: name, When: grl.E(k.cond)}
	for _, a := range k.acts {
		switch {
		case contains(a, "%s"):
			a = fmt.Sprintf(a, name)
		case contains(a, "%d"):
			a = fmt.Sprintf(a, id)
		}
		r.Then = append(r.Then, grl.A(a))
	}
	return r
}

func contains(s, sub string) bool {
	for i := 0; i+len(sub) <= len(s); i++ {
		if s[i:i+len(sub)] == sub {
			return true
		}
	}
	return false
}

type salSpec struct {
	has  bool
	v    int64
	text string
}

var salQuick = []salSpec{{true, -2, ""}, {true, -1, ""}, {false, 0, ""}, {true, 1, ""}, {true, 2147483647, "0x7fffffff"}}
var salFull = []salSpec{{true, -2147483648, ""}, {true, -1, "-01"}, {false, 0, ""}, {true, 0, "0"}, {true, 1, "0x1"}, {true, 2147483647, ""}, {true, 8, "010"}, {true, -2147483648, "-0x80000000"}}

func worldIB(i int64, b bool) func() *ref.World {
	return func() *ref.World {
		w := ref.NewWorld()
		f := facts.New()
		f.I, f.B = i, b
		f.Arr = []int64{0, 7}
		f.M = map[string]int64{"a": 0}
		w.Objs["F"] = f
		return w
	}
}

func setSal(r *grl.Rule, s salSpec) {
	r.HasSal, r.Sal, r.SalText = s.has, s.v, s.text
}

// judgeC03: at most one firing per cycle; the fired rule has maximal salience among the rules
// reported as candidates in that cycle (and those agree with the reference: otherwise the
// divergence is C01/C02's and counted as foreign); the model's post-state equals the real one
// before the next cycle starts.
func judgeC03(c *Case, tr *hx.Trace, w *ref.World) []Verdict {
	var out []Verdict
	prog := map[string]*grl.Rule{}
	for _, r := range c.Rules {
		prog[r.Name] = r
	}
	v := Verdict{}
	if tr.Panic != nil {
		return []Verdict{{Sig: "C03:panic", What: fmt.Sprintf("engine panicked: %v", tr.Panic)}}
	}
	for _, cy := range tr.Cycles {
		if cy.NExec > 1 {
			out = append(out, Verdict{Sig: "C03:multiple-firings-in-one-cycle", What: fmt.Sprintf("cycle %d: %d rules fired", cy.N, cy.NExec)})
		}
		nc := 0
		var maxSal int64
		agree := true
		distinctSal := map[int64]bool{}
		for _, e := range cy.Evals {
			rr := cy.RefAt[e.Rule]
			if rr.Err == nil && rr.True != e.Cand {
				agree = false
			}
			if e.Cand {
				s := salOf(prog[e.Rule])
				if nc == 0 || s > maxSal {
					maxSal = s
				}
				distinctSal[s] = true
				nc++
			}
		}
		if !agree {
			v.Foreign++
		}
		// the conflict set recomputed independently: active rules whose condition the reference
		// evaluator finds true on the facts of this cycle
		nTrue := 0
		var maxTrue int64
		for _, name := range cy.ActiveModel {
			rr := cy.RefAt[name]
			if rr.Err != nil || !rr.True {
				continue
			}
			if s := salOf(prog[name]); nTrue == 0 || s > maxTrue {
				maxTrue = s
			}
			nTrue++
		}
		if cy.Exec != "" {
			if r, ok := prog[cy.Exec]; ok && nTrue > 0 && salOf(r) < maxTrue {
				out = append(out, Verdict{Sig: "C03:fired-rule-below-the-maximal-satisfied-salience", What: fmt.Sprintf("cycle %d: fired %s (salience %d) although an active rule of salience %d has a true condition on the current facts; order %v", cy.N, cy.Exec, salOf(r), maxTrue, cy.Order)})
			}
			if nc >= 2 && len(distinctSal) >= 2 {
				v.Nontrivial = true
			}
			if r, ok := prog[cy.Exec]; ok && nc > 0 && salOf(r) != maxSal {
				out = append(out, Verdict{Sig: "C03:fired-rule-not-of-maximal-salience", What: fmt.Sprintf("cycle %d: fired %s (salience %d) although a candidate of salience %d exists; order %v", cy.N, cy.Exec, salOf(r), maxSal, cy.Order)})
			}
			isCand := false
			for _, e := range cy.Evals {
				if e.Rule == cy.Exec && e.Cand {
					isCand = true
				}
			}
			if !isCand {
				out = append(out, Verdict{Sig: "C03:fired-rule-not-a-candidate-of-its-cycle", What: fmt.Sprintf("cycle %d: fired %s which was not reported as candidate", cy.N, cy.Exec)})
			}
			if cy.PostChecked && !cy.PostOK && cy.ModelErr == nil {
				out = append(out, Verdict{Sig: "C03:actions-not-applied-completely-before-next-cycle", What: fmt.Sprintf("cycle %d: after firing %s the facts differ from the model's post-state:\n%s", cy.N, cy.Exec, cy.PostDiff)})
			}
		} else if nc > 0 && tr.Err == nil {
			out = append(out, Verdict{Sig: "C03:no-firing-despite-candidates", What: fmt.Sprintf("cycle %d: %d candidates, none fired, Execute returned nil", cy.N, nc)})
		}
	}
	out = append(out, v)
	return out
}

func C03(rep *ev.Reporter, tier string) {
	sals := salQuick
	kinds := c03Kinds
	maxCycle := uint64(6)
	bud := NewBudget(150 * time.Second)
	if tier == "thorough" {
		sals = salFull
		maxCycle = 8
		bud = NewBudget(9 * time.Minute)
	}
	worlds := []func() *ref.World{worldIB(0, false), worldIB(0, true), worldIB(1, true)}
	wn := []string{"I0Bf", "I0Bt", "I1Bt"}
	gen := func(emit func(Case)) {
		// k = 2: all kind pairs x all salience pairs
		for a := range kinds {
			for b := range kinds {
				for sa := range sals {
					for sb := range sals {
						r1 := mkRule("ra", kinds[a], 1)
						r2 := mkRule("rb", kinds[b], 2)
						setSal(r1, sals[sa])
						setSal(r2, sals[sb])
						emit(Case{ID: fmt.Sprintf("k2/%d.%d/s%d.%d", a, b, sa, sb), Rules: []*grl.Rule{r1, r2}, Worlds: worlds, WorldNames: wn, Opts: hx.RunOpts{MaxCycle: maxCycle}})
					}
				}
			}
		}
		// k = 3: all kind triples x salience triples over the first 3 (quick) / 4 (thorough) values
		s3 := sals[:3]
		if tier == "thorough" {
			s3 = []salSpec{sals[0], sals[2], sals[4], sals[5]}
		}
		k3 := []int{0, 8, 9, 10, 11}
		if tier == "thorough" {
			k3 = []int{0, 1, 2, 3, 4, 5, 6, 8, 9, 10, 11, 12}
		}
		for _, a := range k3 {
			for _, b := range k3 {
				for _, d := range k3 {
					for sa := range s3 {
						for sb := range s3 {
							for sd := range s3 {
								r1 := mkRule("ra", kinds[a], 1)
								r2 := mkRule("rb", kinds[b], 2)
								r3 := mkRule("rc", kinds[d], 3)
								setSal(r1, s3[sa])
								setSal(r2, s3[sb])
								setSal(r3, s3[sd])
								emit(Case{ID: fmt.Sprintf("k3/%d.%d.%d/s%d.%d.%d", a, b, d, sa, sb, sd), Rules: []*grl.Rule{r1, r2, r3}, Worlds: worlds[:2], WorldNames: wn, Opts: hx.RunOpts{MaxCycle: maxCycle}})
							}
						}
					}
				}
			}
		}
		if tier == "thorough" {
			// k = 4 with static orders only (24 orders, same order every cycle is NOT what Explore does;
			// here the explorer still branches per cycle but the run cap bounds it)
			for a := 0; a < 3; a++ {
				for sa := range s3 {
					for sb := range s3 {
						r1 := mkRule("ra", kinds[a], 1)
						r2 := mkRule("rb", kinds[(a+1)%len(kinds)], 2)
						r3 := mkRule("rc", kinds[(a+2)%len(kinds)], 3)
						r4 := mkRule("rd", kinds[4], 4)
						setSal(r1, s3[sa])
						setSal(r2, s3[sb])
						setSal(r3, s3[sa])
						setSal(r4, s3[sb])
						emit(Case{ID: fmt.Sprintf("k4/%d/s%d.%d", a, sa, sb), Rules: []*grl.Rule{r1, r2, r3, r4}, Worlds: worlds[:1], WorldNames: wn, Opts: hx.RunOpts{MaxCycle: 5}})
					}
				}
			}
		}
	}
	gen0 := gen
	gen = func(emit func(Case)) {
		gen0(func(c Case) {
			c.ReuseDC = true // applies to programs calling Forget / Changed
			c.JSONProv = true
			c.Histories = true
			emit(c)
		})
	}
	RunFamily(rep, gen, 4000, bud, judgeC03)
	rep.Coverage["wide_program_runs"] = wideFamily(rep, "C03", judgeC03)
	// overlapping runs on ONE engine value: salience layers whose lower rules carry a probe in their condition (the
	// nested run starts while the candidate list of the outer cycle is half built) and in their actions
	{
		type rs = []*grl.Rule
		outers := map[string]func() rs{
			"layers": func() rs {
				return rs{grl.R("hi", grl.Sal(10), "F.I < 3", "F.I = F.I + 1", "F.Act(1)"),
					grl.R("mid", grl.Sal(5), "F.Chk(F.I) && F.I2 < 2", "F.I2 = F.I2 + 1"),
					grl.R("lo", nil, "F.Chk(F.K + 10) && F.K < 2", "F.K = F.K + 1")}
			},
			"ties": func() rs {
				return rs{grl.R("a", grl.Sal(3), "F.Chk(F.I) && F.I < 2", "F.I = F.I + 1"),
					grl.R("b", grl.Sal(3), "F.I2 < 2", "F.I2 = F.I2 + 1", "F.Act(2)"),
					grl.R("c", grl.Sal(-1), "F.Chk(F.K + 10) && F.K < 1", "F.K = F.K + 1")}
			},
		}
		sets := map[string]func() rs{
			"two-layers": func() rs {
				return rs{grl.R("x", grl.Sal(2), "F.I < 2", "F.I = F.I + 1"), grl.R("y", nil, "F.I2 < 2", "F.I2 = F.I2 + 1")}
			},
			"never": func() rs { return rs{grl.R("n", nil, "F.I < 0", "F.I = 9")} },
			"loop":  func() rs { return rs{grl.R("l", nil, "F.I >= 0", "F.I = F.I + 1")} },
		}
		nestedRuns(rep, "C03", judgeC03, outers, sets, []string{"two-layers", "never", "loop"}, 7)
	}
	rep.Coverage["rule"] = "every rule set of k=2 (all kind pairs x all salience pairs) and k=3 (all kind triples x salience triples) rules over 13 rule kinds (quick: 5 of them in triples) whose actions change which rules are satisfied next, two of them changing facts only through a slice element / map entry, one calling Complete() in the middle of its action list, one whose condition fails to evaluate (missing map key; integer modulo by zero, which panics inside the engine) until another kind's action repairs it; the fired rule is compared with the maximum over the conflict set the reference evaluator recomputes on the current facts AND with the maximum over the candidates the engine reported; per program every initial world x every rule-iteration order at every cycle (state-pruned). Non-trivial: a firing chosen among >=2 candidates with >=2 distinct saliences."
	rep.Assumptions = append(rep.Assumptions, "saliences written in decimal/hex/octal/negative spellings; model salience comes from the generator, not from the engine's parse", "rule order controlled through the overlay hook verifhook.Order (all k! orders per cycle)")
}
