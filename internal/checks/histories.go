package checks

import (
	"fmt"
	"hash/fnv"

	"github.com/hyperjumptech/grule-rule-engine/builder"
	"github.com/hyperjumptech/grule-rule-engine/pkg"

	"verif/internal/grl"
	"verif/internal/hx"
	"verif/internal/ref"
)

// Usage histories that precede the judged run (Case.Histories; applied to the default-order run of every
// (program, world)): whatever happened before - on the instance, on the library's blueprint, to the library -
// the judged run is an ordinary run of the rules that are in force, and is judged by the property's own judge.
//
//	execute-remove-execute      the instance executed before, then another rule was removed from it
//	blueprint-executed          the library's blueprint itself was executed before the instance was created
//	blueprint-executed-library-changed
//	                            ... then a rule was removed from the library and a copy of another rule (same
//	                            condition and actions, new name) was built into it, then the instance was created
//	rule-replaced-in-library    a rule was removed from the library and built again under the same name (first / last rule)
//	blueprint-runs-rule-replaced-twice
//	                            the blueprint itself runs; between its runs the last rule is replaced by an identical one, twice
//	blueprint-runs-library-removal
//	                            the blueprint itself runs, the last rule is removed through the library, it runs again
type histVariant struct {
	label string
	tr    *hx.Trace
	w     *ref.World
	c     *Case
}

// copyRule returns r under a new name (Retract("<old name>") actions follow the name).
func copyRule(r *grl.Rule, name string) *grl.Rule {
	n := *r
	n.Name = name
	n.Then = nil
	for _, a := range r.Then {
		if c, ok := a.Call.(*grl.Call); ok && c.Recv == nil && c.Name == "Retract" && len(c.Args) == 1 {
			if l, ok := c.Args[0].(*grl.Lit); ok && l.S == r.Name {
				a = grl.A(fmt.Sprintf(`Retract("%s")`, name))
			}
		}
		n.Then = append(n.Then, a)
	}
	return &n
}

func historyVariants(c *Case, b *hx.Built, prog *hx.Program, mk func() *ref.World, light bool) []histVariant {
	var out []histVariant
	if len(c.Rules) < 2 {
		return nil
	}
	// quick tier: the replacement / blueprint-removal histories (4-6) run for a fixed third of the programs (by a hash
	// of the case id); the thorough tier runs them for all
	later := true
	if light {
		h := fnv.New32a()
		h.Write([]byte(c.ID))
		later = h.Sum32()%3 == 0
	}
	ch := *c
	ch.InHistory = true
	c = &ch
	last := prog.Names[len(prog.Names)-1]
	// 1. execute - remove another rule from the instance - execute
	if inst, err := b.InstanceOrd(c.Opts.CloneOrd); err == nil {
		o := c.Opts
		o.KB = inst
		if first := hx.Run(b, mk(), o); first.Panic == nil {
			inst.RemoveRuleEntry(last)
			o.Removed = map[string]bool{last: true}
			w := mk()
			out = append(out, histVariant{"execute-remove-execute", hx.Run(b, w, o), w, c})
		}
	}
	// 2. the blueprint itself executed, then an instance
	if lb, err := hx.Build(prog); err == nil {
		bp := lb.Lib.GetKnowledgeBase(hx.KBName, hx.KBVer)
		o := c.Opts
		o.KB = bp
		if first := hx.Run(lb, mk(), o); first.Panic == nil {
			if inst, err := lb.Instance(); err == nil {
				o.KB = inst
				w := mk()
				out = append(out, histVariant{"blueprint-executed", hx.Run(lb, w, o), w, c})
			} else {
				tr := &hx.Trace{MaxCycle: c.Opts.MaxCycle, Err: err, Protocol: []string{"NewKnowledgeBaseInstance failed after the blueprint was executed: " + err.Error()}}
				out = append(out, histVariant{"blueprint-executed", tr, mk(), c})
			}
		}
	}
	// 3. the blueprint executed, a rule removed from the library, a copy of the first rule built into it
	if lb, err := hx.Build(prog); err == nil && c.Rules[0].Name != last {
		bp := lb.Lib.GetKnowledgeBase(hx.KBName, hx.KBVer)
		o := c.Opts
		o.KB = bp
		if first := hx.Run(lb, mk(), o); first.Panic == nil {
			lb.Lib.RemoveRuleEntry(last, hx.KBName, hx.KBVer)
			cpName := "zcopy"
			if c.Rules[0].Name[0] == 'u' {
				cpName = "u9" // C13 counts the users by this prefix
			}
			cp := copyRule(c.Rules[0], cpName)
			if err := builder.NewRuleBuilder(lb.Lib).BuildRuleFromResource(hx.KBName, hx.KBVer, pkg.NewBytesResource([]byte(grl.PrintRules([]*grl.Rule{cp}, c.Style)))); err == nil {
				var rules []*grl.Rule
				for _, r := range c.Rules {
					if r.Name != last {
						rules = append(rules, r)
					}
				}
				rules = append(rules, cp)
				c2 := *c
				c2.Rules = rules
				p2 := hx.NewProgram(rules, c.Style)
				lb2 := &hx.Built{Lib: lb.Lib, Prog: p2}
				if inst, err := lb2.Instance(); err == nil {
					o.KB = inst
					w := mk()
					out = append(out, histVariant{"blueprint-executed-library-changed", hx.Run(lb2, w, o), w, &c2})
				}
			}
		}
	}
	if !later {
		return out
	}
	// 4. a rule replaced by an identical one in the library (removed, then built again under the same name), then
	// the instance; for the first and the last rule
	for _, x := range []string{c.Rules[0].Name, last} {
		lb, err := hx.Build(prog)
		if err != nil {
			continue
		}
		lb.Lib.RemoveRuleEntry(x, hx.KBName, hx.KBVer)
		if err := builder.NewRuleBuilder(lb.Lib).BuildRuleFromResource(hx.KBName, hx.KBVer, pkg.NewBytesResource([]byte(grl.PrintRules([]*grl.Rule{prog.ByName[x]}, c.Style)))); err != nil {
			tr := &hx.Trace{MaxCycle: c.Opts.MaxCycle, Err: err, Protocol: []string{"building a rule again after it was removed failed: " + err.Error()}}
			out = append(out, histVariant{"rule-replaced-in-library", tr, mk(), c})
			continue
		}
		if inst, err := lb.Instance(); err == nil {
			o := c.Opts
			o.KB = inst
			w := mk()
			out = append(out, histVariant{"rule-replaced-in-library", hx.Run(lb, w, o), w, c})
		}
		if x == last {
			break
		}
	}
	// 5. the blueprint itself is what runs; between its runs the last rule is replaced by an identical one, twice
	if lb, err := hx.Build(prog); err == nil {
		bp := lb.Lib.GetKnowledgeBase(hx.KBName, hx.KBVer)
		o := c.Opts
		o.KB = bp
		ok := true
		for k := 0; k < 2 && ok; k++ {
			if first := hx.Run(lb, mk(), o); first.Panic != nil {
				ok = false
				break
			}
			bp.RemoveRuleEntry(last)
			if err := builder.NewRuleBuilder(lb.Lib).BuildRuleFromResource(hx.KBName, hx.KBVer, pkg.NewBytesResource([]byte(grl.PrintRules([]*grl.Rule{prog.ByName[last]}, c.Style)))); err != nil {
				ok = false
			}
		}
		if ok {
			w := mk()
			out = append(out, histVariant{"blueprint-runs-rule-replaced-twice", hx.Run(lb, w, o), w, c})
		}
	}
	// 6. the blueprint itself is what runs; between two of its runs the last rule is removed through the LIBRARY
	if lb, err := hx.Build(prog); err == nil {
		bp := lb.Lib.GetKnowledgeBase(hx.KBName, hx.KBVer)
		o := c.Opts
		o.KB = bp
		if first := hx.Run(lb, mk(), o); first.Panic == nil {
			lb.Lib.RemoveRuleEntry(last, hx.KBName, hx.KBVer)
			o.Removed = map[string]bool{last: true}
			w := mk()
			out = append(out, histVariant{"blueprint-runs-library-removal", hx.Run(lb, w, o), w, c})
		}
	}
	return out
}
