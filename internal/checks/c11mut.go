package checks

import (
	"fmt"
	"github.com/hyperjumptech/grule-rule-engine/ast"
	"sort"
	"strings"

	"github.com/hyperjumptech/grule-rule-engine/engine"

	"verif/internal/ev"
	"verif/internal/facts"
	"verif/internal/grl"
	"verif/internal/hx"
	"verif/internal/ref"
)

// c11CallerMutations: "on the given facts" means the facts as they are when FetchMatchingRules is called. One
// knowledge-base instance and ONE data context are asked repeatedly while the caller changes its own fact objects
// in between, natively in Go: a value written in place, or the record / container that holds it replaced by
// another one (the pointer, map, slice, row swapped). Every location kind x every sequence of up to 3 caller
// mutations (kind x value); after each mutation the call must return exactly the rules true of the current value.
func c11CallerMutations(rep *ev.Reporter, tier string) (ncalls, nontrivial int64) {
	type mut struct {
		name string
		do   func(f *facts.Fact, v int64)
	}
	locs := []struct {
		name, expr string
		init       func(f *facts.Fact)
		muts       []mut
	}{
		{"field", "F.I2", func(f *facts.Fact) {}, []mut{{"assign", func(f *facts.Fact, v int64) { f.I2 = v }}}},
		{"pointer-chain", "F.P.V", func(f *facts.Fact) { f.P = &facts.Sub{} }, []mut{
			{"in-place", func(f *facts.Fact, v int64) { f.P.V = v }},
			{"record-replaced", func(f *facts.Fact, v int64) { f.P = &facts.Sub{V: v} }}}},
		{"pointer-chain-in-call", "F.Add(F.P.V, 0)", func(f *facts.Fact) { f.P = &facts.Sub{} }, []mut{
			{"in-place", func(f *facts.Fact, v int64) { f.P.V = v }},
			{"record-replaced", func(f *facts.Fact, v int64) { f.P = &facts.Sub{V: v} }}}},
		{"method-on-pointer", "F.P.Avail() + 1", func(f *facts.Fact) { f.P = &facts.Sub{} }, []mut{
			{"in-place", func(f *facts.Fact, v int64) { f.P.V = v }},
			{"record-replaced", func(f *facts.Fact, v int64) { f.P = &facts.Sub{V: v} }}}},
		{"struct-by-value", "F.SV.V", func(f *facts.Fact) {}, []mut{
			{"in-place", func(f *facts.Fact, v int64) { f.SV.V = v }},
			{"record-replaced", func(f *facts.Fact, v int64) { f.SV = facts.Sub{V: v} }}}},
		{"map-entry", `F.M["k"]`, func(f *facts.Fact) { f.M = map[string]int64{"k": 0} }, []mut{
			{"in-place", func(f *facts.Fact, v int64) { f.M["k"] = v }},
			{"map-replaced", func(f *facts.Fact, v int64) { f.M = map[string]int64{"k": v} }}}},
		{"slice-element", "F.Arr[0]", func(f *facts.Fact) { f.Arr = []int64{0, 0} }, []mut{
			{"in-place", func(f *facts.Fact, v int64) { f.Arr[0] = v }},
			{"slice-replaced", func(f *facts.Fact, v int64) { f.Arr = []int64{v} }}}},
		{"pointer-in-map", `F.MP["a"].V`, func(f *facts.Fact) { f.MP = map[string]*facts.Sub{"a": {}} }, []mut{
			{"in-place", func(f *facts.Fact, v int64) { f.MP["a"].V = v }},
			{"record-replaced", func(f *facts.Fact, v int64) { f.MP["a"] = &facts.Sub{V: v} }},
			{"map-replaced", func(f *facts.Fact, v int64) { f.MP = map[string]*facts.Sub{"a": {V: v}} }}}},
		{"pointer-in-slice", "F.PArr[0].V", func(f *facts.Fact) { f.PArr = []*facts.Sub{{}} }, []mut{
			{"in-place", func(f *facts.Fact, v int64) { f.PArr[0].V = v }},
			{"record-replaced", func(f *facts.Fact, v int64) { f.PArr[0] = &facts.Sub{V: v} }}}},
		{"grid", "F.Grid[0][1]", func(f *facts.Fact) { f.Grid = [][]int64{{0, 0}} }, []mut{
			{"in-place", func(f *facts.Fact, v int64) { f.Grid[0][1] = v }},
			{"row-replaced", func(f *facts.Fact, v int64) { f.Grid[0] = []int64{0, v} }}}},
		{"book", `F.Book["a"]["b"]`, func(f *facts.Fact) { f.Book = map[string]map[string]int64{"a": {"b": 0}} }, []mut{
			{"in-place", func(f *facts.Fact, v int64) { f.Book["a"]["b"] = v }},
			{"inner-map-replaced", func(f *facts.Fact, v int64) { f.Book["a"] = map[string]int64{"b": v} }}}},
	}
	depth := 2
	if tier == "thorough" {
		depth = 3
	}
	for _, loc := range locs {
		rules := []*grl.Rule{
			grl.R("is1", grl.Sal(2), loc.expr+" == 1", "F.K = 1"),
			grl.R("is2", grl.Sal(1), loc.expr+" == 2", "F.K = 2"),
			grl.R("lt2", nil, loc.expr+" < 2 && F.K == 0", "F.K = 3"),
		}
		prog := hx.NewProgram(rules, grl.Style{})
		b, err := hx.Build(prog)
		if err != nil {
			rep.Violation("harness:build-failed:c11mut/"+loc.name, err.Error(), nil)
			continue
		}
		type step struct {
			m int
			v int64
		}
		var rec func(seq []step)
		rec = func(seq []step) {
			if len(seq) > 0 {
				id := "c11/caller-mutation/" + loc.name
				var names []string
				for _, s := range seq {
					names = append(names, fmt.Sprintf("%s=%d", loc.muts[s.m].name, s.v))
				}
				id += "/" + strings.Join(names, ",")
				if rep.ReplayFilter == "" || rep.ReplayFilter == id {
					kb, err := b.Instance()
					if err != nil {
						rep.Violation("C11:instance-failed", err.Error(), map[string]interface{}{"case": id})
						return
					}
					w := ref.NewWorld()
					f := facts.New()
					loc.init(f)
					w.Objs["F"] = f
					dc, derr := hx.NewDataContext(w)
					if derr != nil {
						rep.Violation("harness:data-context:c11mut", derr.Error(), nil)
						return
					}
					eng := &engine.GruleEngine{MaxCycle: 10}
					ask := func(after string) bool {
						ncalls++
						got, err := eng.FetchMatchingRules(dc, kb)
						var gn, want []string
						for _, r := range got {
							gn = append(gn, r.RuleName)
						}
						for _, r := range rules {
							if ok, e := (&ref.Evaluator{W: w}).EvalBool(r.When); e == nil && ok {
								want = append(want, r.Name)
							}
						}
						sort.Strings(gn)
						sort.Strings(want)
						if err != nil || strings.Join(gn, ",") != strings.Join(want, ",") {
							rep.Violation("C11:wrong-rule-set:after-caller-mutation:"+loc.name+":"+after, fmt.Sprintf("one instance and one data context asked repeatedly while the caller changes %s between the calls (%s): after %q FetchMatchingRules returned %v, %v; the rules true of the current facts are %v\n  case: %s\n  grl: %s", loc.expr, strings.Join(names, ", "), after, gn, err, want, id, strings.ReplaceAll(prog.Text, "\n", "\n       ")),
								map[string]interface{}{"case": id, "grl": prog.Text})
							return false
						}
						if len(want) > 0 {
							nontrivial++
						}
						return true
					}
					if ask("nothing") {
						for _, s := range seq {
							loc.muts[s.m].do(f, s.v)
							if !ask(loc.muts[s.m].name) {
								break
							}
						}
					}
				}
			}
			if len(seq) == depth {
				return
			}
			for m := range loc.muts {
				for _, v := range []int64{1, 2} {
					rec(append(append([]step{}, seq...), step{m, v}))
				}
			}
		}
		rec(nil)
	}
	return
}

// c11SameDocumentTwice: the same JSON TEXT given to several data contexts in a row. A rule action run on the first
// context writes into its fact; the second context (fresh, another instance) holds the document as it was given.
// Every pair of 4 documents (same / different text) x {Execute, Fetch} on the first context.
func c11SameDocumentTwice(rep *ev.Reporter) (ncalls int64) {
	rules := []*grl.Rule{
		grl.R("w", grl.Sal(5), "J.n == 1", "J.n = 5", `J.o.k = "changed"`, "J.a[0] = 9", `Retract("w")`),
		grl.R("is1", nil, "J.n == 1", "F.K = 1", `Retract("is1")`),
		grl.R("orig", grl.Sal(-1), `J.o.k == "v" && J.a[0] == 1`, "F.K = 2", `Retract("orig")`),
	}
	prog := hx.NewProgram(rules, grl.Style{})
	b, err := hx.Build(prog)
	if err != nil {
		rep.Violation("harness:build-failed:c11samedoc", err.Error(), nil)
		return
	}
	docs := []string{`{"n":1,"o":{"k":"v"},"a":[1,2]}`, `{"n":1,"o":{"k":"v"},"a":[1,2]} `, `{"n":2,"o":{"k":"v"},"a":[1,2]}`, `{"a":[1,2],"n":1,"o":{"k":"v"}}`}
	want := func(doc string) string {
		if strings.Contains(doc, `"n":2`) {
			return "orig"
		}
		return "is1,orig,w"
	}
	for i, d1 := range docs {
		for j, d2 := range docs {
			for _, first := range []string{"execute", "fetch"} {
				id := fmt.Sprintf("c11/same-document-twice/%d.%d/%s", i, j, first)
				if rep.ReplayFilter != "" && rep.ReplayFilter != id {
					continue
				}
				kb1, e1 := b.Instance()
				kb2, e2 := b.Instance()
				if e1 != nil || e2 != nil {
					continue
				}
				eng := &engine.GruleEngine{MaxCycle: 10}
				dc1 := ast.NewDataContext()
				dc1.Add("F", facts.New())
				if err := dc1.AddJSON("J", []byte(d1)); err != nil {
					continue
				}
				if first == "execute" {
					_ = eng.Execute(dc1, kb1)
				} else {
					_, _ = eng.FetchMatchingRules(dc1, kb1)
				}
				dc2 := ast.NewDataContext()
				dc2.Add("F", facts.New())
				if err := dc2.AddJSON("J", []byte(d2)); err != nil {
					continue
				}
				got, err := eng.FetchMatchingRules(dc2, kb2)
				ncalls++
				var gn []string
				for _, r := range got {
					gn = append(gn, r.RuleName)
				}
				sort.Strings(gn)
				if err != nil || strings.Join(gn, ",") != want(d2) {
					rep.Violation("C11:wrong-rule-set:document-given-to-an-earlier-data-context:"+first, fmt.Sprintf("a data context got the JSON text %s after another data context had been given %s and served an %s: FetchMatchingRules on the NEW context (new instance) returned %v, %v; the rules true of the document as given are [%s]\n  case: %s\n  grl: %s", d2, d1, first, gn, err, want(d2), id, strings.ReplaceAll(prog.Text, "\n", "\n       ")),
						map[string]interface{}{"case": id, "grl": prog.Text})
				}
			}
		}
	}
	return
}
