// Package checks holds one check per property. Shared here: the family driver that builds each
// generated program once, explores every initial world x every per-cycle rule order with state
// pruning, hands every validated trace to the property's judge, and keeps the counts evidence needs.
package checks

import (
	"fmt"
	"runtime"
	"sort"
	"strings"
	"sync"
	"sync/atomic"
	"time"

	"verif/internal/ev"
	"verif/internal/grl"
	"verif/internal/hx"
	"verif/internal/ref"
)

// Case is one generated program with its initial worlds.
type Case struct {
	ID         string
	Rules      []*grl.Rule
	Style      grl.Style
	Worlds     []func() *ref.World
	WorldNames []string
	Opts       hx.RunOpts
	Meta       map[string]string // family coordinates (used for signatures)
	Reloaded   bool              // run on a knowledge base that went through binary store + load
	// Reuse: every explored run is repeated as the SECOND Execute of one instance (a first Execute with
	// its own data context and facts, from each world, precedes it) and judged again
	Reuse bool
	// NoSplit: do not also build the program one resource per rule
	NoSplit bool
	// ReuseDC (programs that call Forget / Changed only): every explored run is repeated as the second run of
	// ONE DATA CONTEXT - a first run on another fresh instance precedes it, then the caller puts the initial
	// values back into the same fact objects - and judged again
	ReuseDC bool
	// Histories: the default-order run of every (program, world) is repeated after each usage history of
	// histories.go and judged again
	Histories bool
	InHistory bool // set on the copies judged after a usage history
	// JSONProv: one more build provenance - the program in its JSON form, through the JSON translator
	JSONProv bool
}

// Verdict is what a judge returns for one trace.
type Verdict struct {
	Sig        string // "" = no violation
	What       string
	Nontrivial bool // the judged clause was really exercised by this trace
	Foreign    int  // divergences belonging to another property
}

type FamilyStats struct {
	Programs, Runs, States, Transitions int64
	Nontrivial                          int64
	Foreign                             int64
	BuildFail                           int64
	Reused, ReusedDC, HistoryRuns       int64
	ProvenancesIso                      int64
	CloneOrders, CloneShapes            int64
	Capped                              int64
	MaxDepth                            int64
	Nondet                              int64
	DistinctOutcomes                    sync.Map
}

// Deadline support: checks stop enumerating (exhaustive=false) when the budget is over.
type Budget struct {
	deadline time.Time
	hit      atomic.Bool
}

func NewBudget(d time.Duration) *Budget { return &Budget{deadline: time.Now().Add(d)} }
func (b *Budget) Over() bool {
	if b == nil {
		return false
	}
	if time.Now().After(b.deadline) {
		b.hit.Store(true)
		return true
	}
	return false
}
func (b *Budget) Hit() bool { return b != nil && b.hit.Load() }

// RunFamily explores every case. gen must be deterministic. judge may return several verdicts.
func RunFamily(rep *ev.Reporter, gen func(emit func(Case)), maxRunsPerWorld int, bud *Budget,
	judge func(c *Case, tr *hx.Trace, w *ref.World) []Verdict) *FamilyStats {
	fs := &FamilyStats{}
	ch := make(chan Case, 64)
	var wg sync.WaitGroup
	nw := runtime.NumCPU()
	if rep.ReplayFilter != "" {
		nw = 1
	}
	var outcomes sync.Map
	for i := 0; i < nw; i++ {
		wg.Add(1)
		go func() {
			defer wg.Done()
			for c := range ch {
				c := c
				runCase(rep, &c, maxRunsPerWorld, fs, judge, &outcomes)
			}
		}()
	}
	gen(func(c Case) {
		if rep.ReplayFilter != "" && !strings.HasPrefix(rep.ReplayFilter, c.ID+"#") && rep.ReplayFilter != c.ID {
			return
		}
		if bud.Over() {
			return
		}
		ch <- c
	})
	close(ch)
	wg.Wait()
	n := 0
	outcomes.Range(func(k, v interface{}) bool { n++; return true })
	rep.Coverage["programs"] = fs.Programs
	rep.Coverage["evaluations"] = fs.Runs
	rep.Coverage["states"] = fs.States
	rep.Coverage["transitions"] = fs.Transitions
	rep.Coverage["traces_validated_against_impl"] = fs.Runs
	rep.Coverage["distinct_nontrivial"] = fs.Nontrivial
	rep.Coverage["distinct_outcomes"] = n
	rep.Coverage["foreign_divergences"] = fs.Foreign
	rep.Coverage["build_failures"] = fs.BuildFail
	rep.Coverage["clone_orders_examined"] = fs.CloneOrders
	rep.Coverage["clone_orders_explored_distinct_instance_shapes"] = fs.CloneShapes
	rep.Coverage["clone_order_hook_calls"] = hx.KeyHookCalls()
	rep.Coverage["build_provenances_with_isomorphic_blueprint_skipped"] = fs.ProvenancesIso
	if fs.Reused > 0 {
		rep.Coverage["second_use_runs"] = fs.Reused
	}
	if fs.HistoryRuns > 0 {
		rep.Coverage["runs_after_a_usage_history"] = fs.HistoryRuns
	}
	if fs.ReusedDC > 0 {
		rep.Coverage["second_runs_on_one_data_context"] = fs.ReusedDC
	}
	rep.Coverage["max_cycles_in_a_run"] = fs.MaxDepth
	rep.Coverage["order_controlled"] = hx.OrderLive()
	if !hx.OrderLive() {
		rep.Exhaustive = false
		rep.Coverage["order_note"] = "the rule-order hook is not live on this tree: rule orders were NOT enumerated (each run took whatever order the Go runtime chose)"
	}
	rep.Coverage["hook_calls"] = hx.HookCalls()
	rep.Coverage["harness_nondeterminism"] = fs.Nondet
	if fs.Capped > 0 || bud.Hit() {
		rep.Exhaustive = false
		rep.Coverage["caps_hit"] = fmt.Sprintf("run cap hit in %d (program,world) explorations; time budget hit: %v", fs.Capped, bud.Hit())
	}
	return fs
}

func outcomeOf(tr *hx.Trace) string {
	var b strings.Builder
	for _, c := range tr.Cycles {
		b.WriteString(c.Exec)
		b.WriteString(">")
	}
	if tr.Err != nil {
		b.WriteString("E")
	}
	b.WriteString(tr.FinalDump)
	return b.String()
}

func runCase(rep *ev.Reporter, c *Case, maxRuns int, fs *FamilyStats, judge func(c *Case, tr *hx.Trace, w *ref.World) []Verdict, outcomes *sync.Map) {
	prog := hx.NewProgram(c.Rules, c.Style)
	b, err := hx.Build(prog)
	atomic.AddInt64(&fs.Programs, 1)
	if err != nil {
		atomic.AddInt64(&fs.BuildFail, 1)
		rep.Violation("harness:build-failed:"+c.ID, "a generated program was rejected by the builder: "+err.Error(), map[string]interface{}{"case": c.ID, "grl": prog.Text})
		return
	}
	if c.Reloaded {
		b, err = b.Reloaded()
		if err != nil {
			rep.Violation(rep.ID+":store-load-of-generated-program-fails", err.Error()+"\n  grl: "+prog.Text, map[string]interface{}{"case": c.ID, "grl": prog.Text})
			return
		}
	}
	first := true
	// build provenance: the same program as one resource, and as one resource per rule (both orders);
	// every order in which NewKnowledgeBaseInstance can clone the rules (the runtime's map order in
	// production). A (provenance, clone order) whose instance is isomorphic to one already explored is skipped.
	shapes := map[string]bool{}
	c0 := c
	base := b
	type variant struct {
		b   *hx.Built
		tag string
	}
	variants := []variant{{base, ""}}
	if len(c.Rules) >= 2 && !c.Reloaded && !c.NoSplit {
		for _, rev := range []bool{false, true} {
			tag := "#split"
			if rev {
				tag = "#splitrev"
			}
			sb, err := hx.BuildSplit(prog, c.Style, rev)
			if err != nil {
				rep.Violation(rep.ID+":program-accepted-as-one-resource-rejected-rule-by-rule", err.Error()+"\n  grl: "+prog.Text, map[string]interface{}{"case": c.ID + tag, "grl": prog.Text})
				continue
			}
			variants = append(variants, variant{sb, tag})
		}
	}
	if c.JSONProv && !c.Reloaded {
		jb, err := hx.BuildJSON(prog, c.Style)
		if err != nil {
			rep.Violation(rep.ID+":program-accepted-as-GRL-rejected-in-its-JSON-form", err.Error()+"\n  grl: "+prog.Text, map[string]interface{}{"case": c.ID + "#json", "grl": prog.Text})
		} else {
			// metadata first: the translator must hand over every rule's salience
			for _, r := range c.Rules {
				if e := jb.Lib.GetKnowledgeBase(hx.KBName, hx.KBVer).RuleEntries[r.Name]; e == nil || int64(e.Salience) != salOf(r) {
					rep.Violation(rep.ID+":rule-of-the-JSON-form-has-another-salience", fmt.Sprintf("rule %s declares salience %d; built from the JSON form the knowledge base holds %+v", r.Name, salOf(r), e), map[string]interface{}{"case": c.ID + "#json", "grl": prog.Text})
				}
			}
			variants = append(variants, variant{jb, "#json"})
		}
	}
	bpShapes := map[string]bool{}
	for _, vr := range variants {
		b := vr.b
		// a provenance whose BLUEPRINT is isomorphic to one already explored yields, under every clone order,
		// instances isomorphic to the ones explored (Clone is a function of the blueprint graph and the order)
		bpSig := hx.ShapeSig(b.Lib.GetKnowledgeBase(hx.KBName, hx.KBVer))
		if bpShapes[bpSig] {
			atomic.AddInt64(&fs.ProvenancesIso, 1)
			continue
		}
		bpShapes[bpSig] = true
		for ord := 0; ord < b.CloneOrders(); ord++ {
			atomic.AddInt64(&fs.CloneOrders, 1)
			if inst, err := b.InstanceOrd(ord); err == nil {
				sig := hx.ShapeSig(inst)
				if shapes[sig] {
					continue
				}
				shapes[sig] = true
			}
			atomic.AddInt64(&fs.CloneShapes, 1)
			cc := *c0
			cc.Opts.CloneOrd = ord
			c := &cc
			ordTag := vr.tag
			if ord > 0 {
				ordTag += fmt.Sprintf("#clone%d", ord)
			}
			for wi, mk := range c.Worlds {
				wname := fmt.Sprintf("w%d", wi)
				if wi < len(c.WorldNames) {
					wname = c.WorldNames[wi]
				}
				st := &hx.Stats{}
				hx.Explore(b, mk, c.Opts, maxRuns, st, func(tr *hx.Trace, w *ref.World) {
					caseID := fmt.Sprintf("%s#%s#%v%s", c.ID, wname, tr.Choices, ordTag)
					if rep.ReplayFilter != "" && strings.Contains(rep.ReplayFilter, "#") && rep.ReplayFilter != caseID {
						return
					}
					outcomes.Store(hashShort(outcomeOf(tr)), true)
					vs := judge(c, tr, w)
					nt := false
					for _, v := range vs {
						if v.Nontrivial {
							nt = true
						}
						atomic.AddInt64(&fs.Foreign, int64(v.Foreign))
						if v.Sig == "" {
							continue
						}
						// confirm determinism of the verdict: replay the same choices twice more
						same := true
						for k := 0; k < 2; k++ {
							o := c.Opts
							o.Choices = tr.Choices
							w2 := mk()
							tr2 := hx.Run(b, w2, o)
							found := false
							for _, v2 := range judge(c, tr2, w2) {
								if v2.Sig == v.Sig {
									found = true
								}
							}
							if !found {
								same = false
							}
						}
						if !same {
							atomic.AddInt64(&fs.Nondet, 1)
							fmt.Printf("HARNESS-NONDETERMINISM property=%s case=%s sig=%s (verdict not reproduced on replay; not reported as violation)\n", rep.ID, caseID, v.Sig)
							continue
						}
						rep.Violation(v.Sig, v.What+"\n  case: "+caseID+"\n  grl: "+strings.ReplaceAll(prog.Text, "\n", "\n       ")+"\n  events: "+strings.Join(tr.Events, " "),
							map[string]interface{}{"case": caseID, "grl": prog.Text, "world": wname, "choices": tr.Choices, "events": tr.Events, "meta": c.Meta})
					}
					if nt {
						atomic.AddInt64(&fs.Nontrivial, 1)
					}
					if c.ReuseDC && (strings.Contains(prog.Text, "Forget(") || strings.Contains(prog.Text, "Changed(")) {
						secondDC := func() (*hx.Trace, *ref.World) {
							w0 := mk()
							if len(w0.Vars) > 0 || len(w0.JSON) > 0 {
								return nil, nil
							}
							dc, err := hx.NewDataContext(w0)
							if err != nil {
								return nil, nil
							}
							instA, err := b.InstanceOrd(c.Opts.CloneOrd)
							if err != nil {
								return nil, nil
							}
							o := c.Opts
							o.KB, o.DataCtx, o.Choices = instA, dc, tr.Choices
							if first := hx.Run(b, w0, o); first.Completed || first.Panic != nil {
								return nil, nil // a completed data context stays completed: not a fresh start
							}
							// the caller puts the initial values back into the SAME fact objects and runs a fresh instance
							init := mk()
							for name, f := range w0.Objs {
								if g, ok := init.Objs[name]; ok {
									*f = *g
								}
							}
							instB, err := b.InstanceOrd(c.Opts.CloneOrd)
							if err != nil {
								return nil, nil
							}
							o.KB = instB
							return hx.Run(b, w0, o), w0
						}
						if tr2, w2 := secondDC(); tr2 != nil {
							atomic.AddInt64(&fs.ReusedDC, 1)
							for _, v := range judge(c, tr2, w2) {
								if v.Sig == "" {
									continue
								}
								same := false
								if tr3, w3 := secondDC(); tr3 != nil {
									for _, v3 := range judge(c, tr3, w3) {
										if v3.Sig == v.Sig {
											same = true
										}
									}
								}
								if !same {
									atomic.AddInt64(&fs.Nondet, 1)
									fmt.Printf("HARNESS-NONDETERMINISM property=%s case=%s sig=%s (reused-data-context verdict not reproduced)\n", rep.ID, caseID, v.Sig)
									continue
								}
								rep.Violation(v.Sig+":second-run-on-one-data-context", v.What+"\n  (observed in the SECOND run on one data context: a first run on another fresh instance preceded it, then the initial values were put back into the same fact objects)\n  case: "+caseID+"#reused-data-context\n  grl: "+strings.ReplaceAll(prog.Text, "\n", "\n       ")+"\n  events: "+strings.Join(tr2.Events, " "),
									map[string]interface{}{"case": caseID, "grl": prog.Text, "world": wname, "choices": tr.Choices, "events": tr2.Events, "meta": c.Meta, "reused_data_context": true})
							}
						}
					}
					if c.Reuse {
						for pi, pmk := range c.Worlds {
							second := func() (*hx.Trace, *ref.World, error) {
								inst, err := b.InstanceOrd(c.Opts.CloneOrd)
								if err != nil {
									return nil, nil, err
								}
								o := c.Opts
								o.KB = inst
								if pi == wi {
									o.Choices = tr.Choices
								}
								hx.Run(b, pmk(), o)
								o.Choices = tr.Choices
								w2 := mk()
								return hx.Run(b, w2, o), w2, nil
							}
							tr2, w2, err := second()
							if err != nil {
								continue
							}
							atomic.AddInt64(&fs.Reused, 1)
							for _, v := range judge(c, tr2, w2) {
								if v.Sig == "" {
									continue
								}
								tr3, w3, _ := second()
								same := false
								if tr3 != nil {
									for _, v3 := range judge(c, tr3, w3) {
										if v3.Sig == v.Sig {
											same = true
										}
									}
								}
								if !same {
									atomic.AddInt64(&fs.Nondet, 1)
									fmt.Printf("HARNESS-NONDETERMINISM property=%s case=%s sig=%s (second-use verdict not reproduced)\n", rep.ID, caseID, v.Sig)
									continue
								}
								rid := fmt.Sprintf("%s#second-use-after-w%d", caseID, pi)
								rep.Violation(v.Sig+":second-execute-on-instance", v.What+"\n  (observed in the SECOND Execute on one instance; the first ran on world "+fmt.Sprint(pi)+" with its own data context)\n  case: "+rid+"\n  grl: "+strings.ReplaceAll(prog.Text, "\n", "\n       ")+"\n  events: "+strings.Join(tr2.Events, " "),
									map[string]interface{}{"case": caseID, "grl": prog.Text, "world": wname, "choices": tr.Choices, "events": tr2.Events, "meta": c.Meta, "second_use_after_world": pi})
							}
						}
					}

					if c.Histories && (len(tr.Choices) > 0 && allZero(tr.Choices) || len(tr.Choices) == 0 && !hx.OrderLive()) {
						for _, hv := range historyVariants(c, b, prog, mk, rep.Tier == "quick") {
							atomic.AddInt64(&fs.HistoryRuns, 1)
							for _, v := range judge(hv.c, hv.tr, hv.w) {
								if v.Sig == "" {
									continue
								}
								same := false
								for _, hv2 := range historyVariants(c, b, prog, mk, rep.Tier == "quick") {
									if hv2.label != hv.label {
										continue
									}
									for _, v2 := range judge(hv2.c, hv2.tr, hv2.w) {
										if v2.Sig == v.Sig {
											same = true
										}
									}
								}
								if !same {
									atomic.AddInt64(&fs.Nondet, 1)
									fmt.Printf("HARNESS-NONDETERMINISM property=%s case=%s sig=%s (history %s: verdict not reproduced)\n", rep.ID, caseID, v.Sig, hv.label)
									continue
								}
								rep.Violation(v.Sig+":after-"+hv.label, v.What+"\n  (observed in a run that followed the usage history '"+hv.label+"', see internal/checks/histories.go)\n  case: "+caseID+"#"+hv.label+"\n  grl: "+strings.ReplaceAll(prog.Text, "\n", "\n       ")+"\n  events: "+strings.Join(hv.tr.Events, " "),
									map[string]interface{}{"case": caseID, "grl": prog.Text, "world": wname, "choices": tr.Choices, "events": hv.tr.Events, "meta": c.Meta, "history": hv.label})
							}
						}
					}
					if first {
						first = false
						// determinism self-check: same choices, identical observation
						o := c.Opts
						o.Choices = tr.Choices
						tr2 := hx.Run(b, mk(), o)
						if strings.Join(tr.Events, "|") != strings.Join(tr2.Events, "|") || tr.FinalDump != tr2.FinalDump {
							atomic.AddInt64(&fs.Nondet, 1)
							fmt.Printf("HARNESS-NONDETERMINISM property=%s case=%s (replay of identical choices observed differently)\n  1: %v\n  2: %v\n", rep.ID, caseID, tr.Events, tr2.Events)
						}
						rep.Sample(map[string]interface{}{"case": caseID, "grl": prog.Text, "events": tr.Events, "final": tr.FinalDump})
					}
				})
				atomic.AddInt64(&fs.Runs, int64(st.Runs))
				atomic.AddInt64(&fs.States, int64(st.States))
				atomic.AddInt64(&fs.Transitions, int64(st.Transitions))
				if st.Capped {
					atomic.AddInt64(&fs.Capped, 1)
				}
				for {
					old := atomic.LoadInt64(&fs.MaxDepth)
					if int64(st.MaxDepth) <= old || atomic.CompareAndSwapInt64(&fs.MaxDepth, old, int64(st.MaxDepth)) {
						break
					}
				}
			}
		}
	}
}

func hashShort(s string) string {
	var h uint64 = 1469598103934665603
	for i := 0; i < len(s); i++ {
		h ^= uint64(s[i])
		h *= 1099511628211
	}
	return fmt.Sprintf("%x", h)
}

// salOf returns the model salience of a rule.
func salOf(r *grl.Rule) int64 {
	if r.HasSal {
		return r.Sal
	}
	return 0
}

func sortedKeys(m map[string]bool) []string {
	var s []string
	for k := range m {
		s = append(s, k)
	}
	sort.Strings(s)
	return s
}

// ParallelEach runs fn(i) for i in [0,n) on all cores.
func ParallelEach(n int, fn func(i int)) {
	var wg sync.WaitGroup
	nw := runtime.NumCPU()
	var next int64 = -1
	for k := 0; k < nw; k++ {
		wg.Add(1)
		go func() {
			defer wg.Done()
			for {
				i := int(atomic.AddInt64(&next, 1))
				if i >= n {
					return
				}
				fn(i)
			}
		}()
	}
	wg.Wait()
}

func allZero(xs []int) bool {
	for _, x := range xs {
		if x != 0 {
			return false
		}
	}
	return true
}
