package checks

import (
	"fmt"
	"strings"

	"verif/internal/facts"
	"verif/internal/grl"
	"verif/internal/hx"
	"verif/internal/ref"
)

// sharedRoles: two rules use the IDENTICAL expression E (legitimately merged into one node by the
// builder) in different syntactic roles - bare comparison operand, bracketed, inside a negated
// bracket, method argument, selector index, right-hand side of an assignment - while the first
// rule's action changes E's value from cycle to cycle. Every role pair x every E x both salience
// relations; the family runner adds every clone order and every rule order.
var sharedEs = []struct{ name, e, bump string }{
	{"map-entry", `F.M["a"]`, `F.M["a"] = F.M["a"] + 1`},
	{"field", "F.I", "F.I = F.I + 1"},
	{"slice-elem", "F.Arr[0]", "F.Arr[0] = F.Arr[0] + 1"},
	{"ptr-field", "F.P.V", "F.P.V = F.P.V + 1"},
	{"sum", "F.I + F.I2", "F.I2 = F.I2 + 1"},
	{"method", "F.Add(F.I, 0)", "F.I = F.I + 1"},
}

// condition roles: each is true exactly while E < 3
var sharedCondRoles = []struct{ name, tmpl string }{
	{"bare", "%s < 3"},
	{"bracket", "(%s) < 3"},
	{"cmp-in-bracket", "(%s < 3)"},
	{"neg-bracket", "!(%s >= 3)"},
	{"method-arg", "F.Add(%s, 0) < 3"},
	{"method-arg-bool", "F.IsPos(%s) == false || %s < 3"},
	{"index", "F.SelArr[%s] < 60"},
}

// action roles of the second rule (records what it sees)
var sharedActRoles = []struct{ name, tmpl string }{
	{"rhs", "F.In = %s"},
	{"rhs-arg", "F.In = F.Add(%s, 0)"},
	{"rhs-bracket", "F.In = (%s) * 2"},
}

func sharedWorld() *ref.World {
	w := ref.NewWorld()
	f := facts.New()
	f.M = map[string]int64{"a": 0}
	f.Arr = []int64{0, 5}
	f.P = &facts.Sub{V: 0}
	f.SelArr = []int64{1, 2, 3, 99, 99, 99, 99, 99, 99}
	w.Objs["F"] = f
	return w
}

func sharedRoles(maxCycle uint64, emit func(Case)) {
	fill := func(t, e string) string { return strings.ReplaceAll(t, "%s", e) }
	for _, se := range sharedEs {
		for i, ra := range sharedCondRoles {
			for j, rb := range sharedCondRoles {
				for k, ab := range sharedActRoles {
					for _, s2 := range []int64{0, 1, 2} {
						a := grl.R("ra", grl.Sal(1), fill(ra.tmpl, se.e), se.bump)
						b := grl.R("rb", grl.Sal(s2), fill(rb.tmpl, se.e)+" && F.K < 2", fill(ab.tmpl, se.e), "F.K = F.K + 1")
						emit(Case{ID: fmt.Sprintf("shared/%s/%d.%d.%d/s%d", se.name, i, j, k, s2), Rules: []*grl.Rule{a, b},
							Worlds: []func() *ref.World{sharedWorld}, WorldNames: []string{"zero"}, Opts: hx.RunOpts{MaxCycle: maxCycle},
							Meta: map[string]string{"loc": "shared-" + se.name, "alias": "identical-expression", "form": ab.name, "shape": ra.name + "," + rb.name}})
					}
				}
			}
		}
	}
}

// judgeTransparent: the run equals the reference model's run in every observable respect (used by C07:
// sharing one node between the two rules must not be observable).
func judgeTransparent(c *Case, tr *hx.Trace, w *ref.World) []Verdict {
	var out []Verdict
	nt := false
	for _, v := range append(judgeC01(c, tr, w), judgeC02(c, tr, w)...) {
		if v.Nontrivial {
			nt = true
		}
		if v.Sig != "" {
			out = append(out, Verdict{Sig: "C07:shared-expression-observable:" + c.Meta["loc"] + ":" + c.Meta["shape"] + ":" + c.Meta["form"], What: "two rules share one expression node and the run differs from the rules' own meaning: " + v.What})
		}
	}
	for _, cy := range tr.Cycles {
		if cy.Exec != "" && cy.PostChecked && !cy.PostOK && cy.ModelErr == nil {
			out = append(out, Verdict{Sig: "C07:shared-expression-observable:" + c.Meta["loc"] + ":" + c.Meta["shape"] + ":" + c.Meta["form"], What: fmt.Sprintf("cycle %d (%s): an action computed from a shared expression left other facts than the rule's own meaning:\n%s", cy.N, cy.Exec, cy.PostDiff)})
		}
	}
	out = append(out, Verdict{Nontrivial: nt})
	return out
}

// forgetCall: a getter without arguments whose result changes when a field is assigned (no variable of
// its receiver or arguments is) - the rule announces that by naming the CALL in Forget/Changed, the only
// invalidation route for such a call. Getter in 6 syntactic positions x Forget/Changed x {alone, unrelated second rule, second rule
// reading the same getter}.
func forgetCall(maxCycle uint64, emit func(Case)) {
	shapes := []struct{ name, cond string }{
		{"bare", "F.GetI() < 2"}, {"bracket", "(F.GetI() < 2)"}, {"neg-bracket", "!(F.GetI() >= 2)"},
		{"arith", "F.GetI() + 1 < 3"}, {"method-arg", "F.Add(F.GetI(), 0) < 2"}, {"and-left", "F.GetI() < 2 && F.K < 5"},
	}
	world := func() *ref.World {
		w := ref.NewWorld()
		w.Objs["F"] = facts.New()
		w.Objs["G"] = facts.New()
		return w
	}
	for _, sh := range shapes {
		for _, fn := range []string{"Forget", "Changed"} {
			for si, second := range []*grl.Rule{nil,
				grl.R("other", grl.Sal(1), "G.I < 1", "G.I = 1"),
				grl.R("reader", nil, "F.GetI() >= 2 && F.K < 1", "F.K = 1", "G.I2 = F.GetI()")} {
				ra := grl.R("ra", nil, sh.cond, "F.I = F.I + 1", fn+`("F.GetI()")`)
				rules := []*grl.Rule{ra}
				if second != nil {
					rules = append(rules, second)
				}
				emit(Case{ID: fmt.Sprintf("forgetcall/%s/%s/%d", sh.name, fn, si), Rules: rules,
					Worlds: []func() *ref.World{world}, WorldNames: []string{"zero"}, Opts: hx.RunOpts{MaxCycle: maxCycle},
					Meta: map[string]string{"loc": "getter-call", "alias": "forget-by-call-text", "form": fn, "shape": sh.name}})
			}
		}
	}
}

// forgetCallStr: like forgetCall, with a call whose TEXT contains a string literal (with blanks, a tab escape,
// doubled blanks, none): Forget/Changed name the call by exactly that text.
func forgetCallStr(maxCycle uint64, emit func(Case)) {
	world := func() *ref.World {
		w := ref.NewWorld()
		w.Objs["F"] = facts.New()
		return w
	}
	lits := []struct{ name, lit, esc string }{
		{"blank", `"hot item"`, `\"hot item\"`}, {"two-blanks", `"a  b"`, `\"a  b\"`}, {"no-blank", `"hot"`, `\"hot\"`}, {"leading-blank", `" x"`, `\" x\"`},
	}
	shapes := []struct{ name, tmpl string }{
		{"negated", "!F.TagIs(%s)"}, {"and-left", "!F.TagIs(%s) && F.K < 5"}, {"eq-false", "F.TagIs(%s) == false"},
	}
	for _, l := range lits {
		for _, sh := range shapes {
			for _, fn := range []string{"Forget", "Changed"} {
				for si := 0; si < 2; si++ {
					call := "F.TagIs(" + l.lit + ")"
					ra := grl.R("ra", nil, strings.ReplaceAll(sh.tmpl, "%s", l.lit), "F.S = "+l.lit, fn+`("F.TagIs(`+l.esc+`)")`)
					rules := []*grl.Rule{ra}
					if si == 1 {
						rules = append(rules, grl.R("reader", nil, call+" && F.K < 1", "F.K = 1"))
					}
					emit(Case{ID: fmt.Sprintf("forgetcallstr/%s/%s/%s/%d", l.name, sh.name, fn, si), Rules: rules,
						Worlds: []func() *ref.World{world}, WorldNames: []string{"zero"}, Opts: hx.RunOpts{MaxCycle: maxCycle},
						Meta: map[string]string{"loc": "call-with-string-literal", "alias": "forget-by-call-text", "form": fn, "shape": sh.name + ":" + l.name}})
				}
			}
		}
	}
}
