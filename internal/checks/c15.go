package checks

import (
	"context"
	"errors"
	"fmt"
	"strconv"
	"strings"
	"sync/atomic"
	"time"

	"verif/internal/ev"
	"verif/internal/facts"
	"verif/internal/grl"
	"verif/internal/hx"
	"verif/internal/ref"
)

var c15Kinds = []struct {
	cond string
	acts []string
}{
	{"F.Chk(%1) && F.I < 2", []string{"F.Act(%2)", "F.I = F.I + 1", "F.Act(%3)"}},
	{"F.I2 < 1", []string{"F.I2 = F.I2 + 1", "F.Act(%2)"}},
	{"F.I >= 1 && F.Chk(%1)", []string{"Complete()", "F.Act(%2)"}},
	{"F.I < 0", []string{"F.Act(%2)"}},
	{"F.B", []string{"F.Act(%2)", "F.B = false"}},
	// rules that retract themselves (the condition stays true) or every rule of the program: after them nothing,
	// or less, is left to select
	{"F.I2 < 5", []string{"F.Act(%2)", `Retract("%n")`, "F.Act(%3)"}},
	{"F.I < 5", []string{`Retract("r1")`, `Retract("r2")`, "F.Act(%2)", `Retract("r3")`}},
}

func c15Rule(i, k int) *grl.Rule {
	rep := func(s string) string {
		for d := 1; d <= 3; d++ {
			s = strings.ReplaceAll(s, "%"+strconv.Itoa(d), strconv.Itoa(i*10+d))
		}
		s = strings.ReplaceAll(s, "%n", fmt.Sprintf("r%d", i))
		return s
	}
	r := &grl.Rule{Name: fmt.Sprintf("r%d", i), When: grl.E(rep(c15Kinds[k].cond))}
	for _, a := range c15Kinds[k].acts {
		r.Then = append(r.Then, grl.A(rep(a)))
	}
	return r
}

func c15World() *ref.World {
	w := ref.NewWorld()
	f := facts.New()
	f.B = true
	w.Objs["F"] = f
	return w
}

func c15Judge(rules []*grl.Rule, cause error, tr *hx.Trace) (sig, what string, nontrivial bool) {
	if tr.Panic != nil {
		return "C15:panic", fmt.Sprint(tr.Panic), true
	}
	flip := -1
	for i, e := range tr.Events {
		if e == "FLIP" {
			flip = i
			break
		}
	}
	if flip < 0 {
		return "", "", false // the context never flipped in this run (flip point beyond the run)
	}
	nontrivial = true
	// the rule executing at the flip: last X before FLIP with no B/V after it
	executing := ""
	for i := 0; i < flip; i++ {
		e := tr.Events[i]
		switch e[0] {
		case 'X':
			if e[1] >= '0' && e[1] <= '9' {
				executing = strings.SplitN(e, ":", 2)[1]
			}
		case 'B', 'V':
			if e[1] >= '0' && e[1] <= '9' {
				executing = ""
			}
		}
	}
	if flip > 0 {
		// the flip came during the ExecuteRuleEntry callback or at the guard before the first
		// action: the announced rule was not executing yet, none of its actions may start
		if p := tr.Events[flip-1]; p[0] == 'X' && p[1] >= '0' && p[1] <= '9' {
			executing = ""
		}
	}
	for i := flip + 1; i < len(tr.Events); i++ {
		e := tr.Events[i]
		if e[0] == 'X' && e[1] >= '0' && e[1] <= '9' {
			return "C15:rule-fired-after-cancellation", fmt.Sprintf("event %q after the context flipped (events %v)", e, tr.Events), true
		}
		if strings.HasPrefix(e, "act:") {
			id, _ := strconv.Atoi(e[4:])
			owner := fmt.Sprintf("r%d", id/10)
			if owner != executing {
				return "C15:action-started-after-cancellation", fmt.Sprintf("action probe %s of %s ran after the context flipped while %q was executing (events %v)", e, owner, executing, tr.Events), true
			}
		}
	}
	if tr.Err != nil {
		if !errors.Is(tr.Err, cause) && !strings.Contains(tr.Err.Error(), cause.Error()) {
			return "C15:wrong-error-after-cancellation", fmt.Sprintf("Execute returned %v, context error is %v", tr.Err, cause), true
		}
		return "", "", true
	}
	// nil after a flip: only when an action called Complete() (C10: Execute then returns nil)
	if tr.Completed {
		return "", "", true
	}
	if executing != "" {
		// every flip of this check happens while Execute is at work (inside a poll, an action or a callback); one that
		// comes during the actions of a rule is followed by at least the decision whether anything is left to do
		return "C15:nil-return-after-cancellation-during-actions", fmt.Sprintf("the context flipped during the actions of %s, yet Execute returned nil instead of the context's error (events %v)", executing, tr.Events), true
	}
	if flip > 0 && (tr.Events[flip-1][0] == 'B' || tr.Events[flip-1][0] == 'V') {
		// the flip came inside a listener callback of the evaluation phase: the engine polls the context again before it
		// decides anything (before the next rule, after the last one), whether or not any rule is active
		return "C15:nil-return-after-cancellation-in-a-listener-callback", fmt.Sprintf("the context flipped inside the callback %s, yet Execute returned nil instead of the context's error (events %v)", tr.Events[flip-1], tr.Events), true
	}
	if len(tr.FinalCands) > 0 {
		return "C15:nil-return-despite-cancellation-with-work-left", fmt.Sprintf("context flipped during the run, rules %v are satisfied on the final facts, yet Execute returned nil (events %v)", tr.FinalCands, tr.Events), true
	}
	return "", "", true
}

func C15(rep *ev.Reporter, tier string) {
	bud := NewBudget(150 * time.Second)
	if tier == "thorough" {
		bud = NewBudget(9 * time.Minute)
	}
	type prog struct {
		id    string
		rules []*grl.Rule
	}
	var progs []prog
	nk := len(c15Kinds)
	for a := 0; a < nk; a++ {
		progs = append(progs, prog{fmt.Sprintf("c15/k1/%d", a), []*grl.Rule{c15Rule(1, a)}})
		for b := 0; b < nk; b++ {
			if a != b {
				progs = append(progs, prog{fmt.Sprintf("c15/k2/%d.%d", a, b), []*grl.Rule{c15Rule(1, a), c15Rule(2, b)}})
			}
		}
	}
	for a := 0; a < nk; a++ {
		for b := a + 1; b < nk; b++ {
			for c := b + 1; c < nk; c++ {
				progs = append(progs, prog{fmt.Sprintf("c15/k3/%d.%d.%d", a, b, c), []*grl.Rule{c15Rule(1, a), c15Rule(2, b), c15Rule(3, c)}})
			}
		}
	}
	innerB, ierr := hx.Build(hx.NewProgram([]*grl.Rule{grl.R("n1", nil, "F.I < 2", "F.I = F.I + 1")}, grl.Style{}))
	if ierr != nil {
		rep.Violation("harness:build-failed:c15-inner", ierr.Error(), nil)
		return
	}
	var runs, nontrivial, pollPoints, eventPoints int64
	ParallelEach(len(progs), func(i int) {
		p := progs[i]
		if rep.ReplayFilter != "" && !strings.HasPrefix(rep.ReplayFilter, p.id+"#") {
			return
		}
		if bud.Over() {
			return
		}
		b, err := hx.Build(hx.NewProgram(p.rules, grl.Style{}))
		if err != nil {
			rep.Violation("harness:build-failed:"+p.id, err.Error(), map[string]interface{}{"case": p.id})
			return
		}
		nperm := hx.NPerms(len(p.rules))
		for _, flag := range []bool{false, true} {
			for order := 0; order < nperm; order++ {
				// fault-free run: count polls and events
				pc0 := hx.NewPollCtx(0, nil)
				tr0 := hx.Run(b, c15World(), hx.RunOpts{MaxCycle: 6, ReturnErr: flag, DefaultChoice: order, Ctx: pc0, NoSnapshots: true})
				P := pc0.Polls
				E := len(tr0.Events) - 1 // without "ret:"
				customCause := false
				one := func(mode string, idx int, cause error, far bool) (string, string, bool, *hx.Trace) {
					var pc *hx.PollCtx
					o := hx.RunOpts{MaxCycle: 6, ReturnErr: flag, DefaultChoice: order, NoSnapshots: true}
					switch mode {
					case "poll-nested":
						// the run shares its *GruleEngine value with another run - own instance, facts and (never
						// cancelled) context - that starts and ends inside the first probe of this run
						pc = hx.NewPollCtx(idx, cause)
						se := hx.NewSharedEngine(6, flag)
						o.Shared = se
						nested := false
						o.OnProbe = func(kind string, id int64, n int) {
							if !nested {
								nested = true
								hx.Run(innerB, c15World(), hx.RunOpts{Shared: se, NoSnapshots: true})
							}
						}
					case "poll":
						pc = hx.NewPollCtx(idx, cause)
					case "event":
						pc = hx.NewPollCtx(0, cause)
						n := 0
						o.OnEvent = func(e string) {
							if e == "FLIP" {
								return
							}
							n++
							if n == idx {
								pc.Cancel()
							}
						}
					case "pre", "pre-completed":
						pc = hx.NewPollCtx(0, cause)
					}
					if far {
						pc.DeadlineAt = time.Date(2999, 1, 1, 0, 0, 0, 0, time.UTC)
					}
					if customCause {
						pc.WithCustomCause()
					}
					o.Ctx = pc
					w := c15World()
					var tr *hx.Trace
					if mode == "pre" || mode == "pre-completed" {
						kb, _ := b.Instance()
						if mode == "pre-completed" {
							// the data context served before and was left completed (an earlier run ended with Complete())
							if dc, err := hx.NewDataContext(w); err == nil {
								dc.Complete()
								o.DataCtx = dc
							}
						}
						tr = &hx.Trace{MaxCycle: 6}
						// flip before Execute is called: the FLIP marker goes first
						tr.Events = append(tr.Events, "FLIP")
						pc.Cancel()
						tr = hx.RunOn(b.Prog, kb, w, o, tr)
						if tr.Fired > 0 {
							return "C15:rule-fired-on-already-cancelled-context", fmt.Sprintf("events %v", tr.Events), true, tr
						}
						if tr.Err == nil || !errors.Is(tr.Err, cause) {
							return "C15:already-cancelled-context-not-reported", fmt.Sprintf("Execute returned %v", tr.Err), true, tr
						}
						return "", "", true, tr
					}
					tr = hx.Run(b, w, o)
					s, wh, nt := c15Judge(p.rules, cause, tr)
					if s == "" && !pc.Flipped() && hx.OrderLive() {
						// the context was never cancelled in this run: it is the fault-free run
						if got, want := hx.Evs(tr.Events), hx.Evs(tr0.Events); got != want {
							return "C15:run-differs-although-the-context-was-never-cancelled", fmt.Sprintf("the context did not flip during this run (%s), yet it observed\n   %s\n  while the run on a never-cancelled context observes\n   %s", mode, got, want), true, tr
						}
					}
					return s, wh, nt, tr
				}
				try := func(mode string, idx int, cname string, cause error, far bool) {
					caseID := fmt.Sprintf("%s#f%v#o%d#%s%d#%s", p.id, flag, order, mode, idx, cname)
					if rep.ReplayFilter != "" && rep.ReplayFilter != caseID {
						return
					}
					sig, what, nt, tr := one(mode, idx, cause, far)
					atomic.AddInt64(&runs, 1)
					if nt {
						atomic.AddInt64(&nontrivial, 1)
					}
					if sig != "" {
						s2, _, _, _ := one(mode, idx, cause, far)
						if s2 != sig {
							fmt.Printf("HARNESS-NONDETERMINISM property=C15 case=%s\n", caseID)
							return
						}
						where := c15Where(tr)
						rep.Violation(sig+":"+where, what+"\n  case: "+caseID+"\n  grl: "+strings.ReplaceAll(b.Prog.Text, "\n", "\n       "), map[string]interface{}{"case": caseID, "grl": b.Prog.Text, "events": tr.Events})
					}
				}
				// canceled-before-deadline: the context carries a (far) deadline and is cancelled explicitly before it
				for ci, cause := range []error{context.Canceled, context.DeadlineExceeded, context.Canceled, context.Canceled} {
					cname := []string{"canceled", "deadline", "canceled-before-deadline", "canceled-with-custom-cause"}[ci]
					far := ci == 2
					customCause = ci == 3
					for pidx := 1; pidx <= P+1; pidx++ {
						atomic.AddInt64(&pollPoints, 1)
						try("poll", pidx, cname, cause, far)
					}
					if ci == 0 && strings.Contains(strings.Join(tr0.Events, " "), ":") && (strings.Contains(strings.Join(tr0.Events, " "), "chk:") || strings.Contains(strings.Join(tr0.Events, " "), "act:")) {
						for pidx := 1; pidx <= P+1; pidx++ {
							atomic.AddInt64(&pollPoints, 1)
							try("poll-nested", pidx, cname, cause, far)
						}
					}
					if ci != 1 {
						for e := 1; e <= E; e++ {
							atomic.AddInt64(&eventPoints, 1)
							try("event", e, cname, cause, far)
						}
					}
					try("pre", 0, cname, cause, far)
					try("pre-completed", 0, cname, cause, far)
				}
			}
		}
		if i%9 == 0 {
			rep.Sample(map[string]interface{}{"case": p.id, "grl": b.Prog.Text})
		}
	})
	rep.Coverage["programs"] = len(progs)
	rep.Coverage["evaluations"] = runs
	rep.Coverage["poll_flip_points"] = pollPoints
	rep.Coverage["event_flip_points"] = eventPoints
	rep.Coverage["distinct_nontrivial"] = nontrivial
	rep.Coverage["order_controlled"] = hx.OrderLive()
	if !hx.OrderLive() {
		rep.Exhaustive = false
		rep.Coverage["order_note"] = "the rule-order hook is not live on this tree: rule orders were NOT enumerated (each run took whatever order the Go runtime chose)"
	}
	if bud.Hit() {
		rep.Exhaustive = false
		rep.Coverage["caps_hit"] = "time budget"
	}
	rep.Coverage["rule"] = "35 programs (all 1-rule, all ordered 2-rule, all 3-rule selections of 5 rule kinds with condition and action probes, Complete, never-true, self-disabling) x both flag values x every static rule order; a fault-free run counts the engine's Err() polls P and its observable events E; then one run for EVERY poll index 1..P+1 (Canceled, DeadlineExceeded, Canceled on a context that carries a deadline far in the future, and Canceled on a context cancelled with a custom cause - Execute returns the context's error, not the cause), EVERY event index 1..E as cancellation trigger (inside a condition probe, inside an action probe, in BeginCycle / EvaluateRuleEntry / ExecuteRuleEntry callbacks) and the already-cancelled context; every poll index again while the engine VALUE is shared with another complete run (own instance, facts and never-cancelled context) nested inside the first probe of the run. Oracle: no ExecuteRuleEntry and no action probe of another rule after the flip; already-cancelled: zero firings; the context's error is returned unless Complete was called or no active rule is satisfied on the final facts. Non-trivial: the context really flipped during the run."
	rep.Assumptions = append(rep.Assumptions, "a cancellation after the engine's last look at the context is indistinguishable from one after return and is accepted when no satisfied rule is left")
}

// c15Where classifies where the flip happened (for signatures).
func c15Where(tr *hx.Trace) string {
	prev := "start"
	for _, e := range tr.Events {
		if e == "FLIP" {
			break
		}
		switch {
		case strings.HasPrefix(e, "chk:"):
			prev = "in-or-after-condition-probe"
		case strings.HasPrefix(e, "act:"):
			prev = "in-or-after-action-probe"
		case e[0] == 'B':
			prev = "after-BeginCycle"
		case e[0] == 'V':
			prev = "after-EvaluateRuleEntry"
		case e[0] == 'X':
			prev = "after-ExecuteRuleEntry"
		}
	}
	return "flip-" + prev
}
