package checks

import (
	"testing"

	"verif/internal/grl"
	"verif/internal/hx"
)

func BenchmarkRun(b *testing.B) {
	r1 := mkRule("ra", c03Kinds[0], 1)
	r2 := mkRule("rb", c03Kinds[2], 2)
	r3 := mkRule("rc", c03Kinds[4], 3)
	p := hx.NewProgram([]*grl.Rule{r1, r2, r3}, grl.Style{})
	bl, err := hx.Build(p)
	if err != nil {
		b.Fatal(err)
	}
	mk := worldIB(0, true)
	b.ResetTimer()
	for i := 0; i < b.N; i++ {
		hx.Run(bl, mk(), hx.RunOpts{MaxCycle: 6})
	}
}
