package checks

import (
	"bytes"
	"errors"
	"fmt"
	"sort"
	"strings"
	"sync"
	"sync/atomic"
	"time"

	"github.com/hyperjumptech/grule-rule-engine/ast"
	"github.com/hyperjumptech/grule-rule-engine/builder"
	"github.com/hyperjumptech/grule-rule-engine/pkg"

	"verif/internal/ev"
	"verif/internal/facts"
	"verif/internal/grl"
	"verif/internal/hx"
	"verif/internal/recog"
	"verif/internal/ref"
)

var c17Docs = []string{
	`rule first salience 0x10 { when F.B then F.I = 1; } rule second "d2" { when !F.B then F.I = 2; }`,
	`rule SpeedUp "When testcar is speeding up" salience 10 { when TestCar.SpeedUp == true && TestCar.Speed < TestCar.MaxSpeed then TestCar.Speed = TestCar.Speed + TestCar.SpeedIncrement; Log("Speed increased"); }`,
	"rule R1 \"d\" salience -5 {\n when F.Arr[F.K] + 0x1F * 1.5e3 >= F.M[\"a\"] || !(F.S.Len() > 017) // c\n then F.I += 1; /* b */ Retract(\"R1\");\n}\nrule R2 { when F.B then F.S = 'a\\'b' + \"é\"; }",
	`rule Q1 'it\'s' salience 1 { when F.B then F.I = 1; } rule Q2 'caf\u00e9 \t "dq" \\' { when F.B then F.I = 2; } rule Q3 "say \"hi\" \x41\101 'sq'" { when F.B then F.I = 3; }`,
	`RULE Up 'single' SALIENCE 0x10 { WHEN TRUE && !F.B || nil == F.P THEN F.F -= .5; F.F *= 2.; F.F /= 0x1p-2; F.X().Y[1].Z(1, "two", F.W) ; }`,
	`rule a { when 1 - -1 == 2 % 3 & 4 | 5 then F.I = -0x10; F.I = 1 -1; Complete(); } rule b salience -017 { when F.I != 1 && F.I <= 2 && F.I >= 3 && F.I > 4 then F.M["k"].V = F.Add(F.I, -1.5e-3); }`,
}

// tokens offered for replacement / insertion
var c17Alphabet = []string{
	"rule", "RULE", "when", "WHEN", "then", "Then", "salience", "SALIENCE", "true", "FALSE", "nil", "NIL",
	"{", "}", "(", ")", "[", "]", ";", ",", ".", "+", "-", "*", "/", "%", "&", "|", "&&", "||", "!", "=", "==", "!=", "<", "<=", ">", ">=", "+=", "-=", "*=", "/=",
	"x", "F", "rules", "whenx", "_a", "é",
	"0", "7", "017", "08", "0x1F", "0x", "1.5", ".5", "1e3", "1.", "0x1p-2", "99999999999999999999", "2147483648", "1e999",
	`"s"`, `'s'`, `"a\qb"`, `"unterminated`, `""`, `"a""b"`,
	"@", "#", "$", "~", "^", "?", "\\", "`", "//", "/*", "*/", "/* c */",
}

var c17Chars = []string{`"`, `'`, `\`, "@", "#", "$", "~", "\x00", "7", "a", "\n", " ", "(", "}", ";", "\xff", "\r", "\t", "\f", "\v", "\u00a0", "\ufeff", "\u2028"}

type c17Mutant struct {
	text  string
	class string
}

func c17Mutants(doc string, tier string) []c17Mutant {
	var out []c17Mutant
	toks, _ := recog.Lex(doc, true)
	join := func(ts []string) string { return strings.Join(ts, "") }
	texts := make([]string, len(toks))
	var sig []int // indexes of significant tokens
	for i, t := range toks {
		texts[i] = t.Text
		if t.Kind != "SPACE" && t.Kind != "COMMENT" && t.Kind != "LINE_COMMENT" {
			sig = append(sig, i)
		}
	}
	with := func(i int, repl ...string) string {
		c := append([]string{}, texts[:i]...)
		c = append(c, repl...)
		c = append(c, texts[i+1:]...)
		return join(c)
	}
	for k, i := range sig {
		out = append(out, c17Mutant{with(i), "delete:" + toks[i].Kind})
		out = append(out, c17Mutant{with(i, texts[i], " ", texts[i]), "duplicate:" + toks[i].Kind})
		if k+1 < len(sig) {
			j := sig[k+1]
			c := append([]string{}, texts...)
			c[i], c[j] = c[j], c[i]
			out = append(out, c17Mutant{join(c), "swap:" + toks[i].Kind + "," + toks[j].Kind})
		}
		for _, a := range c17Alphabet {
			out = append(out, c17Mutant{with(i, a), "replace:" + toks[i].Kind + "->" + a})
			out = append(out, c17Mutant{with(i, a, " ", texts[i]), "insert-before:" + toks[i].Kind + ":" + a})
			if tier == "thorough" {
				out = append(out, c17Mutant{with(i, a, texts[i]), "insert-glued-before:" + toks[i].Kind + ":" + a})
			}
		}
	}
	for _, a := range c17Alphabet {
		out = append(out, c17Mutant{doc + " " + a, "append:" + a})
	}
	// whole-rule duplication and name collisions
	var ruleStarts, nameIdx []int
	for _, i := range sig {
		if toks[i].Kind == "RULE" {
			ruleStarts = append(ruleStarts, toks[i].Pos)
		}
	}
	for k, i := range sig {
		if toks[i].Kind == "RULE" && k+1 < len(sig) {
			nameIdx = append(nameIdx, sig[k+1])
		}
	}
	norm := recog.Normalise(doc)
	for k, st := range ruleStarts {
		end := len(norm)
		if k+1 < len(ruleStarts) {
			end = ruleStarts[k+1]
		}
		out = append(out, c17Mutant{norm + "\n" + norm[st:end], "duplicate-rule"})
		out = append(out, c17Mutant{norm[st:end] + "\n" + norm, "duplicate-rule-first"})
	}
	for _, a := range nameIdx {
		for _, b := range nameIdx {
			if a != b {
				out = append(out, c17Mutant{with(a, texts[b]), "rename-to-collide"})
			}
		}
	}
	step := 1
	if tier == "quick" {
		step = 3
	}
	for o := 0; o <= len(doc); o += step {
		if o < len(doc) {
			out = append(out, c17Mutant{doc[:o] + doc[o+1:], "char-delete"})
		}
		for _, c := range c17Chars {
			out = append(out, c17Mutant{doc[:o] + c + doc[o:], "char-insert:" + fmt.Sprintf("%q", c)})
			if o < len(doc) {
				out = append(out, c17Mutant{doc[:o] + c + doc[o+1:], "char-replace:" + fmt.Sprintf("%q", c)})
			}
		}
	}
	return out
}

type c17Outcome struct {
	err      error
	panicked interface{}
	rules    []recog.RuleInfo
	reporter bool
	nErrors  int
}

func c17Build(lib *ast.KnowledgeLibrary, text string) (o c17Outcome) {
	func() {
		defer func() {
			if r := recover(); r != nil {
				o.panicked = r
			}
		}()
		o.err = builder.NewRuleBuilder(lib).BuildRuleFromResource("KB", "1", pkg.NewBytesResource([]byte(text)))
	}()
	var rep *pkg.GruleErrorReporter
	if errors.As(o.err, &rep) && rep != nil {
		o.reporter = true
		o.nErrors = len(rep.Errors)
	}
	if kb, ok := lib.Library[ast.GetKnowledgeBaseKey("KB", "1")]; ok {
		for _, e := range kb.RuleEntries {
			o.rules = append(o.rules, recog.RuleInfo{Name: e.RuleName, Desc: e.RuleDescription, Salience: e.Salience})
		}
	}
	sort.Slice(o.rules, func(i, j int) bool { return o.rules[i].Name < o.rules[j].Name })
	return
}

var c17EntryNames = []string{"BuildRuleFromResources", "MustBuildRuleFromResources", "BuildRulesFromBundle", "MustBuildRulesFromBundle"}

type c17Bundle struct{ rs []pkg.Resource }

func (b c17Bundle) Load() ([]pkg.Resource, error) { return b.rs, nil }
func (b c17Bundle) MustLoad() []pkg.Resource      { return b.rs }

// c17Entry builds the texts, one resource each, through one multi-resource entry point into a fresh library.
func c17Entry(entry int, texts []string) (failed bool, what string) {
	var rs []pkg.Resource
	for _, t := range texts {
		rs = append(rs, pkg.NewBytesResource([]byte(t)))
	}
	rb := builder.NewRuleBuilder(ast.NewKnowledgeLibrary())
	var err error
	var pan interface{}
	func() {
		defer func() { pan = recover() }()
		switch entry {
		case 0:
			err = rb.BuildRuleFromResources("KB", "1", rs)
		case 1:
			rb.MustBuildRuleFromResources("KB", "1", rs)
		case 2:
			err = rb.BuildRulesFromBundle("KB", "1", c17Bundle{rs})
		case 3:
			rb.MustBuildRulesFromBundle("KB", "1", c17Bundle{rs})
		}
	}()
	switch {
	case pan != nil:
		return true, fmt.Sprintf("panicked: %v", firstLineOf(fmt.Sprint(pan)))
	case err != nil:
		return true, "returned " + firstLineOf(err.Error())
	}
	return false, "returned normally"
}

const c17Good = `rule g1 "keep" salience 4 { when F.I2 < 1 then F.I2 = F.I2 + 1; F.S = F.S + "g1"; }
rule g2 { when F.K < 1 && F.S.Len() >= 0 then F.K = F.K + 1; F.S = F.S + "g2"; }`

func c17Behaviour(lib *ast.KnowledgeLibrary, keep map[string]bool) string {
	kb, err := lib.NewKnowledgeBaseInstance("KB", "1")
	if err != nil {
		return "instance: " + err.Error()
	}
	for _, e := range kb.RuleEntries {
		if !keep[e.RuleName] && !e.Deleted {
			kb.RemoveRuleEntry(e.RuleName)
		}
	}
	w := ref.NewWorld()
	w.Objs["F"] = facts.New()
	tr := hx.RunOn(&hx.Program{ByName: map[string]*grl.Rule{}}, kb, w, hx.RunOpts{MaxCycle: 6, NoSnapshots: true}, nil)
	return fmt.Sprintf("%s | S=%q err=%v panic=%v", hx.Evs(tr.Events), w.Objs["F"].S, tr.Err, tr.Panic)
}

func C17(rep *ev.Reporter, tier string) {
	bud := NewBudget(150 * time.Second)
	docs := c17Docs[:4]
	if tier == "thorough" {
		bud = NewBudget(10 * time.Minute)
		docs = c17Docs
		// generated documents in every printing style
		for _, st := range []grl.Style{{}, {FullParen: true, Upper: 1}, {Tight: true, Upper: 2}, {Sp: "\n// c\n"}} {
			docs = append(docs, grl.PrintRules([]*grl.Rule{mkRule("ra", c03Kinds[2], 1), mkRule("rb", c03Kinds[4], 2)}, st))
			docs = append(docs, grl.PrintRules([]*grl.Rule{gen2Rule("ra", "rb", 5, 9), gen2Rule("rb", "ra", 10, 7)}, st))
		}
	}
	type job struct {
		doc int
		m   c17Mutant
	}
	var jobs []job
	for di, d := range docs {
		jobs = append(jobs, job{di, c17Mutant{d, "valid"}})
		for _, m := range c17Mutants(d, tier) {
			jobs = append(jobs, job{di, m})
		}
		// two faults in one text (on one line, when the document is a single line): a stray character before the first
		// rule / before the last rule, then every token deletion and duplication of the rest
		// (the second fault is made first: the lexer that splits the text into tokens stops at an illegal character)
		for _, m := range c17Mutants(d, "quick") {
			if !strings.HasPrefix(m.class, "delete:") && !strings.HasPrefix(m.class, "duplicate:") {
				continue
			}
			jobs = append(jobs, job{di, c17Mutant{"$ " + m.text, "two-faults:" + m.class}})
			if i := strings.LastIndex(m.text, "rule "); i > 0 {
				jobs = append(jobs, job{di, c17Mutant{m.text[:i] + "$ " + m.text[i:], "two-faults:" + m.class}})
			}
		}
	}
	var n, accepted, rejected, pairChecked int64
	var mu sync.Mutex
	report := func(sig, what, id, text string) {
		mu.Lock()
		rep.Violation(sig, what+"\n  text: "+fmt.Sprintf("%q", trunc(text, 400)), map[string]interface{}{"case": id, "grl": text})
		mu.Unlock()
	}
	goodKeep := map[string]bool{"g1": true, "g2": true}
	var goodBehaviour string
	{
		lib := ast.NewKnowledgeLibrary()
		if o := c17Build(lib, c17Good); o.err != nil {
			rep.Violation("harness:C17-good-prefix-rejected", o.err.Error(), nil)
			return
		}
		goodBehaviour = c17Behaviour(lib, goodKeep)
	}
	// a second good prefix per document whose rule NAMES are those of the document: the mutant's rules then
	// clash with loaded rules, and a rejected text must still leave the loaded ones alone
	type clashPrefix struct {
		text, behaviour string
		keep            map[string]bool
	}
	clash := make([]clashPrefix, len(docs))
	for di, d := range docs {
		names := []string{"g1", "g2"}
		for k, ri := range recog.Recognise(d).Rules {
			if k < 2 {
				names[k] = ri.Name
			}
		}
		t := strings.Replace(strings.Replace(c17Good, "rule g1 ", "rule "+names[0]+" ", 1), "rule g2 ", "rule "+names[1]+" ", 1)
		lib := ast.NewKnowledgeLibrary()
		if o := c17Build(lib, t); o.err != nil {
			rep.Violation("harness:C17-clash-prefix-rejected", o.err.Error()+"\n"+t, nil)
			return
		}
		keep := map[string]bool{names[0]: true, names[1]: true}
		clash[di] = clashPrefix{t, c17Behaviour(lib, keep), keep}
	}
	var clashChecked, entryChecked int64
	ParallelEach(len(jobs), func(ji int) {
		j := jobs[ji]
		id := fmt.Sprintf("c17/%d/%d", j.doc, ji)
		if rep.ReplayFilter != "" && rep.ReplayFilter != id {
			return
		}
		if bud.Over() {
			return
		}
		atomic.AddInt64(&n, 1)
		v := recog.Recognise(j.m.text)
		lib := ast.NewKnowledgeLibrary()
		o := c17Build(lib, j.m.text)
		mclass := strings.SplitN(j.m.class, ":", 2)[0]
		if o.panicked != nil {
			report("C17:builder-panics:"+c20PanicClass(fmt.Sprint(o.panicked)), fmt.Sprintf("BuildRuleFromResource panicked (%s): %v", j.m.class, o.panicked), id, j.m.text)
			return
		}
		if v.Accept {
			atomic.AddInt64(&accepted, 1)
			if o.err != nil {
				report("C17:grammatical-document-rejected:"+mclass+":"+c17ErrClass(o.err), fmt.Sprintf("the independent recogniser accepts the text (%s) but the builder returned: %s", j.m.class, firstLineOf(o.err.Error())), id, j.m.text)
				return
			}
			want := append([]recog.RuleInfo{}, v.Rules...)
			sort.Slice(want, func(a, b int) bool { return want[a].Name < want[b].Name })
			if fmt.Sprint(want) != fmt.Sprint(o.rules) {
				report("C17:accepted-rules-differ-from-declared:"+mclass, fmt.Sprintf("declared %v, knowledge base holds %v", want, o.rules), id, j.m.text)
			}
		} else {
			atomic.AddInt64(&rejected, 1)
			if o.err == nil {
				report("C17:ungrammatical-document-accepted:"+v.Reason+":"+mclass, fmt.Sprintf("the independent recogniser rejects the text (%s; mutation %s) but the builder returned nil; knowledge base holds %v", v.Reason, j.m.class, o.rules), id, j.m.text)
				return
			}
			// whatever the rejected text left in the knowledge base is usable: executing it never fails INSIDE the
			// engine (a damaged rule - parsed with a hole - shows as a reflect / nil-pointer failure when it fires)
			if len(o.rules) > 0 {
				var dmg string
				func() {
					defer func() {
						if r := recover(); r != nil {
							dmg = fmt.Sprintf("PANIC %v", r)
						}
					}()
					kb, err := lib.NewKnowledgeBaseInstance("KB", "1")
					if err != nil {
						dmg = "instance: " + err.Error()
						return
					}
					w := ref.NewWorld()
					w.Objs["F"] = facts.New()
					w.Objs["K"] = facts.New()
					tr := hx.RunOn(&hx.Program{ByName: map[string]*grl.Rule{}}, kb, w, hx.RunOpts{MaxCycle: 4, NoSnapshots: true}, nil)
					if tr.Panic != nil {
						dmg = fmt.Sprintf("PANIC %v", tr.Panic)
					} else if tr.Err != nil {
						for _, k := range []string{"reflect:", "zero Value", "nil pointer", "invalid memory", "interface conversion"} {
							if strings.Contains(tr.Err.Error(), k) {
								dmg = firstLineOf(tr.Err.Error())
							}
						}
					}
				}()
				if dmg != "" {
					report("C17:damaged-rule-added-by-a-rejected-text:"+c17DamageClass(dmg), fmt.Sprintf("the text is rejected (%s; mutation %s) but left rules %v in the knowledge base, and executing them fails inside the engine: %s", v.Reason, j.m.class, o.rules, dmg), id, j.m.text)
					return
				}
			}
			if !v.Syntax && (!o.reporter || o.nErrors < 1) {
				report("C17:syntax-error-without-error-reporter:"+v.Reason, fmt.Sprintf("error is %T (%v), not a GruleErrorReporter with entries", o.err, firstLineOf(o.err.Error())), id, j.m.text)
			}
			// a rejected text must not damage what was loaded before (every 5th mutant, fixed sub-family in quick)
			if tier == "thorough" || ji%5 == 0 {
				atomic.AddInt64(&pairChecked, 1)
				lib2 := ast.NewKnowledgeLibrary()
				c17Build(lib2, c17Good)
				o2 := c17Build(lib2, j.m.text)
				if o2.panicked != nil {
					return
				}
				pc := "after-" + v.Reason + "-rejection"
				var got string
				func() {
					defer func() {
						if r := recover(); r != nil {
							got = fmt.Sprintf("PANIC %v", r)
						}
					}()
					got = c17Behaviour(lib2, goodKeep)
				}()
				if got != goodBehaviour {
					report("C17:rejected-text-damages-loaded-rules:"+pc+":"+c17DamageClass(got), fmt.Sprintf("after the rejected resource (%s) the previously loaded rules behave\n   %s\n  instead of\n   %s", j.m.class, got, goodBehaviour), id, j.m.text)
					return
				}
				var buf bytes.Buffer
				var lerr error
				func() {
					defer func() {
						if r := recover(); r != nil {
							lerr = fmt.Errorf("PANIC %v", r)
						}
					}()
					if lerr = lib2.StoreKnowledgeBaseToWriter(&buf, "KB", "1"); lerr == nil {
						lib3 := ast.NewKnowledgeLibrary()
						if _, lerr = lib3.LoadKnowledgeBaseFromReader(bytes.NewReader(buf.Bytes()), true); lerr == nil {
							if got := c17Behaviour(lib3, goodKeep); got != goodBehaviour {
								lerr = fmt.Errorf("loaded copy behaves %s", got)
							}
						}
					}
				}()
				if lerr != nil {
					report("C17:rejected-text-damages-store-load:"+pc+":"+c17DamageClass(lerr.Error()), fmt.Sprintf("after the rejected resource (%s): %v", j.m.class, lerr), id, j.m.text)
				}
			}
		}
		if tier == "thorough" || ji%5 == 0 {
			cp := clash[j.doc]
			lib2 := ast.NewKnowledgeLibrary()
			c17Build(lib2, cp.text)
			o2 := c17Build(lib2, j.m.text)
			if o2.panicked == nil && o2.err != nil {
				atomic.AddInt64(&clashChecked, 1)
				var got string
				func() {
					defer func() {
						if r := recover(); r != nil {
							got = fmt.Sprintf("PANIC %v", r)
						}
					}()
					got = c17Behaviour(lib2, cp.keep)
				}()
				if got != cp.behaviour {
					report("C17:rejected-text-damages-loaded-rules:same-rule-names:"+c17DamageClass(got), fmt.Sprintf("the rejected resource (%s) names rules like the loaded ones; afterwards the previously loaded rules behave\n   %s\n  instead of\n   %s", j.m.class, got, cp.behaviour), id, j.m.text)
				}
			}
		}
		// the multi-resource entry points (BuildRuleFromResources, its Must variant, BuildRulesFromBundle, its Must
		// variant): the text alone, after a good resource, before one, and between two - a rejected text anywhere
		// in the list makes the call fail (the Must variants panic), an accepted one leaves every rule in place
		if tier == "thorough" || ji%20 == 0 {
			clashes := false
			for _, ri := range v.Rules {
				if ri.Name == "g1" || ri.Name == "g2" || ri.Name == "zq1" {
					clashes = true
				}
			}
			if !clashes {
				const tail = `rule zq1 { when F.K < 0 then F.K = 1; }`
				for ai, arr := range [][]string{{j.m.text}, {c17Good, j.m.text}, {j.m.text, tail}, {c17Good, j.m.text, tail}} {
					for entry := 0; entry < 4; entry++ {
						atomic.AddInt64(&entryChecked, 1)
						failed, what := c17Entry(entry, arr)
						if failed == v.Accept {
							verdict := "rejects"
							if v.Accept {
								verdict = "accepts"
							}
							report(fmt.Sprintf("C17:multi-resource-entry-point-disagrees:%s:%s", c17EntryNames[entry], verdict), fmt.Sprintf("%s over %d resources (the text at position %d of arrangement %d): the recogniser %s the text (%s), the call %s", c17EntryNames[entry], len(arr), ai/2+ai%2, ai, verdict, j.m.class, what), id, j.m.text)
						}
					}
				}
			}
		}
		if ji%20000 == 0 {
			rep.Sample(map[string]interface{}{"case": id, "mutation": j.m.class, "text": trunc(j.m.text, 300), "recogniser_accepts": v.Accept, "reason": v.Reason})
		}
	})
	rep.Coverage["evaluations"] = n
	rep.Coverage["states"] = n
	rep.Coverage["transitions"] = n + pairChecked
	rep.Coverage["traces_validated_against_impl"] = n
	rep.Coverage["distinct_nontrivial"] = n
	{
		var texts []string
		for _, d := range docs {
			texts = append(texts, d, d+"\nrule", d[:len(d)*2/3], d+"\n"+d)
		}
		rep.Coverage["delivery_builds"] = c17Delivery(texts, tier, report)
	}
	rep.Coverage["documents"] = len(docs)
	rep.Coverage["recogniser_accepts"] = accepted
	rep.Coverage["recogniser_rejects"] = rejected
	rep.Coverage["good_then_rejected_pairs"] = pairChecked
	rep.Coverage["good_with_same_names_then_rejected_pairs"] = clashChecked
	rep.Coverage["multi_resource_entry_point_calls"] = entryChecked
	if bud.Hit() {
		rep.Exhaustive = false
		rep.Coverage["caps_hit"] = "time budget"
	}
	rep.Coverage["rule"] = fmt.Sprintf("%d valid documents covering every grammar alternative; for each EVERY single mutation at EVERY token position (delete, duplicate, swap with next, replace by / insert each of %d alphabet tokens: keywords in several cases, all punctuation and operators, identifiers incl. reserved-word look-alikes, every literal class incl. out-of-range and malformed ones, illegal characters, comment openers) and character-level delete / insert / replace with %d characters (quick: at every 3rd byte). Oracle: an independent recogniser (maximal-munch lexer transcribed from the token rules + Earley recogniser over the literally transcribed parser rules + literal validity + distinct names): BuildRuleFromResource == nil iff it accepts; on acceptance the knowledge base holds exactly the declared rules (name, unquoted description, salience); a lexical/syntactic rejection is a GruleErrorReporter with >= 1 entry; never a panic; whatever rules a rejected text leaves in the knowledge base can be instantiated and executed without a failure inside the engine (no damaged rule is added). For rejected mutants (quick: every 5th) the text is also built after a good 2-rule resource: the good rules must still instantiate, execute, store and load with unchanged behaviour; and after a good resource whose rules carry the SAME NAMES as the document's (so the text - valid or mutant - is rejected at least for the name clash): the loaded rules still behave as before. Every 20th mutant (thorough: every one) goes through the four multi-resource entry points (BuildRuleFromResources, MustBuildRuleFromResources, BuildRulesFromBundle, MustBuildRulesFromBundle) alone, after a good resource, before one and between two: the call fails (panics) iff the recogniser rejects the text. Delivery: every document, and three rejected variants of it, reaches the builder through every offline resource kind (bytes, file, file bundle, reader) and every reader behaviour the io.Reader contract allows (chunk sizes, (0, nil) reads before chunks and at every single position, EOF with or after the last data): same verdict and same rules; a reader failing mid-way is never accepted.", len(docs), len(c17Alphabet), len(c17Chars))
	rep.Assumptions = append(rep.Assumptions, "the recogniser was validated against the valid corpus and every disagreement met during development was classified by hand (DESIGN.md §5 C17)")
}

func c17ErrClass(err error) string {
	s := err.Error()
	for _, k := range []string{"mismatched input", "no viable alternative", "extraneous input", "missing", "token recognition", "already exist", "duplicate", "out of range", "invalid syntax", "quoted string"} {
		if strings.Contains(s, k) {
			return strings.ReplaceAll(k, " ", "-")
		}
	}
	return "other"
}

func c17DamageClass(s string) string {
	for _, k := range []string{"not on the clone table", "nil pointer", "PANIC", "instance:", "interface conversion", "behaves"} {
		if strings.Contains(s, k) {
			return strings.ReplaceAll(strings.TrimSuffix(k, ":"), " ", "-")
		}
	}
	return "behaviour-differs"
}
