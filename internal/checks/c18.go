package checks

import (
	"encoding/json"
	"fmt"
	"math"
	"strings"
	"sync"
	"sync/atomic"
	"time"

	"github.com/hyperjumptech/grule-rule-engine/ast"
	"github.com/hyperjumptech/grule-rule-engine/builder"
	"github.com/hyperjumptech/grule-rule-engine/pkg"

	"verif/internal/ev"
	"verif/internal/facts"
	"verif/internal/grl"
	"verif/internal/hx"
	"verif/internal/ref"
)

var c18OpMap = map[string]string{"and": "&&", "or": "||", "eq": "==", "not": "!=", "gt": ">", "gte": ">=", "lt": "<", "lte": "<=",
	"bor": "|", "band": "&", "plus": "+", "minus": "-", "div": "/", "mul": "*", "mod": "%"}

// c18ToExpr is the reference reading of a JSON operand: operands grouped exactly as nested,
// n-ary operators left-associated.
func c18ToExpr(j interface{}) (e grl.Expr, err error) {
	defer func() {
		if r := recover(); r != nil {
			err = fmt.Errorf("%v", r)
		}
	}()
	switch x := j.(type) {
	case string:
		return &grl.Paren{X: grl.E(x)}, nil // raw GRL text is one operand
	case float64:
		if x == math.Trunc(x) && math.Abs(x) < 1e15 {
			return grl.I(int64(x)), nil
		}
		return grl.Fl(x), nil
	case bool:
		return grl.Bo(x), nil
	case map[string]interface{}:
		if len(x) != 1 {
			return nil, fmt.Errorf("malformed")
		}
		for k, v := range x {
			switch k {
			case "obj":
				s, ok := v.(string)
				if !ok {
					return nil, fmt.Errorf("malformed")
				}
				return grl.E(s), nil
			case "const":
				switch c := v.(type) {
				case string:
					return grl.S(c), nil
				case float64:
					if c == math.Trunc(c) && math.Abs(c) < 9.3e18 {
						return grl.I(int64(c)), nil
					}
					return grl.Fl(c), nil
				case bool:
					return grl.Bo(c), nil
				}
				return nil, fmt.Errorf("malformed")
			case "call":
				arr, ok := v.([]interface{})
				if !ok || len(arr) == 0 {
					return nil, fmt.Errorf("malformed")
				}
				name, ok := arr[0].(string)
				if !ok {
					return nil, fmt.Errorf("malformed")
				}
				var args []string
				call := grl.E(name + "()").(*grl.Call)
				for _, a := range arr[1:] {
					ae, err := c18ToExpr(a)
					if err != nil {
						return nil, err
					}
					call.Args = append(call.Args, ae)
				}
				_ = args
				return call, nil
			}
			op, ok := c18OpMap[k]
			if !ok {
				return nil, fmt.Errorf("malformed")
			}
			arr, ok := v.([]interface{})
			if ok && len(arr) == 1 && k == "not" {
				// the unary form: logical negation of its operand
				oe, err := c18ToExpr(arr[0])
				if err != nil {
					return nil, err
				}
				return &grl.Not{X: &grl.Paren{X: oe}}, nil
			}
			if !ok || len(arr) < 2 {
				return nil, fmt.Errorf("malformed")
			}
			var acc grl.Expr
			for i, o := range arr {
				oe, err := c18ToExpr(o)
				if err != nil {
					return nil, err
				}
				if i == 0 {
					acc = oe
				} else {
					acc = &grl.Bin{Op: op, L: acc, R: oe}
				}
			}
			return &grl.Paren{X: acc}, nil
		}
	}
	return nil, fmt.Errorf("malformed")
}

func c18World() *ref.World {
	w := ref.NewWorld()
	f := facts.New()
	f.I, f.I2, f.F, f.S, f.B = 5, 3, 1.5, "xy", true
	w.Objs["F"] = f
	w.Objs["K"] = facts.New()
	return w
}

// c18WorldAlt: every comparison of the base world comes out the other way, the float is not a number.
func c18WorldAlt() *ref.World {
	w := ref.NewWorld()
	f := facts.New()
	f.I, f.I2, f.F, f.S, f.B = 3, 5, math.NaN(), "x\"y", false
	w.Objs["F"] = f
	w.Objs["K"] = facts.New()
	return w
}

var c18Worlds = []func() *ref.World{c18World, c18WorldAlt}

type c18Case struct {
	id    string
	when  interface{}
	then  []interface{}
	class string
}

func jm(k string, v ...interface{}) map[string]interface{} { return map[string]interface{}{k: v} }
func jo(k string, v interface{}) map[string]interface{}    { return map[string]interface{}{k: v} }

func C18(rep *ev.Reporter, tier string) {
	bud := NewBudget(150 * time.Second)
	if tier == "thorough" {
		bud = NewBudget(9 * time.Minute)
	}
	numLeaves := []interface{}{"F.I", 3.0, jo("const", 2.0), jo("obj", "F.I2"), jo("const", 2.5)}
	boolLeaves := []interface{}{"F.B", true, jo("const", false), jo("obj", "F.B")}
	boolObjLeaves := []interface{}{jo("const", false), jo("obj", "F.B"), jo("const", true)}
	strLeaves := []interface{}{jo("const", "xy"), "F.S", jo("const", "x\"y")}
	if tier == "quick" {
		numLeaves = numLeaves[:4]
	}
	arith := []string{"plus", "minus", "mul", "div", "mod", "band", "bor"}
	cmpo := []string{"eq", "not", "gt", "gte", "lt", "lte"}
	var numNodes, boolNodes []interface{}
	for _, op := range arith {
		for _, a := range numLeaves {
			for _, b := range numLeaves {
				numNodes = append(numNodes, jm(op, a, b))
			}
		}
	}
	for _, op := range cmpo {
		for _, a := range numLeaves {
			for _, b := range numLeaves {
				boolNodes = append(boolNodes, jm(op, a, b))
			}
		}
	}
	for _, op := range []string{"eq", "not"} {
		for _, a := range boolLeaves {
			for _, b := range boolLeaves {
				boolNodes = append(boolNodes, jm(op, a, b))
			}
		}
		for _, a := range strLeaves {
			for _, b := range strLeaves {
				boolNodes = append(boolNodes, jm(op, a, b))
			}
		}
	}
	for _, op := range []string{"and", "or"} {
		for _, a := range boolObjLeaves {
			for _, b := range boolObjLeaves {
				boolNodes = append(boolNodes, jm(op, a, b))
			}
		}
	}
	var cases []c18Case
	addWhen := func(class string, w interface{}) {
		cases = append(cases, c18Case{id: fmt.Sprintf("c18/%s/%d", class, len(cases)), when: w, then: []interface{}{"K.I = 1"}, class: class})
	}
	addThen := func(class string, t interface{}) {
		cases = append(cases, c18Case{id: fmt.Sprintf("c18/%s/%d", class, len(cases)), when: "K.K == 0", then: []interface{}{t, "K.K = 1"}, class: class})
	}
	for _, n := range boolNodes {
		addWhen("depth1", n)
	}
	for _, n := range numNodes {
		addThen("set-depth1", jm("set", "K.F", n))
	}
	// depth 2: root over (node, leaf), (leaf, node) and — thorough — (node, node)
	stepB, stepN := 1, 1
	if tier == "quick" {
		stepB, stepN = 2, 2 // fixed sub-family: every 2nd depth-1 node as nested operand
	}
	for _, op := range cmpo {
		for i := 0; i < len(numNodes); i += stepN {
			for _, l := range numLeaves {
				addWhen("depth2-cmp", jm(op, numNodes[i], l))
				addWhen("depth2-cmp", jm(op, l, numNodes[i]))
			}
		}
	}
	for _, op := range []string{"eq", "not"} {
		for i := 0; i < len(boolNodes); i += stepB {
			for _, l := range boolLeaves {
				addWhen("depth2-booleq", jm(op, boolNodes[i], l))
				addWhen("depth2-booleq", jm(op, l, boolNodes[i]))
			}
		}
	}
	for _, op := range []string{"and", "or"} {
		for i := 0; i < len(boolNodes); i += stepB {
			for _, l := range boolObjLeaves {
				addWhen("depth2-logic", jm(op, boolNodes[i], l))
				addWhen("depth2-logic", jm(op, l, boolNodes[i]))
			}
			for j := 0; j < len(boolNodes); j += stepB * 5 {
				addWhen("depth2-logic", jm(op, boolNodes[i], boolNodes[j]))
			}
		}
	}
	for _, op := range arith {
		for i := 0; i < len(numNodes); i += stepN {
			for _, l := range numLeaves {
				addThen("set-depth2", jm("set", jo("obj", "K.F"), jm(op, numNodes[i], l)))
				addThen("set-depth2", jm("set", "K.F", jm(op, l, numNodes[i])))
			}
		}
	}
	{
		for _, op := range cmpo {
			for i := 0; i < len(numNodes); i += 2 {
				for j := 0; j < len(numNodes); j += 3 {
					addWhen("depth2-cmp-both", jm(op, numNodes[i], numNodes[j]))
				}
			}
		}
		for _, op := range arith {
			for i := 0; i < len(numNodes); i += 2 {
				for j := 0; j < len(numNodes); j += 3 {
					addThen("set-depth2-both", jm("set", "K.F", jm(op, numNodes[i], numNodes[j])))
				}
			}
		}
		// depth 3
		for _, op := range []string{"and", "or", "eq", "not"} {
			d3i, d3j := 7, 11
			if tier == "thorough" {
				d3i, d3j = 2, 3
			}
			for i := 0; i < len(boolNodes); i += d3i {
				for j := 0; j < len(boolNodes); j += d3j {
					for _, op2 := range []string{"and", "or", "not"} {
						addWhen("depth3", jm(op, jm(op2, boolNodes[i], boolNodes[j]), boolNodes[(i+j)%len(boolNodes)]))
					}
				}
			}
		}
	}
	// three operands
	for _, op := range arith {
		for _, a := range numLeaves {
			for _, b := range numLeaves {
				for _, c := range numLeaves {
					addThen("set-3ary", jm("set", "K.F", jm(op, a, b, c)))
				}
			}
		}
	}
	for _, op := range []string{"and", "or"} {
		for _, a := range boolObjLeaves {
			for _, b := range boolObjLeaves {
				for _, c := range boolObjLeaves {
					addWhen("3ary-logic", jm(op, a, b, c))
				}
			}
		}
	}
	for _, op := range []string{"eq", "not"} {
		for _, a := range boolLeaves {
			for _, b := range boolLeaves {
				for _, c := range boolLeaves {
					addWhen("3ary-booleq", jm(op, a, b, c))
				}
			}
		}
	}
	// unary not (logical negation): stacked 1..4 deep over boolean nodes, and as an operand
	for i := 0; i < len(boolNodes); i += 5 {
		x := boolNodes[i]
		n1 := jm("not", x)
		n2 := jm("not", n1)
		n3 := jm("not", n2)
		n4 := jm("not", n3)
		for _, n := range []interface{}{n1, n2, n3, n4} {
			addWhen("unary-not", n)
		}
		addWhen("unary-not-operand", jm("and", n1, jo("obj", "F.B")))
		addWhen("unary-not-operand", jm("or", jo("const", false), n2))
		addWhen("unary-not-operand", jm("eq", n1, true))
		addWhen("unary-not-operand", jm("not", n1, false))
		addWhen("unary-not-operand", jm("eq", n2, n1))
	}
	// unary not over 3-operand chains and over comparisons with the float fact (not a number in the second world)
	for _, op := range []string{"eq", "not"} {
		for _, a := range boolLeaves {
			for _, b := range boolLeaves {
				for _, c := range boolLeaves {
					addWhen("unary-not-3ary", jm("not", jm(op, a, b, c)))
				}
			}
		}
	}
	for _, op := range []string{"and", "or"} {
		for _, a := range boolObjLeaves {
			for _, b := range boolObjLeaves {
				for _, c := range boolObjLeaves {
					addWhen("unary-not-3ary", jm("not", jm(op, a, b, c)))
				}
			}
		}
	}
	for _, op := range cmpo {
		for _, l := range []interface{}{"F.I", 1.0, jo("const", 2.5), "F.F", jm("div", jo("const", 0.0), "F.F")} {
			addWhen("float-fact-cmp", jm(op, "F.F", l))
			addWhen("float-fact-cmp", jm(op, l, jo("obj", "F.F")))
			addWhen("unary-not-float-fact-cmp", jm("not", jm(op, "F.F", l)))
			addWhen("unary-not-float-fact-cmp", jm("not", jm(op, l, jo("obj", "F.F"))))
			addWhen("unary-not-float-fact-cmp", jm("not", jm("not", jm(op, l, "F.F"))))
		}
	}
	for _, l := range boolLeaves {
		addWhen("unary-not-leaf", jm("not", l))
		addWhen("unary-not-leaf", jm("not", jm("not", l)))
	}
	// calls
	addThen("call", jm("call", "F.SetI", jm("plus", "F.I", 1.0)))
	addThen("call", jm("set", "K.I", jm("call", "F.Add", jm("plus", 1.0, 2.0), jm("mul", "F.I", 2.0))))
	addThen("call", jm("set", "K.S", jm("call", "F.Cat", jo("const", "a,b"), jo("const", "c\"d"))))
	addWhen("call", jm("eq", jm("call", "F.Add", 1.0, "F.I"), 6.0))
	addWhen("call", jm("call", "F.IsPos", jm("minus", "F.I", 9.0)))
	// then-forms: strings with and without the terminating semicolon, several actions, calls without arguments
	cases = append(cases, c18Case{id: fmt.Sprintf("c18/then-forms/%d", len(cases)), when: "K.K == 0", then: []interface{}{"K.I = 1;", "K.K = 1"}, class: "then-forms"})
	cases = append(cases, c18Case{id: fmt.Sprintf("c18/then-forms/%d", len(cases)), when: "K.K == 0", then: []interface{}{jm("set", "K.I", 5.0), "K.K = 1"}, class: "then-forms"})
	cases = append(cases, c18Case{id: fmt.Sprintf("c18/then-forms/%d", len(cases)), when: "K.K == 0", then: []interface{}{jm("call", "F.Bump"), "K.K = 1"}, class: "then-forms"})
	cases = append(cases, c18Case{id: fmt.Sprintf("c18/then-forms/%d", len(cases)), when: "K.K == 0", then: []interface{}{jm("set", "K.S", jm("plus", jo("const", "a;b"), jo("const", "}"))), "K.K = 1"}, class: "then-forms"})
	// nesting of the SAME operator where it is not associative on the operand kinds: mixed int/string
	// concatenation (1 + (2 + "x") is "12x", (1 + 2) + "x" is "3x") and float rounding (0.1 + (0.2 + 0.3))
	catLeaves := []interface{}{1.0, 2.0, jo("const", "x"), "F.S", "F.I", jo("const", 7.0)}
	for _, a := range catLeaves {
		for _, b := range catLeaves {
			for _, c := range catLeaves {
				addThen("same-op-nesting-concat", jm("set", "K.S", jm("plus", jo("const", ""), jm("plus", a, jm("plus", b, c)))))
				addThen("same-op-nesting-concat", jm("set", "K.S", jm("plus", jo("const", ""), jm("plus", jm("plus", a, b), c))))
				addThen("same-op-nesting-concat", jm("set", "K.S", jm("plus", jo("const", ""), jm("plus", a, b, c))))
			}
		}
	}
	fl := []interface{}{0.1, 0.2, 0.3, jo("const", 0.7), "F.F"}
	for _, op := range []string{"plus", "mul", "minus", "div"} {
		for _, a := range fl {
			for _, b := range fl {
				for _, c := range fl {
					addThen("same-op-nesting-float", jm("set", "K.F", jm(op, a, jm(op, b, c))))
					addThen("same-op-nesting-float", jm("set", "K.F", jm(op, jm(op, a, b), c)))
					addWhen("same-op-nesting-float", jm("eq", jm(op, a, jm(op, b, c)), jm(op, jm(op, a, b), c)))
				}
			}
		}
	}
	for _, op := range []string{"and", "or"} {
		for _, a := range boolObjLeaves {
			for _, b := range boolObjLeaves {
				for _, c := range boolObjLeaves {
					addWhen("same-op-nesting-logic", jm(op, a, jm(op, b, c)))
					addWhen("same-op-nesting-logic", jm(op, jm(op, a, b), c))
				}
			}
		}
	}
	for _, lit := range []string{`"a  b"`, `"a   b "`, `" lead"`, "\"tab\there\"", "\"nb\u00a0sp\"", `"x y"`} {
		cases = append(cases, c18Case{id: fmt.Sprintf("c18/plain-string-whitespace/%d", len(cases)), when: "K.K == 0", then: []interface{}{"K.S = " + lit, "K.K = 1"}, class: "plain-string-whitespace"})
		cases = append(cases, c18Case{id: fmt.Sprintf("c18/plain-string-whitespace/%d", len(cases)), when: "K.K == 0 && " + lit + " != \"q\"", then: []interface{}{"K.S = " + lit + " + \"|\"", "K.K = 1"}, class: "plain-string-whitespace"})
	}
	addWhen("plain-string-operand-in-and", jm("and", "F.B", jm("eq", "F.I", 5.0)))
	addWhen("plain-bool-operand-in-or", jm("or", false, jm("eq", "F.I", 5.0)))

	var mu sync.Mutex
	var nCases, nontrivial, unjudged int64
	report := func(sig, what string, c *c18Case, grlText string) {
		js, _ := json.Marshal(map[string]interface{}{"when": c.when, "then": c.then})
		mu.Lock()
		rep.Violation(sig, what+"\n  json: "+string(js)+"\n  grl: "+strings.ReplaceAll(grlText, "\n", "\n       "), map[string]interface{}{"case": c.id, "json": string(js), "grl": grlText})
		mu.Unlock()
	}
	ParallelEach(len(cases)*len(c18Worlds), func(k int) {
		i, mk := k/len(c18Worlds), c18Worlds[k%len(c18Worlds)]
		c := &cases[i]
		if rep.ReplayFilter != "" && rep.ReplayFilter != c.id {
			return
		}
		if bud.Over() {
			return
		}
		atomic.AddInt64(&nCases, 1)
		rule := map[string]interface{}{"name": "r", "desc": "d", "salience": 3, "when": c.when, "then": c.then}
		data, _ := json.Marshal(rule)
		var text string
		var terr error
		func() {
			defer func() {
				if r := recover(); r != nil {
					terr = fmt.Errorf("translator panic: %v", r)
				}
			}()
			text, terr = pkg.ParseJSONRule(data)
		}()
		// reference reading
		var whenE grl.Expr
		var thenA []grl.Action
		refOK := true
		if s, ok := c.when.(string); ok {
			whenE = grl.E(s)
		} else {
			e, err := c18ToExpr(c.when)
			if err != nil {
				refOK = false
			}
			whenE = e
		}
		for _, t := range c.then {
			if s, ok := t.(string); ok {
				thenA = append(thenA, grl.A(strings.TrimSuffix(strings.TrimSpace(s), ";")))
				continue
			}
			m := t.(map[string]interface{})
			if set, ok := m["set"]; ok {
				arr := set.([]interface{})
				var target grl.Expr
				switch d := arr[0].(type) {
				case string:
					target = grl.E(d)
				case map[string]interface{}:
					target = grl.E(d["obj"].(string))
				}
				rhs, err := c18ToExpr(arr[1])
				if err != nil {
					refOK = false
					break
				}
				thenA = append(thenA, grl.Action{Target: target.(*grl.Ref), Op: "=", RHS: rhs})
			} else {
				e, err := c18ToExpr(m)
				if err != nil {
					refOK = false
					break
				}
				thenA = append(thenA, grl.Action{Call: e})
			}
		}
		if !refOK {
			report("harness:C18-reference-cannot-read:"+c.class, "reference reader failed", c, text)
			return
		}
		// is the rule well-typed per the reference? (condition evaluates to a bool; actions apply)
		wref := mk()
		cond, cerr := (&ref.Evaluator{W: wref}).EvalBool(whenE)
		if cerr != nil {
			atomic.AddInt64(&unjudged, 1)
			return
		}
		model := mk()
		var eff ref.Effect
		if cond {
			evl := &ref.Evaluator{W: model}
			for _, a := range thenA {
				if err := evl.Apply(a, &eff); err != nil {
					atomic.AddInt64(&unjudged, 1)
					return
				}
			}
		}
		if v, ok := c18FloatSink(model); ok && (math.IsNaN(v) || math.IsInf(v, 0)) {
			atomic.AddInt64(&unjudged, 1)
			return
		}
		sigTail := c.class + ":" + c18Shape(c.when, c.then)
		if terr != nil {
			report("C18:translator-rejects-valid-rule:"+sigTail, "the translator returned an error for a rule that is valid per GRL_JSON_en.md: "+terr.Error(), c, text)
			return
		}
		lib := ast.NewKnowledgeLibrary()
		berr := builder.NewRuleBuilder(lib).BuildRuleFromResource(hx.KBName, hx.KBVer, pkg.NewBytesResource([]byte(text)))
		if berr != nil {
			report("C18:translation-rejected-by-builder:"+sigTail, "the GRL produced by the translator is rejected by the builder: "+firstLineOf(berr.Error()), c, text)
			return
		}
		kb, err := lib.NewKnowledgeBaseInstance(hx.KBName, hx.KBVer)
		if err != nil {
			report("C18:instance-failed:"+sigTail, err.Error(), c, text)
			return
		}
		re := kb.RuleEntries["r"]
		if re == nil || re.RuleDescription != "d" || re.Salience != 3 {
			report("C18:metadata-differs:"+sigTail, fmt.Sprintf("rule entry %+v", re), c, text)
			return
		}
		w := mk()
		res := hx.Fetch(kb, w, false, 0)
		got := len(res.Names) == 1
		if got != cond {
			report("C18:condition-meaning-differs:"+sigTail, fmt.Sprintf("condition value per the JSON tree (operands grouped as nested): %v, candidate flag of the translated rule: %v", cond, got), c, text)
			return
		}
		atomic.AddInt64(&nontrivial, 1)
		kb2, _ := lib.NewKnowledgeBaseInstance(hx.KBName, hx.KBVer)
		w2 := mk()
		tr := hx.RunOn(&hx.Program{ByName: map[string]*grl.Rule{}}, kb2, w2, hx.RunOpts{MaxCycle: 2, NoSnapshots: true}, nil)
		if tr.Err != nil && !hx.IsLimitErr(tr.Err) {
			report("C18:translated-rule-fails:"+sigTail, tr.Err.Error(), c, text)
			return
		}
		if cond && len(c.then) == 2 {
			if w2.Dump() != model.Dump() {
				report("C18:action-meaning-differs:"+sigTail, "facts after the translated rule fired differ from the direct reading of the JSON actions\nmodel:\n"+model.Dump()+"real:\n"+w2.Dump(), c, text)
			}
		}
		if k%1000 == 0 {
			js, _ := json.Marshal(rule)
			rep.Sample(map[string]interface{}{"case": c.id, "json": string(js), "grl": text})
		}
	})
	extra := c18Extras(rep, &mu)
	rep.Coverage["evaluations"] = nCases + extra
	rep.Coverage["states"] = nCases
	rep.Coverage["transitions"] = nCases
	rep.Coverage["traces_validated_against_impl"] = nontrivial
	rep.Coverage["distinct_nontrivial"] = nontrivial
	rep.Coverage["unjudged_ill_typed"] = unjudged
	rep.Coverage["extras"] = extra
	if bud.Hit() {
		rep.Exhaustive = false
		rep.Coverage["caps_hit"] = "time budget"
	}
	rep.Coverage["rule"] = "every JSON operator tree of depth 1 over all 15 operators and operand forms {plain string, number, bool, obj, const of each kind}; depth 2 with a nested operand on either side (quick: every 3rd depth-1 node as nested operand; thorough: all, both sides nested, depth-3 logic trees); 3-operand forms; nesting of the same operator on either side where it is not associative (mixed int/string concatenation, float rounding); unary not stacked 1..4 deep, as operand, over 3-operand chains and over comparisons with a float fact; every case on two worlds (in the second every leaf comparison comes out the other way and the float fact is not a number); set/call trees in `then`; calls with nested arguments; hostile string constants; boundary numeric constants; names/descriptions/saliences; malformed rules; document framing (every single-token damage of a single-rule object and of a 3-rule array that encoding/json declares invalid - a token deleted, duplicated, 10 tokens inserted at every position incl. the end, a second document appended - must be rejected by the translator and the resource loader); one resource value loaded repeatedly while the document behind it changes (in place or replaced). Oracle: the JSON tree is read directly (operands grouped exactly as nested, n-ary left-associated) and evaluated by the reference evaluator; the translated text must be accepted by the real builder, keep name/description/salience, give the same candidate flag and the same facts after firing. Ill-typed trees (per the reference) are not judged. Non-trivial: a well-typed tree whose translated rule was built and compared."
}

func c18FloatSink(w *ref.World) (float64, bool) { return w.Objs["K"].F, true }

// c18Shape gives the operator skeleton of a case (signature component).
func c18Shape(when interface{}, then []interface{}) string {
	var sk func(j interface{}) string
	sk = func(j interface{}) string {
		switch x := j.(type) {
		case map[string]interface{}:
			for k, v := range x {
				if k == "obj" || k == "const" {
					return k
				}
				if arr, ok := v.([]interface{}); ok {
					var parts []string
					for _, a := range arr {
						parts = append(parts, sk(a))
					}
					return k + "(" + strings.Join(parts, ",") + ")"
				}
				return k
			}
		case string:
			return "str"
		case float64:
			return "num"
		case bool:
			return "bool"
		}
		return "?"
	}
	s := sk(when)
	if _, ok := when.(string); ok && len(then) > 0 {
		s = sk(then[0])
	}
	return s
}

// c18Extras: string/number constants, metadata, malformed rules.
func c18Extras(rep *ev.Reporter, mu *sync.Mutex) int64 {
	var n int64
	report := func(sig, what string, id string, js string, text string) {
		mu.Lock()
		rep.Violation(sig, what+"\n  json: "+js+"\n  grl: "+text, map[string]interface{}{"case": id, "json": js, "grl": text})
		mu.Unlock()
	}
	build := func(js string) (text string, kb *ast.KnowledgeBase, terr, berr error) {
		func() {
			defer func() {
				if r := recover(); r != nil {
					terr = fmt.Errorf("translator panic: %v", r)
				}
			}()
			text, terr = pkg.ParseJSONRule([]byte(js))
		}()
		if terr != nil {
			return
		}
		lib := ast.NewKnowledgeLibrary()
		berr = builder.NewRuleBuilder(lib).BuildRuleFromResource(hx.KBName, hx.KBVer, pkg.NewBytesResource([]byte(text)))
		if berr != nil {
			return
		}
		kb, berr = lib.NewKnowledgeBaseInstance(hx.KBName, hx.KBVer)
		return
	}
	hostile := []string{"plain", "", " ", "a\"b", "a'b", "a\\b", "a\nb", "a\tb", "a\x00b", "*/", "/* c */", "// c", "é漢😀", "a;}", "\"", "\\", "\\\"", "${x}", "%s%d", "a\rb",
		strings.Repeat("long", 300), "a b", "é", "tab\\t", "}{", ")(", "then", "rule x {", "\"\"", "''"}
	for i, s := range hostile {
		id := fmt.Sprintf("c18/strconst/%d", i)
		if rep.ReplayFilter != "" && rep.ReplayFilter != id {
			continue
		}
		n++
		rule := map[string]interface{}{"name": "r", "when": jm("eq", "F.S", jo("const", s)), "then": []interface{}{jm("set", "K.S", jo("const", s))}}
		jsb, _ := json.Marshal(rule)
		text, kb, terr, berr := build(string(jsb))
		if terr != nil || berr != nil {
			report(fmt.Sprintf("C18:string-constant-breaks-translation:%q", trunc(s, 20)), fmt.Sprintf("translator err=%v builder err=%v", terr, berr), id, string(jsb), text)
			continue
		}
		for _, same := range []bool{true, false} {
			w := c18World()
			w.Objs["F"].S = s
			if !same {
				w.Objs["F"].S = s + "x"
			}
			kbi := kb
			tr := hx.RunOn(&hx.Program{ByName: map[string]*grl.Rule{}}, kbi, w, hx.RunOpts{MaxCycle: 1, NoSnapshots: true}, nil)
			fired := tr.Fired > 0
			if fired != same || (same && w.Objs["K"].S != s) {
				report(fmt.Sprintf("C18:string-constant-does-not-round-trip:%q", trunc(s, 20)), fmt.Sprintf("F.S==const expected %v, fired %v; K.S=%q", same, fired, w.Objs["K"].S), id, string(jsb), text)
			}
		}
	}
	nums := []float64{0, -1, 7, -7.5, 0.1, 1e-7, 123456789.125, 9007199254740992, 1e15, 1e18, 1e20, 1e21, -1e20, 2147483648, 1.7976931348623157e308, 5e-324,
		9223372036854775807, 9223372036854775808, -9223372036854775808, 9223372036854774784, 9223372036854777856, 18446744073709551615, 4611686018427387904} // 2^63 and its float64 neighbours, -2^63, 2^64-1, 2^62
	for i, v := range nums {
		for _, form := range []string{"const", "plain"} {
			id := fmt.Sprintf("c18/numconst/%d/%s", i, form)
			if rep.ReplayFilter != "" && rep.ReplayFilter != id {
				continue
			}
			n++
			var operand interface{} = v
			if form == "const" {
				operand = jo("const", v)
			}
			rule := map[string]interface{}{"name": "r", "when": "K.K == 0", "then": []interface{}{jm("set", "K.F", operand), "K.K = 1"}}
			jsb, _ := json.Marshal(rule)
			text, kb, terr, berr := build(string(jsb))
			if terr != nil || berr != nil {
				report(fmt.Sprintf("C18:numeric-constant-breaks-translation:%s:%v", form, v), fmt.Sprintf("translator err=%v builder err=%v", terr, firstErr(berr)), id, string(jsb), text)
				continue
			}
			w := c18World()
			tr := hx.RunOn(&hx.Program{ByName: map[string]*grl.Rule{}}, kb, w, hx.RunOpts{MaxCycle: 2, NoSnapshots: true}, nil)
			if tr.Err != nil || w.Objs["K"].F != v {
				report(fmt.Sprintf("C18:numeric-constant-does-not-round-trip:%s:%v", form, v), fmt.Sprintf("K.F=%v err=%v", w.Objs["K"].F, tr.Err), id, string(jsb), text)
			}
		}
	}
	// metadata
	type md struct {
		name, desc string
		sal        interface{}
	}
	for i, m := range []md{{"r1", "plain description", 10}, {"r2", "", nil}, {"r3", "with \"quotes\"", -5}, {"r4", "back\\slash", 0}, {"r5", "new\nline", 2147483647}, {"r6", "tab\there é", -2147483648}, {"Rule_7", "single 'quotes'", 1}} {
		id := fmt.Sprintf("c18/meta/%d", i)
		if rep.ReplayFilter != "" && rep.ReplayFilter != id {
			continue
		}
		n++
		rule := map[string]interface{}{"name": m.name, "when": "F.B", "then": []interface{}{"K.I = 1"}}
		if m.desc != "" {
			rule["desc"] = m.desc
		}
		wantSal := 0
		if m.sal != nil {
			rule["salience"] = m.sal
			wantSal = m.sal.(int)
		}
		jsb, _ := json.Marshal(rule)
		text, kb, terr, berr := build(string(jsb))
		if terr != nil || berr != nil {
			report(fmt.Sprintf("C18:metadata-breaks-translation:%d", i), fmt.Sprintf("translator err=%v builder err=%v", terr, firstErr(berr)), id, string(jsb), text)
			continue
		}
		re := kb.RuleEntries[m.name]
		if re == nil {
			report(fmt.Sprintf("C18:name-differs:%d", i), "rule not found under its name", id, string(jsb), text)
			continue
		}
		if re.Salience != wantSal {
			report(fmt.Sprintf("C18:salience-differs:%d", i), fmt.Sprintf("salience %d, JSON says %d", re.Salience, wantSal), id, string(jsb), text)
		}
		if re.RuleDescription != m.desc {
			cls := "plain"
			if strings.ContainsAny(m.desc, "\"\\\n\t") {
				cls = "needs-escaping"
			}
			report("C18:description-differs:"+cls, fmt.Sprintf("description %q, JSON says %q", re.RuleDescription, m.desc), id, string(jsb), text)
		}
	}
	// malformed rules must be rejected with an error (no panic)
	bad := []struct{ name, js string }{
		{"empty-input", ``}, {"whitespace-only", `   `}, {"unknown-operator", `{"name":"r","when":{"xor":["F.B",true]},"then":["K.I = 1"]}`},
		{"arity-0", `{"name":"r","when":{"eq":[]},"then":["K.I = 1"]}`}, {"arity-1-and", `{"name":"r","when":{"and":[{"obj":"F.B"}]},"then":["K.I = 1"]}`},
		{"missing-name", `{"when":"F.B","then":["K.I = 1"]}`}, {"missing-when", `{"name":"r","then":["K.I = 1"]}`}, {"missing-then", `{"name":"r","when":"F.B"}`},
		{"when-number", `{"name":"r","when":5,"then":["K.I = 1"]}`}, {"then-not-array", `{"name":"r","when":"F.B","then":"K.I = 1"}`}, {"then-number-item", `{"name":"r","when":"F.B","then":[5]}`},
		{"name-number", `{"name":5,"when":"F.B","then":["K.I = 1"]}`}, {"not-json", `rule r { when F.B then K.I = 1; }`}, {"two-operators", `{"name":"r","when":{"eq":["F.I",1],"gt":["F.I",0]},"then":["K.I = 1"]}`},
		{"set-arity-3", `{"name":"r","when":"F.B","then":[{"set":["K.I",1,2]}]}`}, {"call-empty", `{"name":"r","when":"F.B","then":[{"call":[]}]}`}, {"const-array", `{"name":"r","when":{"eq":["F.I",{"const":[1]}]},"then":["K.I = 1"]}`},
		{"obj-number", `{"name":"r","when":{"eq":[{"obj":5},1]},"then":["K.I = 1"]}`}, {"operand-null", `{"name":"r","when":{"eq":["F.I",null]},"then":["K.I = 1"]}`}, {"operator-not-array", `{"name":"r","when":{"eq":"F.I"},"then":["K.I = 1"]}`},
		{"arity-1-eq", `{"name":"r","when":{"eq":["F.B"]},"then":["K.I = 1"]}`}, {"arity-1-plus", `{"name":"r","when":"F.B","then":[{"set":["K.I",{"plus":[1]}]}]}`},
	}
	for _, b := range bad {
		id := "c18/malformed/" + b.name
		if rep.ReplayFilter != "" && rep.ReplayFilter != id {
			continue
		}
		n++
		var lerr error
		var out []byte
		func() {
			defer func() {
				if r := recover(); r != nil {
					lerr = fmt.Errorf("PANIC: %v", r)
				}
			}()
			res, e := pkg.NewJSONResourceFromResource(pkg.NewBytesResource([]byte(b.js)))
			if e != nil {
				lerr = e
				return
			}
			out, lerr = res.Load()
		}()
		if lerr != nil && strings.HasPrefix(lerr.Error(), "PANIC") {
			report("C18:malformed-rule-panics:"+b.name, lerr.Error(), id, b.js, "")
			continue
		}
		if lerr == nil {
			// a translation came out; the rule must then at least be rejected by the builder
			lib := ast.NewKnowledgeLibrary()
			berr := builder.NewRuleBuilder(lib).BuildRuleFromResource(hx.KBName, hx.KBVer, pkg.NewBytesResource(out))
			if berr == nil {
				report("C18:malformed-rule-accepted:"+b.name, "neither the translator nor the builder rejected the rule", id, b.js, string(out))
			}
		}
	}
	n += c18Rulesets(rep, report)
	n += c18Framing(rep, report)
	n += c18ResourceReuse(rep, report)
	return n
}

// c18ResourceReuse: one JSON resource VALUE is loaded several times while the document behind it changes
// (a re-read file, a reused buffer edited in place, same length or not): every Load translates the document
// as it is at that moment. Differential oracle: the translation by a fresh resource over a private copy.
func c18ResourceReuse(rep *ev.Reporter, report func(sig, what, id, js, text string)) int64 {
	base := `{"name":"aa","desc":"d1","salience":10,"when":{"lt":["F.I",50]},"then":[{"set":["K.I",1]}]}`
	edits := [][2]string{{`"lt"`, `"gt"`}, {`50`, `75`}, {`"salience":10`, `"salience":20`}, {`"name":"aa"`, `"name":"bb"`}, {`"d1"`, `"d2"`}, {`["K.I",1]`, `["K.I",2]`},
		{`50`, `5000`}, {`"lt"`, `"gte"`}}
	var n int64
	for ei, e := range edits {
		for _, inPlace := range []bool{true, false} {
			for _, loadsBefore := range []int{1, 2} {
				id := fmt.Sprintf("c18/resource-reuse/%d/inplace=%v/loads%d", ei, inPlace, loadsBefore)
				if rep.ReplayFilter != "" && rep.ReplayFilter != id {
					continue
				}
				edited := strings.Replace(base, e[0], e[1], 1)
				if inPlace && len(edited) != len(base) {
					continue
				}
				fresh := func(doc string) string {
					r, err := pkg.NewJSONResourceFromResource(pkg.NewBytesResource([]byte(doc)))
					if err != nil {
						return "ERR " + err.Error()
					}
					out, err := r.Load()
					if err != nil {
						return "ERR " + err.Error()
					}
					return string(out)
				}
				buf := []byte(base)
				under := &c18MutableResource{data: buf}
				res, err := pkg.NewJSONResourceFromResource(under)
				if err != nil {
					report("harness:C18-resource-reuse", err.Error(), id, base, "")
					continue
				}
				first := ""
				for k := 0; k < loadsBefore; k++ {
					out, lerr := res.Load()
					if lerr != nil {
						first = "ERR " + lerr.Error()
					} else {
						first = string(out)
					}
				}
				n++
				if want := fresh(base); first != want {
					report("C18:reloaded-resource-translates-differently", fmt.Sprintf("load #%d of one resource value gives\n%s\n  a fresh resource gives\n%s", loadsBefore, first, want), id, base, first)
					continue
				}
				if inPlace {
					copy(buf, edited) // same backing array, same length
				} else {
					under.data = []byte(edited)
				}
				out, lerr := res.Load()
				got := string(out)
				if lerr != nil {
					got = "ERR " + lerr.Error()
				}
				n++
				if want := fresh(edited); got != want {
					report("C18:reloaded-resource-translates-a-superseded-document", fmt.Sprintf("the document behind the resource changed (%s -> %s, in place: %v) after %d load(s); the next Load gives\n%s\n  a fresh resource over the current document gives\n%s", e[0], e[1], inPlace, loadsBefore, got, want), id, edited, got)
				}
			}
		}
	}
	return n
}

// c18MutableResource is a pkg.Resource whose document can change between loads.
type c18MutableResource struct{ data []byte }

func (r *c18MutableResource) Load() ([]byte, error) { return r.data, nil }
func (r *c18MutableResource) String() string        { return "mutable resource" }

// c18Rulesets: arrays of rules. Every rule of a ruleset must translate exactly as it does on its
// own, keep its own metadata (omitted desc/salience are the defaults), and a malformed rule at
// any position makes the whole ruleset an error.
func c18Rulesets(rep *ev.Reporter, report func(sig, what, id, js, text string)) int64 {
	type jr struct {
		js    string
		name  string
		desc  string
		sal   int
		valid bool
	}
	rules := []jr{
		{`{"name":"A","desc":"da","salience":10,"when":"F.B","then":["K.I = 1"]}`, "A", "da", 10, true},
		{`{"name":"B","when":{"eq":["F.I",5]},"then":[{"set":["K.I2",2]}]}`, "B", "", 0, true},
		{`{"name":"C","desc":"","salience":0,"when":"F.I2 == 3","then":["K.In = 3"]}`, "C", "", 0, true},
		{`{"name":"D","salience":-3,"when":"!F.B","then":["K.I8 = 4"]}`, "D", "", -3, true},
		{`{"name":"E","desc":"de","when":{"and":[{"obj":"F.B"},{"gt":["F.I",1]}]},"then":[{"call":["F.SetI",9]},"K.I16 = 5"]}`, "E", "de", 0, true},
		{`{"name":"M1","then":["K.I = 1"]}`, "M1", "", 0, false},
		{`{"name":"M2","when":"F.B"}`, "M2", "", 0, false},
		{`{"when":"F.B","then":["K.I = 1"]}`, "", "", 0, false},
		{`{"name":"M4","when":null,"then":["K.I = 1"]}`, "M4", "", 0, false},
	}
	var n int64
	var sets [][]int
	for a := range rules {
		sets = append(sets, []int{a})
		for b := range rules {
			if a == b {
				continue
			}
			sets = append(sets, []int{a, b})
			for c := range rules {
				if c == a || c == b || (!rules[a].valid && !rules[b].valid) {
					continue
				}
				sets = append(sets, []int{a, b, c})
			}
		}
	}
	for si, set := range sets {
		id := fmt.Sprintf("c18/ruleset/%d", si)
		if rep.ReplayFilter != "" && rep.ReplayFilter != id {
			continue
		}
		n++
		var parts []string
		allValid := true
		var names []string
		for _, i := range set {
			parts = append(parts, rules[i].js)
			allValid = allValid && rules[i].valid
			names = append(names, rules[i].name)
		}
		js := "[" + strings.Join(parts, ",") + "]"
		shape := strings.Join(names, ",")
		var text string
		var terr error
		func() {
			defer func() {
				if r := recover(); r != nil {
					terr = fmt.Errorf("PANIC %v", r)
				}
			}()
			text, terr = pkg.ParseJSONRuleset([]byte(js))
		}()
		if terr != nil && strings.HasPrefix(terr.Error(), "PANIC") {
			report("C18:ruleset-panics:"+shape, terr.Error(), id, js, "")
			continue
		}
		if !allValid {
			if terr == nil {
				lib := ast.NewKnowledgeLibrary()
				if berr := builder.NewRuleBuilder(lib).BuildRuleFromResource(hx.KBName, hx.KBVer, pkg.NewBytesResource([]byte(text))); berr == nil {
					report("C18:malformed-rule-in-ruleset-accepted", fmt.Sprintf("ruleset [%s] contains a malformed rule but neither the translator nor the builder rejected it", shape), id, js, text)
				}
			}
			continue
		}
		if terr != nil {
			report("C18:valid-ruleset-rejected", terr.Error(), id, js, "")
			continue
		}
		var alone strings.Builder
		for _, i := range set {
			t, err := pkg.ParseJSONRule([]byte(rules[i].js))
			if err != nil {
				report("harness:C18-ruleset-rule-invalid-alone", err.Error(), id, rules[i].js, "")
			}
			alone.WriteString(t)
		}
		if alone.String() != text {
			report("C18:rule-translates-differently-inside-a-ruleset", fmt.Sprintf("ruleset [%s]: the translation differs from the translations of its rules taken one by one\n  one by one:\n%s", shape, alone.String()), id, js, text)
			continue
		}
		// through the resource loader and the builder: metadata per rule
		res, _ := pkg.NewJSONResourceFromResource(pkg.NewBytesResource([]byte(js)))
		lib := ast.NewKnowledgeLibrary()
		if berr := builder.NewRuleBuilder(lib).BuildRuleFromResource(hx.KBName, hx.KBVer, res); berr != nil {
			report("C18:valid-ruleset-rejected-by-builder", firstErr(berr), id, js, text)
			continue
		}
		kb := lib.GetKnowledgeBase(hx.KBName, hx.KBVer)
		for _, i := range set {
			re := kb.RuleEntries[rules[i].name]
			if re == nil || re.RuleDescription != rules[i].desc || re.Salience != rules[i].sal {
				report("C18:ruleset-metadata-differs", fmt.Sprintf("ruleset [%s]: rule %s should have desc %q salience %d, knowledge base has %+v", shape, rules[i].name, rules[i].desc, rules[i].sal, re), id, js, text)
			}
		}
	}
	return n
}

func trunc(s string, n int) string {
	if len(s) > n {
		return s[:n]
	}
	return s
}

func firstErr(e error) string {
	if e == nil {
		return "<nil>"
	}
	return firstLineOf(e.Error())
}

// c18Tokens splits a JSON text into its tokens (strings, numbers and literals, punctuation); white space is dropped.
func c18Tokens(js string) []string {
	var out []string
	for i := 0; i < len(js); {
		c := js[i]
		switch {
		case c == ' ' || c == '\n' || c == '\t' || c == '\r':
			i++
		case c == '"':
			j := i + 1
			for j < len(js) && js[j] != '"' {
				if js[j] == '\\' {
					j++
				}
				j++
			}
			out = append(out, js[i:j+1])
			i = j + 1
		case strings.ContainsRune("[]{},:", rune(c)):
			out = append(out, string(c))
			i++
		default:
			j := i
			for j < len(js) && !strings.ContainsRune("[]{},: \n\t\r\"", rune(js[j])) {
				j++
			}
			out = append(out, js[i:j])
			i = j
		}
	}
	return out
}

// c18Framing: a JSON rule document is accepted only if it is a JSON document. Every single-token damage of a valid
// single-rule object and of a valid 3-rule array (a token deleted, duplicated, each of 10 tokens inserted at every
// position incl. the very end, a second document appended) that encoding/json declares invalid must be rejected by
// the translator entry point for that document kind and by the resource loader.
func c18Framing(rep *ev.Reporter, report func(sig, what, id, js, text string)) int64 {
	one := `{"name":"A","desc":"da","salience":1,"when":{"and":[{"obj":"F.B"},{"gt":["F.I",1]}]},"then":["K.I = 1",{"set":["K.F",{"plus":["F.I",2.5]}]}]}`
	docs := []struct {
		kind string
		js   string
	}{
		{"rule", one},
		{"ruleset", "[" + one + `,{"name":"B","when":"F.B","then":["K.I16 = 3"]},{"name":"C","salience":-7,"when":{"obj":"F.B"},"then":["K.K = 2;"]}]`},
	}
	var n int64
	for _, d := range docs {
		toks := c18Tokens(d.js)
		seen := map[string]bool{}
		try := func(how string, parts []string) {
			m := strings.Join(parts, " ")
			if seen[m] || json.Valid([]byte(m)) {
				return
			}
			seen[m] = true
			n++
			id := fmt.Sprintf("c18/framing/%s/%d", d.kind, n)
			if rep.ReplayFilter != "" && rep.ReplayFilter != id {
				return
			}
			accepted := ""
			func() {
				defer func() { recover() }()
				var err error
				if d.kind == "ruleset" {
					_, err = pkg.ParseJSONRuleset([]byte(m))
				} else {
					_, err = pkg.ParseJSONRule([]byte(m))
				}
				if err == nil {
					accepted = "translator"
				}
			}()
			func() {
				defer func() { recover() }()
				res, err := pkg.NewJSONResourceFromResource(pkg.NewBytesResource([]byte(m)))
				if err != nil {
					return
				}
				if _, err := res.Load(); err == nil {
					accepted += "+resource"
				}
			}()
			if accepted != "" {
				report("C18:invalid-json-document-accepted:"+d.kind+":"+strings.SplitN(how, "@", 2)[0], fmt.Sprintf("the text is not a JSON document (encoding/json: invalid; damage: %s), yet it is accepted by the %s", how, accepted), id, m, "")
			}
		}
		ins := []string{"[", "]", "{", "}", ",", ":", "x", `"s"`, "1", "null"}
		for i := range toks {
			del := append(append([]string{}, toks[:i]...), toks[i+1:]...)
			try(fmt.Sprintf("token-deleted@%d", i), del)
			dup := append(append(append([]string{}, toks[:i+1]...), toks[i]), toks[i+1:]...)
			try(fmt.Sprintf("token-duplicated@%d", i), dup)
		}
		for i := 0; i <= len(toks); i++ {
			for _, t := range ins {
				how := "token-inserted"
				if i == len(toks) {
					how = "token-appended"
				}
				m := append(append(append([]string{}, toks[:i]...), t), toks[i:]...)
				try(fmt.Sprintf("%s(%s)@%d", how, t, i), m)
			}
		}
		try("document-appended", append(append([]string{}, toks...), toks...))
		try("rule-appended", append(append([]string{}, toks...), c18Tokens(one)...))
	}
	return n
}
