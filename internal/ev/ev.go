// Package ev writes evidence files, replay artefacts and handles the known-findings list.
package ev

import (
	"crypto/sha1"
	"encoding/hex"
	"encoding/json"
	"fmt"
	"os"
	"path/filepath"
	"sort"
	"strconv"
	"strings"
	"sync"
	"time"
)

// Root is the verif directory (VERIF_ROOT, default /verif).
var Root = func() string {
	if r := os.Getenv("VERIF_ROOT"); r != "" {
		return r
	}
	return "/verif"
}()

type Finding struct {
	Property  string `json:"property"`
	Signature string `json:"signature"`
	Status    string `json:"status"` // known | fixed
	Commit    string `json:"commit,omitempty"`
	What      string `json:"what"`
}

type Reporter struct {
	ID, Tier, Level string
	Seed            int
	start           time.Time
	mu              sync.Mutex
	known           map[string]Finding
	knownHits       map[string]int
	knownExample    map[string]string
	violations      map[string]string // signature -> replay path
	violationWhat   map[string]string
	vcount          int
	Coverage        map[string]interface{}
	Assumptions     []string
	samples         []interface{}
	maxSamples      int
	ReplayFilter    string // when set, only the case with this id is run
	Exhaustive      bool
}

func NewReporter(id, tier, level string) *Reporter {
	r := &Reporter{ID: id, Tier: tier, Level: level, start: time.Now(), known: map[string]Finding{}, knownHits: map[string]int{},
		knownExample: map[string]string{}, violations: map[string]string{}, violationWhat: map[string]string{}, Coverage: map[string]interface{}{}, maxSamples: 6, Exhaustive: true}
	if s := os.Getenv("VERIF_SEED"); s != "" {
		r.Seed, _ = strconv.Atoi(s)
	}
	b, err := os.ReadFile(filepath.Join(Root, "known_findings.json"))
	if err == nil {
		var fs []Finding
		if json.Unmarshal(b, &fs) == nil {
			for _, f := range fs {
				if f.Property == id && f.Status == "known" {
					r.known[f.Signature] = f
				}
			}
		}
	}
	return r
}

// Sample records one explored case for the evidence file (first few only).
func (r *Reporter) Sample(s interface{}) {
	r.mu.Lock()
	if len(r.samples) < r.maxSamples {
		r.samples = append(r.samples, s)
	}
	r.mu.Unlock()
}

// Violation reports a violation with a stable specific signature. replay is any JSON-able
// description sufficient to re-run the case (it must contain "case").
func (r *Reporter) Violation(signature, what string, replay map[string]interface{}) {
	r.mu.Lock()
	defer r.mu.Unlock()
	if _, ok := r.known[signature]; ok {
		r.knownHits[signature]++
		if _, ok := r.knownExample[signature]; !ok {
			ex := what
			if i := strings.IndexByte(ex, '\n'); i >= 0 {
				ex = ex[:i]
			}
			if len(ex) > 160 {
				ex = ex[:160] + "..."
			}
			r.knownExample[signature] = ex
		}
		return
	}
	r.vcount++
	if _, ok := r.violations[signature]; ok {
		return
	}
	h := sha1.Sum([]byte(signature))
	path := filepath.Join(Root, "replays", fmt.Sprintf("%s-%s.json", r.ID, hex.EncodeToString(h[:6])))
	if replay == nil {
		replay = map[string]interface{}{}
	}
	replay["property"] = r.ID
	replay["signature"] = signature
	replay["what"] = what
	replay["tier"] = r.Tier
	os.MkdirAll(filepath.Dir(path), 0o755)
	b, _ := json.MarshalIndent(replay, "", " ")
	os.WriteFile(path, b, 0o644)
	r.violations[signature] = path
	r.violationWhat[signature] = what
}

// NViolations returns the number of unlisted violations so far.
func (r *Reporter) NViolations() int {
	r.mu.Lock()
	defer r.mu.Unlock()
	return len(r.violations)
}

// Finish writes the evidence file, prints KNOWN-FINDING / VIOLATION lines and returns the exit code.
func (r *Reporter) Finish() int {
	r.mu.Lock()
	defer r.mu.Unlock()
	cov := r.Coverage
	if len(r.samples) > 0 {
		cov["samples"] = r.samples
	}
	cov["exhaustive"] = r.Exhaustive
	kn := []string{}
	for s, n := range r.knownHits {
		kn = append(kn, fmt.Sprintf("%s (x%d)", s, n))
	}
	sort.Strings(kn)
	cov["known_findings_hit"] = kn
	if r.Assumptions == nil {
		r.Assumptions = []string{}
	}
	r.Assumptions = append(r.Assumptions, "the harness' reference model and oracles are trusted; every violation is replayed before it is reported")
	evd := map[string]interface{}{
		"property_id": r.ID,
		"tier":        r.Tier,
		"seed":        r.Seed,
		"level":       r.Level,
		"coverage":    cov,
		"assumptions": r.Assumptions,
		"wall_s":      time.Since(r.start).Seconds(),
		"violations":  len(r.violations),
	}
	if r.ReplayFilter == "" {
		os.MkdirAll(filepath.Join(Root, "evidence"), 0o755)
		b, _ := json.MarshalIndent(evd, "", " ")
		os.WriteFile(filepath.Join(Root, "evidence", r.ID+".json"), b, 0o644)
	}
	sigs := make([]string, 0)
	for s := range r.knownHits {
		sigs = append(sigs, s)
	}
	sort.Strings(sigs)
	for _, s := range sigs {
		fmt.Printf("KNOWN-FINDING: property=%s %s — %s [hit %d times; e.g. %s]\n", r.ID, s, r.known[s].What, r.knownHits[s], r.knownExample[s])
	}
	sigs = sigs[:0]
	for s := range r.violations {
		sigs = append(sigs, s)
	}
	sort.Strings(sigs)
	for _, s := range sigs {
		fmt.Printf("VIOLATION property=%s replay=%s\n", r.ID, r.violations[s])
		fmt.Printf("  signature: %s\n  what: %s\n", s, r.violationWhat[s])
	}
	fmt.Printf("%s %s: wall=%.1fs violations=%d known_hit=%d exhaustive=%v\n", r.ID, r.Tier, time.Since(r.start).Seconds(), len(r.violations), len(r.knownHits), r.Exhaustive)
	if len(r.violations) > 0 {
		return 1
	}
	return 0
}
