// Package ref is the reference model: a memo-less evaluator of the harness' mini-GRL over plain
// Go fact objects (standard-library reflection only; it shares no code with the engine's pkg/,
// model/ or ast/ packages), plus the world (fact state) it reads and writes.
//
// Semantics implemented are those of the DOCUMENTATION (docs/en/GRL_en.md, Function_en.md,
// GRL_Literals_en.md): 64-bit Go arithmetic, int->float promotion, `/` real quotient, `+`
// concatenation when a string is involved, short-circuit && ||, !.
package ref

import (
	"encoding/json"
	"errors"
	"fmt"
	"math"
	"reflect"
	"regexp"
	"sort"
	"strconv"
	"strings"
	"time"

	"verif/internal/facts"
	"verif/internal/grl"
)

// ---------- world ----------

// World is a fact state: named fact objects, top-level variables and JSON documents.
type World struct {
	Objs map[string]*facts.Fact
	Vars map[string]interface{} // int64 | float64 | string | bool
	JSON map[string]interface{} // decoded with encoding/json (UseNumber off: float64)
}

func NewWorld() *World {
	return &World{Objs: map[string]*facts.Fact{}, Vars: map[string]interface{}{}, JSON: map[string]interface{}{}}
}

func cloneJSON(v interface{}) interface{} {
	switch x := v.(type) {
	case map[string]interface{}:
		m := map[string]interface{}{}
		for k, e := range x {
			m[k] = cloneJSON(e)
		}
		return m
	case []interface{}:
		a := make([]interface{}, len(x))
		for i, e := range x {
			a[i] = cloneJSON(e)
		}
		return a
	}
	return v
}

func (w *World) Clone() *World {
	c := NewWorld()
	// aliasing is part of a fact state: one object under two names, one record held by two facts
	subs := map[*facts.Sub]*facts.Sub{}
	seen := map[*facts.Fact]*facts.Fact{}
	for k, f := range w.Objs {
		if cf, ok := seen[f]; ok {
			c.Objs[k] = cf
			continue
		}
		cf := f.CloneShared(subs)
		seen[f] = cf
		c.Objs[k] = cf
	}
	for k, v := range w.Vars {
		c.Vars[k] = cloneVar(v)
	}
	for k, v := range w.JSON {
		c.JSON[k] = cloneJSON(v)
	}
	return c
}

// cloneVar copies a top-level variable; slices and maps get a backing store of their own.
func cloneVar(v interface{}) interface{} {
	rv := reflect.ValueOf(v)
	switch rv.Kind() {
	case reflect.Slice:
		if rv.IsNil() {
			return v
		}
		c := reflect.MakeSlice(rv.Type(), rv.Len(), rv.Len())
		reflect.Copy(c, rv)
		return c.Interface()
	case reflect.Map:
		if rv.IsNil() {
			return v
		}
		c := reflect.MakeMapWithSize(rv.Type(), rv.Len())
		for _, k := range rv.MapKeys() {
			c.SetMapIndex(k, rv.MapIndex(k))
		}
		return c.Interface()
	}
	return v
}

// Dump renders the world canonically (equality and state keys).
func (w *World) Dump() string {
	var b strings.Builder
	ks := make([]string, 0)
	for k := range w.Objs {
		ks = append(ks, k)
	}
	sort.Strings(ks)
	for _, k := range ks {
		fmt.Fprintf(&b, "%s={%s}\n", k, w.Objs[k].Dump())
	}
	ks = ks[:0]
	for k := range w.Vars {
		ks = append(ks, k)
	}
	sort.Strings(ks)
	for _, k := range ks {
		// value and family only: the Go width of a top-level variable is not specified anywhere
		fmt.Fprintf(&b, "%s=%s\n", k, FromReflect(reflect.ValueOf(w.Vars[k])).String())
	}
	ks = ks[:0]
	for k := range w.JSON {
		ks = append(ks, k)
	}
	sort.Strings(ks)
	for _, k := range ks {
		j, _ := json.Marshal(w.JSON[k]) // encoding/json sorts map keys
		fmt.Fprintf(&b, "%s=json:%s\n", k, j)
	}
	return b.String()
}

// ---------- values ----------

type VK int

const (
	VInt VK = iota
	VUint
	VFloat
	VString
	VBool
	VTime
	VNil
	VComp // composite (pointer to struct, slice, map, JSON container): R / J holds it
)

type Val struct {
	K  VK
	I  int64
	U  uint64
	F  float64
	S  string
	B  bool
	T  time.Time
	R  reflect.Value // composite Go value
	J  interface{}   // composite JSON value
	GK reflect.Kind  // exact Go kind the value was read with (Invalid: literal / computed => int64, uint64, float64)
	// place (for assignment): set by evalRef
}

func (v Val) String() string {
	switch v.K {
	case VInt:
		return fmt.Sprintf("int(%d)", v.I)
	case VUint:
		return fmt.Sprintf("uint(%d)", v.U)
	case VFloat:
		return fmt.Sprintf("float(%v)", v.F)
	case VString:
		return fmt.Sprintf("string(%q)", v.S)
	case VBool:
		return fmt.Sprintf("bool(%v)", v.B)
	case VTime:
		return "time(" + v.T.UTC().Format(time.RFC3339Nano) + ")"
	case VNil:
		return "nil"
	}
	if v.R.IsValid() {
		return fmt.Sprintf("comp(%s)", v.R.Type())
	}
	return fmt.Sprintf("comp(json %T)", v.J)
}

func IntV(i int64) Val     { return Val{K: VInt, I: i} }
func FloatV(f float64) Val { return Val{K: VFloat, F: f} }
func StrV(s string) Val    { return Val{K: VString, S: s} }
func BoolV(b bool) Val     { return Val{K: VBool, B: b} }

func (v Val) IsNum() bool { return v.K == VInt || v.K == VUint || v.K == VFloat }

// AsFloat returns the numeric value as float64.
func (v Val) AsFloat() float64 {
	switch v.K {
	case VInt:
		return float64(v.I)
	case VUint:
		return float64(v.U)
	}
	return v.F
}

var timeType = reflect.TypeOf(time.Time{})

// FromReflect normalises a Go value.
func FromReflect(rv reflect.Value) Val {
	if !rv.IsValid() {
		return Val{K: VNil}
	}
	switch rv.Kind() {
	case reflect.Int, reflect.Int8, reflect.Int16, reflect.Int32, reflect.Int64:
		return Val{K: VInt, I: rv.Int(), GK: rv.Kind()}
	case reflect.Uint, reflect.Uint8, reflect.Uint16, reflect.Uint32, reflect.Uint64:
		return Val{K: VUint, U: rv.Uint(), GK: rv.Kind()}
	case reflect.Float32, reflect.Float64:
		return Val{K: VFloat, F: rv.Float(), GK: rv.Kind()}
	case reflect.String:
		return Val{K: VString, S: rv.String()}
	case reflect.Bool:
		return Val{K: VBool, B: rv.Bool()}
	case reflect.Struct:
		if rv.Type() == timeType {
			return Val{K: VTime, T: rv.Interface().(time.Time)}
		}
		return Val{K: VComp, R: rv}
	case reflect.Ptr:
		if rv.IsNil() {
			return Val{K: VNil, R: rv}
		}
		switch rv.Elem().Kind() {
		case reflect.Struct:
			if rv.Elem().Type() == timeType {
				return FromReflect(rv.Elem())
			}
			return Val{K: VComp, R: rv}
		default:
			v := FromReflect(rv.Elem()) // pointer to number/string/bool reads as the value
			v.GK = reflect.Ptr
			return v
		}
	case reflect.Interface:
		if rv.IsNil() {
			return Val{K: VNil}
		}
		return FromReflect(rv.Elem())
	case reflect.Slice, reflect.Map, reflect.Array:
		return Val{K: VComp, R: rv}
	}
	return Val{K: VComp, R: rv}
}

func fromJSON(j interface{}) Val {
	switch j.(type) {
	case nil:
		return Val{K: VNil}
	case map[string]interface{}, []interface{}:
		return Val{K: VComp, J: j}
	}
	// scalars: float64/string/bool from the decoder, or whatever Go kind an assignment stored
	return FromReflect(reflect.ValueOf(j))
}

// ---------- errors ----------

// ErrEval marks an evaluation failure the engine is expected to report as an error too
// (nil pointer, index/key out of range, missing fact, kind mismatch, modulo by zero).
type ErrEval struct{ Msg string }

func (e *ErrEval) Error() string { return e.Msg }
func evalErr(f string, a ...interface{}) error {
	return &ErrEval{Msg: fmt.Sprintf(f, a...)}
}

// ErrUnsupported marks an expression outside what the reference model defines (never judged).
var ErrUnsupported = errors.New("ref: construct outside the reference model")

// ---------- evaluator ----------

// Hooks lets a check observe/alter method calls of the harness facts.
type Evaluator struct {
	W *World
	// Probe is called for F.Chk(id) in conditions (nil: ignored). Never touches the real facts.
	OnChk func(id int64)
}

func (ev *Evaluator) Eval(e grl.Expr) (Val, error) {
	switch x := e.(type) {
	case *grl.Lit:
		switch x.K {
		case grl.KInt:
			return IntV(x.I), nil
		case grl.KFloat:
			return FloatV(x.F), nil
		case grl.KString:
			return StrV(x.S), nil
		case grl.KBool:
			return BoolV(x.B), nil
		case grl.KNil:
			return Val{K: VNil}, nil
		}
	case *grl.Paren:
		return ev.Eval(x.X)
	case *grl.Not:
		v, err := ev.Eval(x.X)
		if err != nil {
			return v, err
		}
		if v.K != VBool {
			return v, ErrUnsupported // negation of a non-boolean: engine ignores it with a warning; undocumented
		}
		return BoolV(!v.B), nil
	case *grl.Ref:
		pl, err := ev.place(x)
		if err != nil {
			return Val{}, err
		}
		return pl.get()
	case *grl.Bin:
		return ev.bin(x)
	case *grl.Call:
		return ev.call(x)
	case *grl.Member:
		rv, err := ev.Eval(x.Recv)
		if err != nil {
			return rv, err
		}
		p, err := stepField(placeOfVal(rv), x.Field)
		if err != nil {
			return Val{}, err
		}
		return p.get()
	case *grl.Index:
		rv, err := ev.Eval(x.Recv)
		if err != nil {
			return rv, err
		}
		sel, err := ev.Eval(x.Sel)
		if err != nil {
			return sel, err
		}
		p, err := stepSel(placeOfVal(rv), sel)
		if err != nil {
			return Val{}, err
		}
		return p.get()
	}
	return Val{}, ErrUnsupported
}

// EvalBool evaluates a condition.
func (ev *Evaluator) EvalBool(e grl.Expr) (bool, error) {
	v, err := ev.Eval(e)
	if err != nil {
		return false, err
	}
	if v.K != VBool {
		return false, evalErr("condition is not boolean: %s", v)
	}
	return v.B, nil
}

func (ev *Evaluator) bin(x *grl.Bin) (Val, error) {
	l, err := ev.Eval(x.L)
	if err != nil {
		return l, err
	}
	switch x.Op {
	case "&&":
		if l.K != VBool {
			return l, evalErr("&& on %s", l)
		}
		if !l.B {
			return BoolV(false), nil
		}
		r, err := ev.Eval(x.R)
		if err != nil {
			return r, err
		}
		if r.K != VBool {
			return r, evalErr("&& on %s", r)
		}
		return BoolV(r.B), nil
	case "||":
		if l.K != VBool {
			return l, evalErr("|| on %s", l)
		}
		if l.B {
			return BoolV(true), nil
		}
		r, err := ev.Eval(x.R)
		if err != nil {
			return r, err
		}
		if r.K != VBool {
			return r, evalErr("|| on %s", r)
		}
		return BoolV(r.B), nil
	}
	r, err := ev.Eval(x.R)
	if err != nil {
		return r, err
	}
	return BinOp(x.Op, l, r)
}

// BinOp applies a non-short-circuit binary operator.
func BinOp(op string, l, r Val) (Val, error) {
	switch op {
	case "+":
		if l.K == VString || r.K == VString {
			ls, ok1 := concatText(l)
			rs, ok2 := concatText(r)
			if l.K == VBool {
				ok1 = false // bool + string: no page documents it and Go rejects it; not judged
			}
			if !ok1 || !ok2 {
				return Val{}, ErrUnsupported // float/time rendering undocumented; bool on the left unsupported
			}
			return StrV(ls + rs), nil
		}
		return arith(op, l, r)
	case "-", "*":
		return arith(op, l, r)
	case "/":
		if !l.IsNum() || !r.IsNum() {
			return Val{}, evalErr("/ on %s, %s", l, r)
		}
		return FloatV(l.AsFloat() / r.AsFloat()), nil
	case "%", "&", "|":
		if l.K == VFloat || r.K == VFloat || !l.IsNum() || !r.IsNum() {
			return Val{}, evalErr("%s on %s, %s", op, l, r)
		}
		if l.K == VUint && r.K == VUint {
			switch op {
			case "%":
				if r.U == 0 {
					return Val{}, evalErr("modulo by zero")
				}
				return Val{K: VUint, U: l.U % r.U}, nil
			case "&":
				return Val{K: VUint, U: l.U & r.U}, nil
			default:
				return Val{K: VUint, U: l.U | r.U}, nil
			}
		}
		a, b := asInt(l), asInt(r)
		switch op {
		case "%":
			if b == 0 {
				return Val{}, evalErr("modulo by zero")
			}
			return IntV(a % b), nil
		case "&":
			return IntV(a & b), nil
		default:
			return IntV(a | b), nil
		}
	case "==", "!=", "<", "<=", ">", ">=":
		if l.IsNum() && r.IsNum() && (l.K == VFloat && math.IsNaN(l.F) || r.K == VFloat && math.IsNaN(r.F)) {
			// not a number: unordered and unequal to everything, itself included
			return BoolV(op == "!="), nil
		}
		c, ok, err := Compare(l, r)
		if err != nil {
			return Val{}, err
		}
		switch op {
		case "==":
			return BoolV(ok && c == 0), nil
		case "!=":
			return BoolV(!(ok && c == 0)), nil
		}
		if !ok || l.K == VBool || l.K == VNil {
			return Val{}, evalErr("%s on unordered %s, %s", op, l, r)
		}
		switch op {
		case "<":
			return BoolV(c < 0), nil
		case "<=":
			return BoolV(c <= 0), nil
		case ">":
			return BoolV(c > 0), nil
		default:
			return BoolV(c >= 0), nil
		}
	}
	return Val{}, ErrUnsupported
}

func asInt(v Val) int64 {
	if v.K == VUint {
		return int64(v.U)
	}
	return v.I
}

func concatText(v Val) (string, bool) {
	switch v.K {
	case VString:
		return v.S, true
	case VInt:
		return strconv.FormatInt(v.I, 10), true
	case VUint:
		return strconv.FormatUint(v.U, 10), true
	case VBool:
		return strconv.FormatBool(v.B), true
	}
	return "", false
}

func arith(op string, l, r Val) (Val, error) {
	if !l.IsNum() || !r.IsNum() {
		return Val{}, evalErr("%s on %s, %s", op, l, r)
	}
	if l.K == VFloat || r.K == VFloat {
		a, b := l.AsFloat(), r.AsFloat()
		switch op {
		case "+":
			return FloatV(a + b), nil
		case "-":
			return FloatV(a - b), nil
		default:
			return FloatV(a * b), nil
		}
	}
	if l.K == VUint && r.K == VUint {
		switch op {
		case "+":
			return Val{K: VUint, U: l.U + r.U}, nil
		case "-":
			return Val{K: VUint, U: l.U - r.U}, nil
		default:
			return Val{K: VUint, U: l.U * r.U}, nil
		}
	}
	a, b := asInt(l), asInt(r)
	switch op {
	case "+":
		return IntV(a + b), nil
	case "-":
		return IntV(a - b), nil
	default:
		return IntV(a * b), nil
	}
}

// Compare orders two values of one family. ok=false: same family but only (in)equality defined
// (bool), or both nil. Different families: error for numbers vs. strings etc.
func Compare(l, r Val) (c int, ok bool, err error) {
	switch {
	case l.IsNum() && r.IsNum():
		if l.K == VFloat || r.K == VFloat {
			a, b := l.AsFloat(), r.AsFloat()
			switch {
			case a < b:
				return -1, true, nil
			case a > b:
				return 1, true, nil
			}
			return 0, true, nil
		}
		if l.K == VUint && r.K == VUint {
			switch {
			case l.U < r.U:
				return -1, true, nil
			case l.U > r.U:
				return 1, true, nil
			}
			return 0, true, nil
		}
		// mixed signed/unsigned within the int64 range
		if l.K == VUint && l.U > math.MaxInt64 {
			return 1, true, nil
		}
		if r.K == VUint && r.U > math.MaxInt64 {
			return -1, true, nil
		}
		a, b := asInt(l), asInt(r)
		switch {
		case a < b:
			return -1, true, nil
		case a > b:
			return 1, true, nil
		}
		return 0, true, nil
	case l.K == VString && r.K == VString:
		return strings.Compare(l.S, r.S), true, nil
	case l.K == VBool && r.K == VBool:
		if l.B == r.B {
			return 0, true, nil
		}
		return 1, false, nil // unequal, unordered
	case l.K == VTime && r.K == VTime:
		switch {
		case l.T.Before(r.T):
			return -1, true, nil
		case l.T.After(r.T):
			return 1, true, nil
		}
		return 0, true, nil
	case l.K == VNil || r.K == VNil:
		// the engine's comparisons are not defined on nil (a nil pointer, a JSON null, the nil literal): the
		// documented test is IsNil()
		return 0, false, evalErr("comparison with nil: %s, %s", l, r)
	}
	return 0, false, evalErr("cannot compare %s with %s", l, r)
}

// ---------- places (readable / writable locations) ----------

type place struct {
	// exactly one of the following addressing modes
	rv     reflect.Value // addressable Go value (field, slice element) or any readable value
	mapRv  reflect.Value // Go map + key
	mapKey reflect.Value
	w      *World // top-level variable
	name   string
	jpar   interface{} // JSON parent container (map[string]interface{} or []interface{}) + key/index
	jkey   string
	jidx   int
	jroot  bool // JSON document root
	isJSON bool
}

func placeOfVal(v Val) place {
	if v.K == VComp && !v.R.IsValid() {
		return place{isJSON: true, jroot: true, jpar: v.J}
	}
	if v.K == VComp || v.K == VNil {
		return place{rv: v.R}
	}
	return place{rv: reflect.Value{}}
}

func (p place) get() (Val, error) {
	switch {
	case p.isJSON:
		j, err := p.jget()
		if err != nil {
			return Val{}, err
		}
		return fromJSON(j), nil
	case p.w != nil:
		v, ok := p.w.Vars[p.name]
		if !ok {
			return Val{}, evalErr("non existent key %s", p.name)
		}
		return FromReflect(reflect.ValueOf(v)), nil
	case p.mapRv.IsValid():
		e := p.mapRv.MapIndex(p.mapKey)
		if !e.IsValid() {
			return Val{}, evalErr("map key %v not found", p.mapKey)
		}
		return FromReflect(e), nil
	}
	return FromReflect(p.rv), nil
}

func (p place) jget() (interface{}, error) {
	if p.jroot {
		return p.jpar, nil
	}
	switch c := p.jpar.(type) {
	case map[string]interface{}:
		v, ok := c[p.jkey]
		if !ok {
			return nil, evalErr("json member %q not found", p.jkey)
		}
		return v, nil
	case []interface{}:
		if p.jidx < 0 || p.jidx >= len(c) {
			return nil, evalErr("json index %d out of range", p.jidx)
		}
		return c[p.jidx], nil
	}
	return nil, evalErr("json: not a container")
}

func stepField(p place, field string) (place, error) {
	if p.isJSON {
		cur, err := p.jget()
		if err != nil {
			return place{}, err
		}
		m, ok := cur.(map[string]interface{})
		if !ok {
			return place{}, evalErr("json: %q of non-object", field)
		}
		return place{isJSON: true, jpar: m, jkey: field}, nil
	}
	var cur reflect.Value
	switch {
	case p.mapRv.IsValid():
		cur = p.mapRv.MapIndex(p.mapKey)
		if !cur.IsValid() {
			return place{}, evalErr("map key %v not found", p.mapKey)
		}
	case p.w != nil:
		return place{}, evalErr("field %s of top-level scalar %s", field, p.name)
	default:
		cur = p.rv
	}
	if !cur.IsValid() {
		return place{}, evalErr("field %s of invalid value", field)
	}
	for cur.Kind() == reflect.Ptr || cur.Kind() == reflect.Interface {
		if cur.IsNil() {
			return place{}, evalErr("nil pointer dereference reading .%s", field)
		}
		cur = cur.Elem()
	}
	if cur.Kind() != reflect.Struct {
		return place{}, evalErr("field %s of non-struct %s", field, cur.Kind())
	}
	f := cur.FieldByName(field)
	if !f.IsValid() {
		return place{}, evalErr("no field %s", field)
	}
	return place{rv: f}, nil
}

func stepSel(p place, sel Val) (place, error) {
	if p.isJSON {
		cur, err := p.jget()
		if err != nil {
			return place{}, err
		}
		switch c := cur.(type) {
		case []interface{}:
			if !sel.IsNum() {
				return place{}, evalErr("json array selector %s", sel)
			}
			i := int(sel.AsFloat())
			if i < 0 || i >= len(c) {
				return place{}, evalErr("json index %d out of range", i)
			}
			return place{isJSON: true, jpar: c, jidx: i}, nil
		case map[string]interface{}:
			if sel.K != VString {
				return place{}, evalErr("json object selector %s", sel)
			}
			return place{isJSON: true, jpar: c, jkey: sel.S}, nil
		}
		return place{}, evalErr("json: selector on scalar")
	}
	var cur reflect.Value
	switch {
	case p.mapRv.IsValid():
		cur = p.mapRv.MapIndex(p.mapKey)
		if !cur.IsValid() {
			return place{}, evalErr("map key %v not found", p.mapKey)
		}
	default:
		cur = p.rv
	}
	if !cur.IsValid() {
		return place{}, evalErr("selector on invalid value")
	}
	for cur.Kind() == reflect.Ptr || cur.Kind() == reflect.Interface {
		if cur.IsNil() {
			return place{}, evalErr("selector on nil")
		}
		cur = cur.Elem()
	}
	switch cur.Kind() {
	case reflect.Slice, reflect.Array:
		if sel.K != VInt && sel.K != VUint {
			return place{}, evalErr("array selector %s", sel)
		}
		i := int(asInt(sel))
		if i < 0 || i >= cur.Len() {
			return place{}, evalErr("index %d out of range [0,%d)", i, cur.Len())
		}
		return place{rv: cur.Index(i)}, nil
	case reflect.Map:
		if cur.IsNil() {
			return place{}, evalErr("selector on nil map")
		}
		kt := cur.Type().Key()
		var key reflect.Value
		switch {
		case kt.Kind() == reflect.String && sel.K == VString:
			key = reflect.ValueOf(sel.S).Convert(kt)
		case (kt.Kind() >= reflect.Int && kt.Kind() <= reflect.Int64) && (sel.K == VInt || sel.K == VUint):
			key = reflect.ValueOf(asInt(sel)).Convert(kt)
		default:
			return place{}, evalErr("map selector kind mismatch: %s for %s", sel, kt)
		}
		return place{mapRv: cur, mapKey: key}, nil
	}
	return place{}, evalErr("selector on %s", cur.Kind())
}

func (ev *Evaluator) place(r *grl.Ref) (place, error) {
	var p place
	if f, ok := ev.W.Objs[r.Root]; ok {
		p = place{rv: reflect.ValueOf(f)}
	} else if j, ok := ev.W.JSON[r.Root]; ok {
		p = place{isJSON: true, jroot: true, jpar: j}
	} else if _, ok := ev.W.Vars[r.Root]; ok {
		p = place{w: ev.W, name: r.Root}
	} else {
		return place{}, evalErr("non existent key %s", r.Root)
	}
	for _, s := range r.Steps {
		var err error
		if s.Sel != nil {
			var sel Val
			sel, err = ev.Eval(s.Sel)
			if err != nil {
				return place{}, err
			}
			p, err = stepSel(p, sel)
		} else {
			p, err = stepField(p, s.Field)
		}
		if err != nil {
			return place{}, err
		}
	}
	return p, nil
}

// ---------- assignment ----------

// ErrRange marks a write whose value does not fit the destination (outside every quantifier).
var ErrRange = errors.New("ref: value out of the destination's range")

func convertTo(t reflect.Type, v Val) (reflect.Value, error) {
	out := reflect.New(t).Elem()
	switch t.Kind() {
	case reflect.Int, reflect.Int8, reflect.Int16, reflect.Int32, reflect.Int64:
		var i int64
		switch v.K {
		case VInt:
			i = v.I
		case VUint:
			if v.U > math.MaxInt64 {
				return out, ErrRange
			}
			i = int64(v.U)
		case VFloat:
			if v.F != math.Trunc(v.F) || math.Abs(v.F) >= 1<<62 {
				return out, ErrUnsupported // float -> int truncation is undocumented
			}
			i = int64(v.F)
		default:
			return out, evalErr("cannot assign %s to %s", v, t)
		}
		if out.OverflowInt(i) {
			return out, ErrRange
		}
		out.SetInt(i)
	case reflect.Uint, reflect.Uint8, reflect.Uint16, reflect.Uint32, reflect.Uint64:
		var u uint64
		switch v.K {
		case VInt:
			if v.I < 0 {
				return out, ErrRange
			}
			u = uint64(v.I)
		case VUint:
			u = v.U
		case VFloat:
			if v.F != math.Trunc(v.F) || v.F < 0 || v.F >= 18446744073709551616.0 { // 2^64
				return out, ErrUnsupported
			}
			u = uint64(v.F)
		default:
			return out, evalErr("cannot assign %s to %s", v, t)
		}
		if out.OverflowUint(u) {
			return out, ErrRange
		}
		out.SetUint(u)
	case reflect.Float32, reflect.Float64:
		if !v.IsNum() {
			return out, evalErr("cannot assign %s to %s", v, t)
		}
		f := v.AsFloat()
		if t.Kind() == reflect.Float32 && float64(float32(f)) != f {
			return out, ErrRange // not exactly representable: rounding mode not judged
		}
		out.SetFloat(f)
	case reflect.String:
		if v.K != VString {
			return out, evalErr("cannot assign %s to string", v)
		}
		out.SetString(v.S)
	case reflect.Bool:
		if v.K != VBool {
			return out, evalErr("cannot assign %s to bool", v)
		}
		out.SetBool(v.B)
	case reflect.Struct:
		if t == timeType && v.K == VTime {
			out.Set(reflect.ValueOf(v.T))
			return out, nil
		}
		return out, evalErr("cannot assign %s to %s", v, t)
	case reflect.Ptr:
		if v.K == VNil {
			return out, nil
		}
		if v.K == VComp && v.R.IsValid() && v.R.Type().AssignableTo(t) {
			out.Set(v.R)
			return out, nil
		}
		if v.K != VComp {
			// pointer to scalar: write through
			return out, ErrUnsupported
		}
		return out, evalErr("cannot assign %s to %s", v, t)
	case reflect.Slice, reflect.Map:
		if v.K == VComp && v.R.IsValid() && v.R.Type().AssignableTo(t) {
			out.Set(v.R)
			return out, nil
		}
		return out, evalErr("cannot assign %s to %s", v, t)
	default:
		return out, ErrUnsupported
	}
	return out, nil
}

func toJSONVal(v Val) (interface{}, error) {
	switch v.K {
	case VInt:
		return float64(v.I), nil
	case VUint:
		return float64(v.U), nil
	case VFloat:
		return v.F, nil
	case VString:
		return v.S, nil
	case VBool:
		return v.B, nil
	case VNil:
		return nil, nil
	}
	return nil, ErrUnsupported
}

func (p place) set(v Val) error {
	switch {
	case p.isJSON:
		j, err := toJSONVal(v)
		if err != nil {
			return err
		}
		switch c := p.jpar.(type) {
		case map[string]interface{}:
			if p.jroot {
				return ErrUnsupported
			}
			c[p.jkey] = j
			return nil
		case []interface{}:
			if p.jidx < 0 || p.jidx >= len(c) {
				return evalErr("json index out of range")
			}
			c[p.jidx] = j
			return nil
		}
		return evalErr("json: write to non-container")
	case p.w != nil:
		switch v.K {
		case VInt:
			p.w.Vars[p.name] = v.I
		case VUint:
			p.w.Vars[p.name] = v.U
		case VFloat:
			p.w.Vars[p.name] = v.F
		case VString:
			p.w.Vars[p.name] = v.S
		case VBool:
			p.w.Vars[p.name] = v.B
		default:
			return ErrUnsupported
		}
		return nil
	case p.mapRv.IsValid():
		et := p.mapRv.Type().Elem()
		// the property restricts map writes to values of exactly the element type
		if !exactKind(et, v) {
			return ErrUnsupported
		}
		nv, err := convertTo(et, v)
		if err != nil {
			return err
		}
		p.mapRv.SetMapIndex(p.mapKey, nv)
		return nil
	}
	if !p.rv.IsValid() || !p.rv.CanSet() {
		return evalErr("destination not settable")
	}
	if p.rv.Kind() == reflect.Ptr && p.rv.Type().Elem().Kind() != reflect.Struct && v.K != VNil && v.K != VComp {
		// pointer to scalar field: the engine writes through the pointer
		if p.rv.IsNil() {
			return ErrUnsupported
		}
		nv, err := convertTo(p.rv.Type().Elem(), v)
		if err != nil {
			return err
		}
		p.rv.Elem().Set(nv)
		return nil
	}
	nv, err := convertTo(p.rv.Type(), v)
	if err != nil {
		return err
	}
	p.rv.Set(nv)
	return nil
}

func exactKind(t reflect.Type, v Val) bool {
	if v.GK != reflect.Invalid && v.GK != t.Kind() && v.K != VComp && v.K != VNil {
		return false
	}
	switch t.Kind() {
	case reflect.Int64:
		return v.K == VInt
	case reflect.Uint64:
		return v.K == VUint
	case reflect.Float64:
		return v.K == VFloat
	case reflect.String:
		return v.K == VString
	case reflect.Bool:
		return v.K == VBool
	case reflect.Ptr:
		return v.K == VComp || v.K == VNil
	}
	return false
}

// Effect is what an action did besides writing facts.
type Effect struct {
	Retract  []string
	Complete bool
	Forget   []string
}

// Apply executes one action on the world.
func (ev *Evaluator) Apply(a grl.Action, eff *Effect) error {
	if a.Target == nil {
		return ev.callAction(a.Call, eff)
	}
	rhs, err := ev.Eval(a.RHS)
	if err != nil {
		return err
	}
	if a.Op != "=" {
		pl, err := ev.place(a.Target)
		if err != nil {
			return err
		}
		cur, err := pl.get()
		if err != nil {
			return err
		}
		rhs, err = BinOp(a.Op[:1], cur, rhs)
		if err != nil {
			return err
		}
	}
	pl, err := ev.placeForWrite(a.Target)
	if err != nil {
		return err
	}
	return pl.set(rhs)
}

// placeForWrite is place() except that a missing map key / top-level name is creatable.
func (ev *Evaluator) placeForWrite(r *grl.Ref) (place, error) {
	if len(r.Steps) == 0 {
		if _, isObj := ev.W.Objs[r.Root]; isObj {
			return place{}, ErrUnsupported
		}
		if _, isJ := ev.W.JSON[r.Root]; isJ {
			return place{}, ErrUnsupported
		}
		return place{w: ev.W, name: r.Root}, nil
	}
	return ev.place(r)
}

func (ev *Evaluator) callAction(e grl.Expr, eff *Effect) error {
	c, ok := e.(*grl.Call)
	if !ok {
		// a bare expression atom as action: evaluate for errors only
		_, err := ev.Eval(e)
		return err
	}
	if c.Recv == nil {
		args := make([]Val, len(c.Args))
		for i, a := range c.Args {
			v, err := ev.Eval(a)
			if err != nil {
				return err
			}
			args[i] = v
		}
		switch c.Name {
		case "Retract":
			if len(args) == 1 && args[0].K == VString {
				eff.Retract = append(eff.Retract, args[0].S)
				return nil
			}
			return evalErr("Retract: bad arguments")
		case "Complete":
			eff.Complete = true
			return nil
		case "Forget", "Changed":
			if len(args) == 1 && args[0].K == VString {
				eff.Forget = append(eff.Forget, args[0].S)
				return nil
			}
			return evalErr("%s: bad arguments", c.Name)
		case "Log":
			return nil
		}
	}
	if r, ok := c.Recv.(*grl.Ref); ok && len(r.Steps) == 0 {
		if f, ok := ev.W.Objs[r.Root]; ok {
			args := make([]Val, len(c.Args))
			for i, a := range c.Args {
				v, err := ev.Eval(a)
				if err != nil {
					return err
				}
				args[i] = v
			}
			switch c.Name {
			case "Bump":
				f.I++
				return nil
			case "SetI":
				if len(args) == 1 && args[0].K == VInt {
					f.I = args[0].I
					return nil
				}
				return evalErr("SetI: bad arguments")
			case "Act", "Hook":
				return nil
			}
		}
	}
	_, err := ev.call(c)
	return err
}

// ---------- calls ----------

func (ev *Evaluator) call(c *grl.Call) (Val, error) {
	args := make([]Val, len(c.Args))
	if c.Recv == nil {
		for i, a := range c.Args {
			v, err := ev.Eval(a)
			if err != nil {
				return v, err
			}
			args[i] = v
		}
		return builtin(c.Name, args)
	}
	// receiver first (the engine evaluates the receiver atom before the arguments)
	recv, err := ev.Eval(c.Recv)
	if err != nil {
		return recv, err
	}
	for i, a := range c.Args {
		v, err := ev.Eval(a)
		if err != nil {
			return v, err
		}
		args[i] = v
	}
	// fact methods
	if recv.K == VComp && recv.R.IsValid() && recv.R.Type() == reflect.TypeOf(&facts.Fact{}) {
		f := recv.R.Interface().(*facts.Fact)
		switch c.Name {
		case "Add":
			if len(args) == 2 && args[0].K == VInt && args[1].K == VInt {
				return IntV(args[0].I + args[1].I), nil
			}
		case "GetI":
			if len(args) == 0 {
				return IntV(f.I), nil
			}
		case "IsPos":
			if len(args) == 1 && args[0].K == VInt {
				return BoolV(args[0].I > 0), nil
			}
		case "Heavy", "Iheavy":
			if len(args) == 1 && args[0].K == VInt {
				return IntV(facts.HeavyOf(args[0].I)), nil
			}
		case "Chk":
			if len(args) == 1 && args[0].K == VInt {
				if ev.OnChk != nil {
					ev.OnChk(args[0].I)
				}
				return BoolV(true), nil
			}
		case "BasePlus":
			if len(args) == 1 && args[0].K == VInt {
				return IntV(f.BI + args[0].I), nil
			}
		case "TagIs":
			if len(args) == 1 && args[0].K == VString {
				return BoolV(f.S == args[0].S), nil
			}
		case "Boom":
			return Val{}, evalErr("F.Boom() panics")
		case "Cat":
			var sb strings.Builder
			for _, a := range args {
				if a.K != VString {
					return Val{}, evalErr("Cat: non-string argument")
				}
				sb.WriteString(a.S)
			}
			return StrV(sb.String()), nil
		case "Pick":
			if len(args) >= 1 && args[0].K == VInt {
				xs := args[1:]
				for _, x := range xs {
					if x.K != VInt {
						return Val{}, evalErr("Pick: non-int argument")
					}
				}
				i := args[0].I
				if i < 0 || int(i) >= len(xs) {
					return IntV(-1), nil
				}
				return xs[i], nil
			}
		case "Sheavy":
			if len(args) == 1 && args[0].K == VInt {
				return FromReflect(reflect.ValueOf(&facts.Sub{V: facts.HeavyOf(args[0].I), S: "s"})), nil
			}
		case "GetSub":
			if len(args) == 0 {
				return FromReflect(reflect.ValueOf(f.P)), nil
			}
		}
		return Val{}, evalErr("fact method %s: bad call", c.Name)
	}
	// methods of facts.Sub, reached by value or through a pointer
	if recv.K == VComp && recv.R.IsValid() && len(args) == 0 {
		rv := recv.R
		for rv.Kind() == reflect.Ptr && !rv.IsNil() {
			rv = rv.Elem()
		}
		if rv.Kind() == reflect.Struct && rv.Type() == reflect.TypeOf(facts.Sub{}) {
			switch c.Name {
			case "Twice":
				return IntV(2 * rv.FieldByName("V").Int()), nil
			case "Avail":
				return IntV(rv.FieldByName("V").Int() - 1), nil
			}
		}
	}
	switch recv.K {
	case VString:
		return strMethod(recv.S, c.Name, args)
	case VComp:
		if c.Name == "Len" && len(args) == 0 {
			if recv.R.IsValid() {
				switch recv.R.Kind() {
				case reflect.Slice, reflect.Map, reflect.Array:
					return IntV(int64(recv.R.Len())), nil
				}
			} else {
				switch j := recv.J.(type) {
				case []interface{}:
					return IntV(int64(len(j))), nil
				case map[string]interface{}:
					return IntV(int64(len(j))), nil
				}
			}
		}
	}
	return Val{}, ErrUnsupported
}

func strMethod(s, name string, args []Val) (Val, error) {
	str := func(i int) (string, bool) {
		if i < len(args) && args[i].K == VString {
			return args[i].S, true
		}
		return "", false
	}
	switch name {
	case "Len":
		if len(args) == 0 {
			return IntV(int64(len(s))), nil
		}
	case "Compare":
		if a, ok := str(0); ok && len(args) == 1 {
			return IntV(int64(strings.Compare(s, a))), nil
		}
	case "Contains":
		if a, ok := str(0); ok && len(args) == 1 {
			return BoolV(strings.Contains(s, a)), nil
		}
	case "Count":
		if a, ok := str(0); ok && len(args) == 1 {
			return IntV(int64(strings.Count(s, a))), nil
		}
	case "HasPrefix":
		if a, ok := str(0); ok && len(args) == 1 {
			return BoolV(strings.HasPrefix(s, a)), nil
		}
	case "HasSuffix":
		if a, ok := str(0); ok && len(args) == 1 {
			return BoolV(strings.HasSuffix(s, a)), nil
		}
	case "Index":
		if a, ok := str(0); ok && len(args) == 1 {
			return IntV(int64(strings.Index(s, a))), nil
		}
	case "LastIndex":
		if a, ok := str(0); ok && len(args) == 1 {
			return IntV(int64(strings.LastIndex(s, a))), nil
		}
	case "Repeat":
		if len(args) == 1 && (args[0].K == VInt || args[0].K == VUint) && asInt(args[0]) >= 0 && asInt(args[0]) < 100 {
			return StrV(strings.Repeat(s, int(asInt(args[0])))), nil
		}
	case "Replace":
		a, ok1 := str(0)
		b, ok2 := str(1)
		if ok1 && ok2 && len(args) == 2 {
			return StrV(strings.ReplaceAll(s, a, b)), nil
		}
	case "ToLower":
		if len(args) == 0 {
			return StrV(strings.ToLower(s)), nil
		}
	case "ToUpper":
		if len(args) == 0 {
			return StrV(strings.ToUpper(s)), nil
		}
	case "Trim":
		if len(args) == 0 {
			return StrV(strings.TrimSpace(s)), nil
		}
	case "Split":
		if a, ok := str(0); ok && len(args) == 1 {
			return FromReflect(reflect.ValueOf(strings.Split(s, a))), nil
		}
	case "MatchString":
		if a, ok := str(0); ok && len(args) == 1 {
			m, err := regexp.MatchString(a, s)
			if err != nil {
				return Val{}, evalErr("MatchString: invalid pattern")
			}
			return BoolV(m), nil
		}
	case "In":
		for _, a := range args {
			if a.K != VString {
				return Val{}, evalErr("In: non-string argument")
			}
		}
		for _, a := range args {
			if a.S == s {
				return BoolV(true), nil
			}
		}
		return BoolV(false), nil
	}
	return Val{}, ErrUnsupported
}

func builtin(name string, args []Val) (Val, error) {
	switch name {
	case "StringContains":
		if len(args) == 2 && args[0].K == VString && args[1].K == VString {
			return BoolV(strings.Contains(args[0].S, args[1].S)), nil
		}
	case "IsNil":
		if len(args) == 1 {
			return BoolV(args[0].K == VNil), nil
		}
	case "IsZero":
		if len(args) == 1 {
			switch args[0].K {
			case VInt:
				return BoolV(args[0].I == 0), nil
			case VUint:
				return BoolV(args[0].U == 0), nil
			case VFloat:
				return BoolV(args[0].F == 0), nil
			case VString:
				return BoolV(args[0].S == ""), nil
			case VNil:
				return BoolV(true), nil
			case VTime:
				return BoolV(args[0].T.IsZero()), nil
			}
		}
	case "Max", "Min":
		if len(args) == 0 {
			return FloatV(0), nil // the Go functions are variadic: no value at all yields 0
		}
		if len(args) > 0 {
			best := args[0].AsFloat()
			for _, a := range args {
				if !a.IsNum() {
					return Val{}, ErrUnsupported
				}
				f := a.AsFloat()
				if (name == "Max" && f > best) || (name == "Min" && f < best) {
					best = f
				}
			}
			return FloatV(best), nil
		}
	case "Abs":
		if len(args) == 1 && args[0].IsNum() {
			return FloatV(math.Abs(args[0].AsFloat())), nil
		}
	case "ContainsStr":
		if len(args) == 2 && args[0].K == VComp && args[0].R.IsValid() && args[0].R.Kind() == reflect.Slice && args[0].R.Type().Elem().Kind() == reflect.String && args[1].K == VString {
			for i := 0; i < args[0].R.Len(); i++ {
				if args[0].R.Index(i).String() == args[1].S {
					return BoolV(true), nil
				}
			}
			return BoolV(false), nil
		}
	}
	// the math family: Go's math function of the same name on float64 arguments (documented as such)
	if f, ok := math1[name]; ok && len(args) == 1 && args[0].K == VFloat {
		return FloatV(f(args[0].F)), nil
	}
	if f, ok := math2[name]; ok && len(args) == 2 && args[0].K == VFloat && args[1].K == VFloat {
		return FloatV(f(args[0].F, args[1].F)), nil
	}
	switch name {
	case "IsNaN":
		if len(args) == 1 && args[0].K == VFloat {
			return BoolV(math.IsNaN(args[0].F)), nil
		}
	case "IsInf":
		if len(args) == 2 && args[0].K == VFloat && args[1].K == VInt {
			return BoolV(math.IsInf(args[0].F, int(args[1].I))), nil
		}
	case "Signbit":
		if len(args) == 1 && args[0].K == VFloat {
			return BoolV(math.Signbit(args[0].F)), nil
		}
	case "Pow10":
		if len(args) == 1 && args[0].K == VInt {
			return FloatV(math.Pow10(int(args[0].I))), nil
		}
	case "Ldexp":
		if len(args) == 2 && args[0].K == VFloat && args[1].K == VInt {
			return FloatV(math.Ldexp(args[0].F, int(args[1].I))), nil
		}
	case "Jn":
		if len(args) == 2 && args[0].K == VInt && args[1].K == VFloat {
			return FloatV(math.Jn(int(args[0].I), args[1].F)), nil
		}
	case "Ilogb":
		if len(args) == 1 && args[0].K == VFloat {
			return IntV(int64(math.Ilogb(args[0].F))), nil
		}
	case "Float64bits":
		if len(args) == 1 && args[0].K == VFloat {
			return Val{K: VUint, U: math.Float64bits(args[0].F), GK: reflect.Uint64}, nil
		}
	}
	return Val{}, ErrUnsupported
}

var math1 = map[string]func(float64) float64{
	"Acos": math.Acos, "Acosh": math.Acosh, "Asin": math.Asin, "Asinh": math.Asinh, "Atan": math.Atan, "Atanh": math.Atanh, "Cbrt": math.Cbrt,
	"Ceil": math.Ceil, "Cos": math.Cos, "Cosh": math.Cosh, "Erf": math.Erf, "Erfc": math.Erfc, "Erfcinv": math.Erfcinv, "Erfinv": math.Erfinv,
	"Exp": math.Exp, "Exp2": math.Exp2, "Expm1": math.Expm1, "Floor": math.Floor, "Gamma": math.Gamma, "J0": math.J0, "J1": math.J1,
	"MathLog": math.Log, "Log10": math.Log10, "Log1p": math.Log1p, "Log2": math.Log2, "Logb": math.Logb, "Round": math.Round,
	"RoundToEven": math.RoundToEven, "Sin": math.Sin, "Sinh": math.Sinh, "Sqrt": math.Sqrt, "Tan": math.Tan, "Tanh": math.Tanh, "Trunc": math.Trunc,
}

var math2 = map[string]func(float64, float64) float64{
	"Atan2": math.Atan2, "Copysign": math.Copysign, "Dim": math.Dim, "Hypot": math.Hypot, "Mod": math.Mod, "Pow": math.Pow, "Remainder": math.Remainder,
}
